import FqModel.Gaps
import FqModel.Tree
import Proofs.Gaps
import Proofs.GapsTree
/-!
  C04 — property theorems about the model of `ranges.Gaps` (FqModel/Gaps.lean).
  Helper lemmas live in Proofs/Gaps.lean.

  Full statement of the property at the level of `ranges.Gaps` (what `D.FillGaps` relies on):
    for every buffer `total = 0:n` and every finite list `rs` of (possibly empty) ranges inside it,
      (a) no bit of a gap lies in a range                                  — `gaps_disjoint`   (proved)
      (b) every gap lies inside the buffer                                  — `gaps_within`     (proved)
      (c) every bit of the buffer outside all ranges lies in a gap          — FALSE of the code as it is
          (`gaps_hole_witness`); proved is `gaps_cover_partial`: … lies in a gap OR is a one-bit hole
          between a range that stops at the bit and a range that starts one bit later (the exact class
          of the known finding `one-bit-hole`); and the full (c) for the one-character repair
          `m.Stop() >= ranges[j].Start` — `gapsFixed_cover`.
      (d) the result does not depend on the order of the input (unstable sort) — `gaps_perm`.

  SYSTEM LEVEL (second half of this file, helper lemmas Proofs/GapsTree.lean): the same statements about the decode
  TREE that `decode.Decode` returns for ANY decoder program (`FqModel.Tree.run`, the model C03 proves `run_wf` about;
  `D.FillGaps` = `addGaps`/`finishDecode`, decode.go:149-151, :327-370), failing programs with their partial trees
  included:
      (T4) the gap fields attached to the root are — as a multiset — exactly `ranges.Gaps(0:l, leaves)` moved to the
           start of the decode range, where `leaves` are ALL non-compound values of the root's buffer below the root
           (nested buffer roots skipped), and they satisfy H                        — `tree_gaps_are_ranges_gaps`
      (T1) every bit of the decode range is in a leaf, in a gap field or is a one-bit hole — `tree_cover_partial`;
           the hole disjunct cannot be dropped (`tree_full_cover_false`); with the repaired `ranges.Gaps` applied to
           the same leaves nothing is lost                                           — `tree_cover_gapsFixed`
      (T2) a gap field overlaps no leaf and neither overlaps nor touches another gap field
                                                                   — `tree_gaps_disjoint_leaves`, `tree_gaps_apart`
      (T3) gap fields lie inside the decode range                                    — `tree_gaps_within`
      (T5) the undecoded tail (every bit at or after the last leaf stop — e.g. of a failed decode) is inside ONE
           gap field that ends with the decode range; no hole exception there        — `tree_tail_is_one_gap`
      (T6) the same for EVERY `decode()` call with FillGaps that a program makes (FieldFormatLen/Range,
           FieldFormatBitBuf), at the moment the call returns                        — `nested_decode_filled`
      (T7) FillGaps never fails to read a gap (`bitiox.Range`); the only panic that can escape `decode()` is its
           duplicate-name Fatalf                                                      — `fillgaps_panic_only_duplicate_name`
      (T8) gap fields come from FillGaps only (no program makes one)                  — `no_fillgaps_no_gap_fields`
  WHICH decodes fill gaps is part of the model (`FMode.fill`, `doFmtBuf`, `doInline`, `doRootFn`, `doRootBuf`) and agrees
  with decode.go: FillGaps:true for the top level (interp), TryFieldFormatLen :1078, TryFieldFormatRange :1118,
  TryFieldFormatBitBuf :1147; FillGaps:false for D.Format :1008 and TryFieldFormat :1039; FieldRootBitBuf and
  Field{Struct,Array}RootBitBufFn do not call decode() at all — their buffers are never gap filled.
  CONTENT: the model's gap leaves carry no content (`leaf (.gap n) .gap start len`, `val = 0`), so "a gap field's content
  is exactly the input bits of its range" is NOT a theorem here; it is checked by the correspondence (`gapbits` cases).
-/
namespace Props.C04
open FqModel.Gaps Proofs.Gaps

/-- H: what `D.FillGaps` passes to `ranges.Gaps` (decode.go:349, :149): the buffer starts at
    bit 0 and the leaf ranges are non-negative-length ranges inside it. -/
abbrev H (total : Range) (rs : List Range) : Prop :=
  total.start = 0 ∧ ∀ r ∈ rs, 0 ≤ r.start ∧ 0 ≤ r.len ∧ r.stop ≤ total.len

/-! ### the known finding, pinned by evaluation -/

/-- Known finding (DESIGN §1.8 #2): the full coverage statement is FALSE of the current
    algorithm — bit 7 of a 10-bit buffer with fields 1:1 2:5 8:1 is neither in a field nor
    in a gap.  This is the case pinned by the repository's own TestRangeGaps. -/
theorem gaps_hole_witness :
    let rs := [⟨1, 1⟩, ⟨2, 5⟩, ⟨8, 1⟩]
    gaps ⟨0, 10⟩ rs = [⟨0, 1⟩, ⟨9, 1⟩] ∧ covered rs 7 = false ∧ covered (gaps ⟨0, 10⟩ rs) 7 = false
      ∧ oneBitHole rs 7 = true := by
  decide

/-- the hole also opens next to an EMPTY range: fields 0:3 and 4:0 lose bit 3 -/
theorem gaps_hole_witness_empty :
    covered (gaps ⟨0, 10⟩ [⟨0, 3⟩, ⟨4, 0⟩]) 3 = false ∧ oneBitHole [⟨0, 3⟩, ⟨4, 0⟩] 3 = true := by
  decide

/-- the one-character repair closes the witness -/
theorem gapsFixed_witness :
    gapsFixed ⟨0, 10⟩ [⟨1, 1⟩, ⟨2, 5⟩, ⟨8, 1⟩] = [⟨0, 1⟩, ⟨7, 1⟩, ⟨9, 1⟩] := by
  decide

/-- the full coverage statement, negated for the code as it is (so `gaps_cover_partial`
    cannot be strengthened): H holds, bit 7 is in the buffer, in no field and in no gap -/
theorem gaps_full_cover_false :
    ¬ (∀ (total : Range) (rs : List Range) (b : Int), H total rs → 0 ≤ b → b < total.len →
        covered rs b = false → covered (gaps total rs) b = true) := by
  intro h
  have := h ⟨0, 10⟩ [⟨1, 1⟩, ⟨2, 5⟩, ⟨8, 1⟩] 7 (by decide) (by decide) (by decide) (by decide)
  revert this
  decide

/-! ### theorems for all lists of ranges and all buffer sizes -/

/-- (a) a gap never overlaps a field -/
theorem gaps_disjoint (total : Range) (rs : List Range) (h : H total rs) (b : Int) :
    covered (gaps total rs) b = true → covered rs b = false := by
  intro hg
  exact (covered_false_iff rs b).mpr
    (gapsWith_disjoint 1 (by decide) total rs h b ((covered_iff _ b).mp hg))

/-- (b) gaps are non-negative-length ranges inside the buffer -/
theorem gaps_within (total : Range) (rs : List Range) (h : H total rs) (hlen : 0 ≤ total.len) :
    ∀ g ∈ gaps total rs, 0 ≤ g.start ∧ 0 ≤ g.len ∧ g.stop ≤ total.len :=
  gapsWith_within 1 (by decide) total rs h hlen

/-- (c), weakened by exactly the known defect class: an uncovered bit of the buffer is in a
    gap or is a one-bit hole.  MISSING for the full statement: the `oneBitHole` disjunct cannot
    be dropped (`gaps_full_cover_false`). -/
theorem gaps_cover_partial (total : Range) (rs : List Range) (h : H total rs) (b : Int)
    (hb0 : 0 ≤ b) (hb1 : b < total.len) :
    covered rs b = false → covered (gaps total rs) b = true ∨ oneBitHole rs b = true := by
  intro hc
  have hc' := (covered_false_iff rs b).mp hc
  rcases gapsWith_cover 1 (Or.inr rfl) total rs h b hb0 hb1 hc' with hg | ⟨_, h2, h3⟩
  · exact Or.inl ((covered_iff _ b).mpr hg)
  · exact Or.inr ((oneBitHole_iff rs b).mpr ⟨hc', h2, h3⟩)

/-- (c) in full for the one-character repair `m.Stop() >= ranges[j].Start` -/
theorem gapsFixed_cover (total : Range) (rs : List Range) (h : H total rs) (b : Int)
    (hb0 : 0 ≤ b) (hb1 : b < total.len) :
    covered rs b = false → covered (gapsFixed total rs) b = true := by
  intro hc
  rcases gapsWith_cover 0 (Or.inl rfl) total rs h b hb0 hb1 ((covered_false_iff rs b).mp hc) with hg | ⟨h1, _⟩
  · exact (covered_iff _ b).mpr hg
  · exact absurd h1 (by decide)

theorem gapsFixed_disjoint (total : Range) (rs : List Range) (h : H total rs) (b : Int) :
    covered (gapsFixed total rs) b = true → covered rs b = false := by
  intro hg
  exact (covered_false_iff rs b).mpr
    (gapsWith_disjoint 0 (by decide) total rs h b ((covered_iff _ b).mp hg))

theorem gapsFixed_within (total : Range) (rs : List Range) (h : H total rs) (hlen : 0 ≤ total.len) :
    ∀ g ∈ gapsFixed total rs, 0 ≤ g.start ∧ 0 ≤ g.len ∧ g.stop ≤ total.len :=
  gapsWith_within 0 (by decide) total rs h hlen

/-- fields and gaps of the repaired algorithm partition the buffer: every bit of the buffer
    is in exactly one of the two -/
theorem gapsFixed_partition (total : Range) (rs : List Range) (h : H total rs) (b : Int)
    (hb0 : 0 ≤ b) (hb1 : b < total.len) :
    covered (gapsFixed total rs) b = !covered rs b := by
  cases hc : covered rs b with
  | false => exact gapsFixed_cover total rs h b hb0 hb1 hc
  | true =>
    cases hg : covered (gapsFixed total rs) b with
    | false => rfl
    | true => have := gapsFixed_disjoint total rs h b hg; rw [hc] at this; cases this

/-- (d) the order in which the ranges are given (hence the order in which an unstable sort
    leaves equal starts) does not matter -/
theorem gaps_perm (total : Range) (rs rs' : List Range) (hlen : ∀ r ∈ rs, 0 ≤ r.len)
    (hp : rs.Perm rs') : gaps total rs = gaps total rs' :=
  gapsWith_perm 1 (by decide) total rs rs' hlen hp

theorem gapsFixed_perm (total : Range) (rs rs' : List Range) (hlen : ∀ r ∈ rs, 0 ≤ r.len)
    (hp : rs.Perm rs') : gapsFixed total rs = gapsFixed total rs' :=
  gapsWith_perm 0 (by decide) total rs rs' hlen hp

/-! ### non-vacuity: the hypotheses are satisfiable by non-trivial values, and each conclusion
    is exercised on them -/

/-- H holds of a buffer with overlapping, adjacent, empty and one-bit-distant fields -/
example : H ⟨0, 12⟩ [⟨4, 4⟩, ⟨0, 0⟩, ⟨6, 3⟩, ⟨10, 1⟩, ⟨12, 0⟩] := by decide

/-- gaps_disjoint: premise `covered (gaps …) b = true` is satisfiable (bit 2 is in gap 0:4) -/
example : covered (gaps ⟨0, 12⟩ [⟨4, 4⟩, ⟨0, 0⟩, ⟨6, 3⟩, ⟨10, 1⟩, ⟨12, 0⟩]) 2 = true := by decide

/-- gaps_within: a non-empty list of gaps -/
example : gaps ⟨0, 12⟩ [⟨4, 4⟩, ⟨0, 0⟩, ⟨6, 3⟩] = [⟨0, 4⟩, ⟨9, 3⟩] := by decide

/-- gaps_cover_partial: both disjuncts occur — bit 11 is in a gap, bit 9 is a one-bit hole -/
example :
    let rs : List Range := [⟨4, 4⟩, ⟨0, 0⟩, ⟨6, 3⟩, ⟨10, 1⟩]
    covered rs 11 = false ∧ covered (gaps ⟨0, 12⟩ rs) 11 = true ∧
    covered rs 9 = false ∧ covered (gaps ⟨0, 12⟩ rs) 9 = false ∧ oneBitHole rs 9 = true := by decide

/-- gapsFixed_cover / gapsFixed_disjoint / gapsFixed_partition on the same value -/
example :
    gapsFixed ⟨0, 12⟩ [⟨4, 4⟩, ⟨0, 0⟩, ⟨6, 3⟩, ⟨10, 1⟩, ⟨12, 0⟩] = [⟨0, 4⟩, ⟨9, 1⟩, ⟨11, 1⟩] := by decide

/-- gaps_perm: a non-trivial permutation with equal starts -/
example : ([⟨4, 4⟩, ⟨4, 0⟩, ⟨0, 2⟩] : List Range).Perm [⟨4, 0⟩, ⟨0, 2⟩, ⟨4, 4⟩] ∧
    ∀ r ∈ ([⟨4, 4⟩, ⟨4, 0⟩, ⟨0, 2⟩] : List Range), 0 ≤ r.len := by
  decide

/-! ### large inputs and the element-count shortcut (round-5 seeded change) -/

/-- the driver computes the model's `gaps` on a merge-sorted permutation of the input (the model's own insertion sort
    is quadratic on unsorted lists of 10^5 ranges): same value, by `gaps_perm` -/
theorem gaps_presorted (total : Range) (rs : List Range) :
    FqModel.GapsTree.gapsPresorted total rs = gaps total rs := by
  unfold FqModel.GapsTree.gapsPresorted
  split
  · rename_i h
    have hlen : ∀ r ∈ rs, 0 ≤ r.len := by
      intro r hr
      have := (List.all_eq_true.mp h) r hr
      simpa using this
    exact (gaps_perm total rs _ hlen (List.mergeSort_perm rs FqModel.GapsTree.leStart).symm).symm
  · rfl

/-- gaps_presorted on an unsorted list with equal starts whose lengths are all non-negative (the sorted branch;
    `List.mergeSort` is defined by well-founded recursion and does not reduce in the kernel, hence the rewrite) -/
example : ([⟨6, 3⟩, ⟨4, 4⟩, ⟨4, 0⟩, ⟨0, 2⟩] : List Range).all (fun r => decide (0 ≤ r.len)) = true ∧
    FqModel.GapsTree.gapsPresorted ⟨0, 12⟩ [⟨6, 3⟩, ⟨4, 4⟩, ⟨4, 0⟩, ⟨0, 2⟩] = [⟨2, 2⟩, ⟨9, 3⟩] := by
  rw [gaps_presorted]; decide

/-- Regression witness of a seeded change ("an array of >= 256 scalars is ONE range first.start..last.stop — fewer
    ranges to sort"): the hull of the elements is not a cover.  Three scalar elements 2:3 7:2 12:4 of a 20-bit buffer:
    from the elements `ranges.Gaps` yields the two holes between them as gap fields, from their hull it does not, and
    the bits then in no leaf and in no gap field are EXACTLY the bits of the holes (none of them a one-bit hole, so the
    known finding does not excuse them).  The threshold itself is out of reach of `decide`-sized examples and of short
    random programs: run `big` of the correspondence decodes arrays/structs of 31..65537 leaves with holes. -/
theorem array_hull_is_not_cover_witness :
    let total : Range := ⟨0, 20⟩
    let leaves : List Range := [⟨2, 3⟩, ⟨7, 2⟩, ⟨12, 4⟩]
    FqModel.GapsTree.hullOf leaves = [⟨2, 14⟩] ∧
    gaps total leaves = [⟨0, 2⟩, ⟨5, 2⟩, ⟨9, 3⟩, ⟨16, 4⟩] ∧
    gaps total (FqModel.GapsTree.hullOf leaves) = [⟨0, 2⟩, ⟨16, 4⟩] ∧
    (List.range 20).filter (fun (b : Nat) =>
      !covered leaves (b : Int) && !covered (gaps total (FqModel.GapsTree.hullOf leaves)) (b : Int)) = [5, 6, 9, 10, 11] ∧
    (∀ b ∈ ([5, 6, 9, 10, 11] : List Int), oneBitHole leaves b = false ∧ covered (gaps total leaves) b = true) := by
  decide

/-! ## the system level: `D.FillGaps` on the decode tree of any decoder program -/

section tree
open FqModel FqModel.Tree FqModel.GapsTree Proofs.GapsTree

/-- start and length of `decodeRange` (decode.go:55-58: Options.Range, or the whole buffer when it is 0:0) -/
abbrev dS (cfg : Cfg) (input : Bits) : Int := (decodeRange cfg input).1
abbrev dL (cfg : Cfg) (input : Bits) : Int := (decodeRange cfg input).2

/- Vocabulary (FqModel/GapsTree.lean, executable — the driver evaluates the same definitions on fq's real trees):
   `gapFields t`   ranges of the direct children of `t` that carry FlagGap — what FillGaps attached to `t`;
   `fieldLeaves t` ranges of all other non-compound values of `t`'s buffer below `t`, nested buffer roots skipped with
                   everything below them (`WalkRootPreOrder`); gap fields of nested sub-decodes are leaves here;
   `shift s r`     `r` moved by `s` bits; `localLeaves s t` = `fieldLeaves t` moved by `-s` (relative to the decode range). -/

/-- (T4) the tree-level statement reduces to the flat one: the gap fields of the root are exactly (as a multiset — the
    root struct is sorted by postProcess) `ranges.Gaps(0:l, leaves)` moved to the decode range, and the leaves
    satisfy the hypothesis H of the flat theorems.  For a decode of the whole buffer: `gaps 0:len (fieldLeaves t)`. -/
theorem tree_gaps_are_ranges_gaps (cfg : Cfg) (input : Bits) (t : T) (hf : cfg.fillGaps = true)
    (ht : (run cfg input).out = .tree t) :
    H ⟨0, dL cfg input⟩ (localLeaves (dS cfg input) t) ∧
    (gapFields t).Perm ((gaps ⟨0, dL cfg input⟩ (localLeaves (dS cfg input) t)).map (shift (dS cfg input))) ∧
    (cfg.off = 0 → cfg.len = 0 → (gapFields t).Perm (gaps ⟨0, input.length⟩ (fieldLeaves t))) := by
  have h := run_filled cfg input t hf ht
  refine ⟨h.2.1, h.2.2, ?_⟩
  intro h1 h2
  have e : decodeRange cfg input = (0, (input.length : Int)) := by simp [decodeRange, h1, h2]
  have h' := h.2.2
  simp only [dS, dL, e] at h'
  have z : ∀ X : List Range, X.map (shift 0) = X := by
    intro X
    have : shift 0 = id := by funext r; cases r; simp [shift]
    rw [this, List.map_id]
  have z' : localLeaves 0 t = fieldLeaves t := by
    unfold localLeaves
    exact z _
  rw [z, z'] at h'
  exact h'

/-- (T1), weakened by exactly the known defect class: every bit of the decode range lies in a leaf of the root's
    buffer, or in a gap field of the root, or is a one-bit hole between a leaf that stops at it and a leaf that starts
    one bit later.  MISSING for the full statement: the hole disjunct (`tree_full_cover_false`). -/
theorem tree_cover_partial (cfg : Cfg) (input : Bits) (t : T) (hf : cfg.fillGaps = true)
    (ht : (run cfg input).out = .tree t) (b : Int) (hb0 : dS cfg input ≤ b) (hb1 : b < dS cfg input + dL cfg input) :
    covered (fieldLeaves t) b = true ∨ covered (gapFields t) b = true ∨ oneBitHole (fieldLeaves t) b = true := by
  cases hc : covered (fieldLeaves t) b with
  | true => exact Or.inl rfl
  | false => exact Or.inr (filled_cover (run_filled cfg input t hf ht) b hb0 hb1 hc)

/-- the program `SeekAbs(1); u1; u5; SeekAbs(8); u1` (leaves 1:1 2:5 8:1, the case TestRangeGaps pins) -/
def holeProg : Cfg := ⟨false, true, 0, 0, false,
  [.seek true 1 false [], .u (.f 1) 1, .u (.f 2) 5, .seek true 8 false [], .u (.f 3) 1]⟩

/-- the full tree-level coverage statement is FALSE of the code as it is: the decode of a 10-bit buffer by `holeProg`
    succeeds, gets the gap fields 0:1 and 9:1, and bit 7 is in no leaf and in no gap field -/
theorem tree_full_cover_false :
    ¬ (∀ (cfg : Cfg) (input : Bits) (t : T) (b : Int), cfg.fillGaps = true → (run cfg input).out = .tree t →
        dS cfg input ≤ b → b < dS cfg input + dL cfg input →
        covered (fieldLeaves t) b = true ∨ covered (gapFields t) b = true) := by
  intro h
  have hw : (match (run holeProg (List.replicate 10 true)).out with
      | .tree t => t.i.err == .none && fieldLeaves t == [⟨1, 1⟩, ⟨2, 5⟩, ⟨8, 1⟩] && gapFields t == [⟨0, 1⟩, ⟨9, 1⟩]
      | _ => false) = true := by decide +kernel
  split at hw
  · rename_i t ht
    simp only [Bool.and_eq_true, beq_iff_eq] at hw
    have := h holeProg (List.replicate 10 true) t 7 rfl ht (by decide) (by decide)
    rw [hw.1.2, hw.2] at this
    revert this
    decide
  · cases hw

/-- (T1) in full for the one-character repair of `ranges.Gaps` (`m.Stop() >= r.Start`), applied by the root's FillGaps
    to the leaves as they are: no bit of the decode range is lost.  (Nested sub-decodes would get more gap fields
    under the repair, hence the root more leaves; this is the statement for ONE FillGaps call, which by
    `nested_decode_filled` is every call.) -/
theorem tree_cover_gapsFixed (cfg : Cfg) (input : Bits) (t : T) (hf : cfg.fillGaps = true)
    (ht : (run cfg input).out = .tree t) (b : Int) (hb0 : dS cfg input ≤ b) (hb1 : b < dS cfg input + dL cfg input) :
    covered (fieldLeaves t) b = true ∨
    covered ((gapsFixed ⟨0, dL cfg input⟩ (localLeaves (dS cfg input) t)).map (shift (dS cfg input))) b = true := by
  cases hc : covered (fieldLeaves t) b with
  | true => exact Or.inl rfl
  | false => exact Or.inr (filled_cover_fixed (run_filled cfg input t hf ht) b hb0 hb1 hc)

/-- (T2a) no bit of a gap field lies in a leaf of the buffer -/
theorem tree_gaps_disjoint_leaves (cfg : Cfg) (input : Bits) (t : T) (hf : cfg.fillGaps = true)
    (ht : (run cfg input).out = .tree t) (b : Int) :
    covered (gapFields t) b = true → covered (fieldLeaves t) b = false :=
  filled_disjoint (run_filled cfg input t hf ht) b

/-- (T2b) two gap fields of the root neither overlap nor touch: at least one bit lies between them -/
theorem tree_gaps_apart (cfg : Cfg) (input : Bits) (t : T) (hf : cfg.fillGaps = true)
    (ht : (run cfg input).out = .tree t) :
    (gapFields t).Pairwise (fun g h => g.stop < h.start ∨ h.stop < g.start) :=
  filled_gaps_apart (run_filled cfg input t hf ht)

/-- (T3) every gap field is a non-negative-length range inside the decode range, which lies inside the buffer -/
theorem tree_gaps_within (cfg : Cfg) (input : Bits) (t : T) (hf : cfg.fillGaps = true)
    (ht : (run cfg input).out = .tree t) :
    (0 ≤ dS cfg input ∧ 0 ≤ dL cfg input ∧ dS cfg input + dL cfg input ≤ input.length) ∧
    ∀ g ∈ gapFields t, dS cfg input ≤ g.start ∧ 0 ≤ g.len ∧ g.stop ≤ dS cfg input + dL cfg input := by
  obtain ⟨h0, h1, h2, _⟩ := run_tree_unfold cfg input t ht
  exact ⟨⟨h0, h1, h2⟩, filled_within (run_filled cfg input t hf ht)⟩

/-- (T5) the undecoded tail — in particular of a FAILED decode, whose partial tree this covers: if every leaf stops at
    or before `e` and `e` is inside the decode range, then every bit from `e` to the end of the range is in a gap field
    (no one-bit-hole exception), and it is ONE gap field: it starts at or before `e` and ends with the range. -/
theorem tree_tail_is_one_gap (cfg : Cfg) (input : Bits) (t : T) (hf : cfg.fillGaps = true)
    (ht : (run cfg input).out = .tree t) (e : Int) (he : ∀ r ∈ fieldLeaves t, r.stop ≤ e)
    (he0 : dS cfg input ≤ e) (he1 : e < dS cfg input + dL cfg input) :
    (∀ b, e ≤ b → b < dS cfg input + dL cfg input → covered (gapFields t) b = true) ∧
    ∃ g ∈ gapFields t, g.start ≤ e ∧ g.stop = dS cfg input + dL cfg input := by
  have h := run_filled cfg input t hf ht
  exact ⟨fun b hb hb1 => filled_tail h e he b hb (Int.le_trans he0 hb) hb1, filled_tail_one_gap h e he he0 he1⟩

/-- (T6) EVERY `decode()` call with FillGaps: the value `t` returned for a sub-format `ps` decoded over the range
    `s:l` of a buffer (`B` = that section; FieldFormatLen / FieldFormatRange: isRoot = false, FieldFormatBitBuf:
    isRoot = true, s = 0; the top level is `run`) has exactly `ranges.Gaps` of its leaves as gap fields, every bit of
    the range is in a leaf, a gap field or is a one-bit hole, gap fields overlap no leaf and lie inside the range.
    (The enclosing decode later moves all ranges of `t` by its own start and the root's postProcess re-orders and
    re-indexes `t`'s children; neither changes leaves or gap fields relative to each other.) -/
theorem nested_decode_filled (name : FName) (arr : Bool) (s l : Int) (isRoot : Bool) (bufLen : Int) (ps : List Prog)
    (B : Bits) (force : Bool) (t : T) (hB : (B.length : Int) = l)
    (h : finishDecode name arr s l isRoot true bufLen (execList ps { buf := B, arr := arr, force := force } {}) = .value t) :
    H ⟨0, l⟩ (localLeaves s t) ∧
    (gapFields t).Perm ((gaps ⟨0, l⟩ (localLeaves s t)).map (shift s)) ∧
    (∀ b, s ≤ b → b < s + l →
      covered (fieldLeaves t) b = true ∨ covered (gapFields t) b = true ∨ oneBitHole (fieldLeaves t) b = true) ∧
    (∀ b, covered (gapFields t) b = true → covered (fieldLeaves t) b = false) ∧
    (∀ g ∈ gapFields t, s ≤ g.start ∧ 0 ≤ g.len ∧ g.stop ≤ s + l) := by
  have hF := exec_decode_filled name arr s l isRoot bufLen ps B force t hB h
  refine ⟨hF.2.1, hF.2.2, ?_, filled_disjoint hF, filled_within hF⟩
  intro b hb0 hb1
  cases hc : covered (fieldLeaves t) b with
  | true => exact Or.inl rfl
  | false => exact Or.inr (filled_cover hF b hb0 hb1 hc)

/-- (T7) `bitiox.Range` on a gap never fails (the gaps lie inside the section): the only panic that can escape the
    top-level `decode()` is FillGaps' duplicate-name Fatalf (a struct root that already has a field named `gap<i>`) -/
theorem fillgaps_panic_only_duplicate_name (cfg : Cfg) (input : Bits) (e : ErrK) (h : (run cfg input).out = .panic e) :
    e = .de ∧ cfg.fillGaps = true := run_panic cfg input e h

/-- (T8) gap fields come from FillGaps only: no API call of a decoder program makes a direct child with FlagGap
    (`Proofs.GapsTree.exec_ng`), so a decode without FillGaps has no gap field at its root -/
theorem no_fillgaps_no_gap_fields (cfg : Cfg) (input : Bits) (t : T) (hf : cfg.fillGaps = false)
    (ht : (run cfg input).out = .tree t) : gapFields t = [] := run_nofill cfg input t hf ht

/-! ### non-vacuity -/

/-- a FAILING program (reads 40 bits of a 24-bit buffer inside an array inside a struct) on a sub-range of the input,
    with a nested length-delimited sub-decode that gets its own gap field -/
def failProg : Cfg := ⟨false, true, 4, 24, false,
  [.u (.f 1) 3, .fmt (.len 8 false) (.f 4) false [.u (.f 1) 2, .seek false 3 false [], .u (.f 2) 1],
   .comp false (.f 2) [.u (.f 1) 5, .comp true (.f 3) [.raw (.f 9) 2, .u (.f 1) 40]]]⟩

/-- the hypotheses of the tree theorems hold of it: a partial tree with Err set; among the root's leaves are the two gap
    fields 9:3 and 13:2 that the nested FieldFormatLen decode (range 7:8) got from its own FillGaps; the undecoded
    tail 22:6 is the root's gap field -/
example :
    (match (run failProg (List.replicate 40 true)).out with
      | .tree t => t.i.err == .io &&
          fieldLeaves t == [⟨4, 3⟩, ⟨7, 2⟩, ⟨9, 3⟩, ⟨12, 1⟩, ⟨13, 2⟩, ⟨15, 5⟩, ⟨20, 2⟩] &&
          gapFields t == [⟨22, 6⟩]
      | _ => false) = true := by decide +kernel

/-- … so `tree_tail_is_one_gap` applies with e = 22 (decode range 4:24, i.e. bits 4..28) -/
example : decodeRange failProg (List.replicate 40 true) = (4, 24) := by decide

/-- `tree_cover_partial`: all three disjuncts occur (holeProg: bit 3 in a leaf, bit 0 in a gap field, bit 7 a hole) -/
example :
    (match (run holeProg (List.replicate 10 true)).out with
      | .tree t => covered (fieldLeaves t) 3 && covered (gapFields t) 0 && oneBitHole (fieldLeaves t) 7
      | _ => false) = true := by decide +kernel

/-- `nested_decode_filled`: a FieldFormatLen sub-decode (not a root) whose value has a gap field -/
example :
    (match finishDecode (.f 4) false 3 8 false true 0
        (execList [.u (.f 1) 2, .seek false 3 false [], .u (.f 2) 1] { buf := List.replicate 8 true, arr := false, force := false } {}) with
      | .value t => fieldLeaves t == [⟨3, 2⟩, ⟨8, 1⟩] && gapFields t == [⟨5, 3⟩, ⟨9, 2⟩]
      | _ => false) = true := by decide +kernel

/-- `no_fillgaps_no_gap_fields`: such trees exist (the same failing program without FillGaps) -/
example : (match (run { failProg with fillGaps := false } (List.replicate 40 true)).out with
    | .tree t => t.i.err == .io && gapFields t == [] && (fieldLeaves t).length == 7 | _ => false) = true := by decide +kernel

/-- `fillgaps_panic_only_duplicate_name`: the panic exists — a struct root with a field named gap0 and a gap to fill -/
example : (match (run ⟨false, true, 0, 0, false, [.u (.gap 0) 3]⟩ (List.replicate 8 true)).out with
    | .panic e => e == .de | _ => false) = true := by decide +kernel

end tree

end Props.C04
