import FqModel.Gaps
import Proofs.Gaps
/-!
  C04 — property theorems about the model of `ranges.Gaps` (FqModel/Gaps.lean).
  Helper lemmas live in Proofs/Gaps.lean.

  Full statement of the property at the level of `ranges.Gaps` (what `D.FillGaps` relies on):
    for every buffer `total = 0:n` and every finite list `rs` of (possibly empty) ranges inside it,
      (a) no bit of a gap lies in a range                                  — `gaps_disjoint`   (proved)
      (b) every gap lies inside the buffer                                  — `gaps_within`     (proved)
      (c) every bit of the buffer outside all ranges lies in a gap          — FALSE of the code as it is
          (`gaps_hole_witness`); proved is `gaps_cover_partial`: … lies in a gap OR is a one-bit hole
          between a range that stops at the bit and a range that starts one bit later (the exact class
          of the known finding `one-bit-hole`); and the full (c) for the one-character repair
          `m.Stop() >= ranges[j].Start` — `gapsFixed_cover`.
      (d) the result does not depend on the order of the input (unstable sort) — `gaps_perm`.
-/
namespace Props.C04
open FqModel.Gaps Proofs.Gaps

/-- H: what `D.FillGaps` passes to `ranges.Gaps` (decode.go:349, :149): the buffer starts at
    bit 0 and the leaf ranges are non-negative-length ranges inside it. -/
abbrev H (total : Range) (rs : List Range) : Prop :=
  total.start = 0 ∧ ∀ r ∈ rs, 0 ≤ r.start ∧ 0 ≤ r.len ∧ r.stop ≤ total.len

/-! ### the known finding, pinned by evaluation -/

/-- Known finding (DESIGN §1.8 #2): the full coverage statement is FALSE of the current
    algorithm — bit 7 of a 10-bit buffer with fields 1:1 2:5 8:1 is neither in a field nor
    in a gap.  This is the case pinned by the repository's own TestRangeGaps. -/
theorem gaps_hole_witness :
    let rs := [⟨1, 1⟩, ⟨2, 5⟩, ⟨8, 1⟩]
    gaps ⟨0, 10⟩ rs = [⟨0, 1⟩, ⟨9, 1⟩] ∧ covered rs 7 = false ∧ covered (gaps ⟨0, 10⟩ rs) 7 = false
      ∧ oneBitHole rs 7 = true := by
  decide

/-- the hole also opens next to an EMPTY range: fields 0:3 and 4:0 lose bit 3 -/
theorem gaps_hole_witness_empty :
    covered (gaps ⟨0, 10⟩ [⟨0, 3⟩, ⟨4, 0⟩]) 3 = false ∧ oneBitHole [⟨0, 3⟩, ⟨4, 0⟩] 3 = true := by
  decide

/-- the one-character repair closes the witness -/
theorem gapsFixed_witness :
    gapsFixed ⟨0, 10⟩ [⟨1, 1⟩, ⟨2, 5⟩, ⟨8, 1⟩] = [⟨0, 1⟩, ⟨7, 1⟩, ⟨9, 1⟩] := by
  decide

/-- the full coverage statement, negated for the code as it is (so `gaps_cover_partial`
    cannot be strengthened): H holds, bit 7 is in the buffer, in no field and in no gap -/
theorem gaps_full_cover_false :
    ¬ (∀ (total : Range) (rs : List Range) (b : Int), H total rs → 0 ≤ b → b < total.len →
        covered rs b = false → covered (gaps total rs) b = true) := by
  intro h
  have := h ⟨0, 10⟩ [⟨1, 1⟩, ⟨2, 5⟩, ⟨8, 1⟩] 7 (by decide) (by decide) (by decide) (by decide)
  revert this
  decide

/-! ### theorems for all lists of ranges and all buffer sizes -/

/-- (a) a gap never overlaps a field -/
theorem gaps_disjoint (total : Range) (rs : List Range) (h : H total rs) (b : Int) :
    covered (gaps total rs) b = true → covered rs b = false := by
  intro hg
  exact (covered_false_iff rs b).mpr
    (gapsWith_disjoint 1 (by decide) total rs h b ((covered_iff _ b).mp hg))

/-- (b) gaps are non-negative-length ranges inside the buffer -/
theorem gaps_within (total : Range) (rs : List Range) (h : H total rs) (hlen : 0 ≤ total.len) :
    ∀ g ∈ gaps total rs, 0 ≤ g.start ∧ 0 ≤ g.len ∧ g.stop ≤ total.len :=
  gapsWith_within 1 (by decide) total rs h hlen

/-- (c), weakened by exactly the known defect class: an uncovered bit of the buffer is in a
    gap or is a one-bit hole.  MISSING for the full statement: the `oneBitHole` disjunct cannot
    be dropped (`gaps_full_cover_false`). -/
theorem gaps_cover_partial (total : Range) (rs : List Range) (h : H total rs) (b : Int)
    (hb0 : 0 ≤ b) (hb1 : b < total.len) :
    covered rs b = false → covered (gaps total rs) b = true ∨ oneBitHole rs b = true := by
  intro hc
  have hc' := (covered_false_iff rs b).mp hc
  rcases gapsWith_cover 1 (Or.inr rfl) total rs h b hb0 hb1 hc' with hg | ⟨_, h2, h3⟩
  · exact Or.inl ((covered_iff _ b).mpr hg)
  · exact Or.inr ((oneBitHole_iff rs b).mpr ⟨hc', h2, h3⟩)

/-- (c) in full for the one-character repair `m.Stop() >= ranges[j].Start` -/
theorem gapsFixed_cover (total : Range) (rs : List Range) (h : H total rs) (b : Int)
    (hb0 : 0 ≤ b) (hb1 : b < total.len) :
    covered rs b = false → covered (gapsFixed total rs) b = true := by
  intro hc
  rcases gapsWith_cover 0 (Or.inl rfl) total rs h b hb0 hb1 ((covered_false_iff rs b).mp hc) with hg | ⟨h1, _⟩
  · exact (covered_iff _ b).mpr hg
  · exact absurd h1 (by decide)

theorem gapsFixed_disjoint (total : Range) (rs : List Range) (h : H total rs) (b : Int) :
    covered (gapsFixed total rs) b = true → covered rs b = false := by
  intro hg
  exact (covered_false_iff rs b).mpr
    (gapsWith_disjoint 0 (by decide) total rs h b ((covered_iff _ b).mp hg))

theorem gapsFixed_within (total : Range) (rs : List Range) (h : H total rs) (hlen : 0 ≤ total.len) :
    ∀ g ∈ gapsFixed total rs, 0 ≤ g.start ∧ 0 ≤ g.len ∧ g.stop ≤ total.len :=
  gapsWith_within 0 (by decide) total rs h hlen

/-- fields and gaps of the repaired algorithm partition the buffer: every bit of the buffer
    is in exactly one of the two -/
theorem gapsFixed_partition (total : Range) (rs : List Range) (h : H total rs) (b : Int)
    (hb0 : 0 ≤ b) (hb1 : b < total.len) :
    covered (gapsFixed total rs) b = !covered rs b := by
  cases hc : covered rs b with
  | false => exact gapsFixed_cover total rs h b hb0 hb1 hc
  | true =>
    cases hg : covered (gapsFixed total rs) b with
    | false => rfl
    | true => have := gapsFixed_disjoint total rs h b hg; rw [hc] at this; cases this

/-- (d) the order in which the ranges are given (hence the order in which an unstable sort
    leaves equal starts) does not matter -/
theorem gaps_perm (total : Range) (rs rs' : List Range) (hlen : ∀ r ∈ rs, 0 ≤ r.len)
    (hp : rs.Perm rs') : gaps total rs = gaps total rs' :=
  gapsWith_perm 1 (by decide) total rs rs' hlen hp

theorem gapsFixed_perm (total : Range) (rs rs' : List Range) (hlen : ∀ r ∈ rs, 0 ≤ r.len)
    (hp : rs.Perm rs') : gapsFixed total rs = gapsFixed total rs' :=
  gapsWith_perm 0 (by decide) total rs rs' hlen hp

/-! ### non-vacuity: the hypotheses are satisfiable by non-trivial values, and each conclusion
    is exercised on them -/

/-- H holds of a buffer with overlapping, adjacent, empty and one-bit-distant fields -/
example : H ⟨0, 12⟩ [⟨4, 4⟩, ⟨0, 0⟩, ⟨6, 3⟩, ⟨10, 1⟩, ⟨12, 0⟩] := by decide

/-- gaps_disjoint: premise `covered (gaps …) b = true` is satisfiable (bit 2 is in gap 0:4) -/
example : covered (gaps ⟨0, 12⟩ [⟨4, 4⟩, ⟨0, 0⟩, ⟨6, 3⟩, ⟨10, 1⟩, ⟨12, 0⟩]) 2 = true := by decide

/-- gaps_within: a non-empty list of gaps -/
example : gaps ⟨0, 12⟩ [⟨4, 4⟩, ⟨0, 0⟩, ⟨6, 3⟩] = [⟨0, 4⟩, ⟨9, 3⟩] := by decide

/-- gaps_cover_partial: both disjuncts occur — bit 11 is in a gap, bit 9 is a one-bit hole -/
example :
    let rs : List Range := [⟨4, 4⟩, ⟨0, 0⟩, ⟨6, 3⟩, ⟨10, 1⟩]
    covered rs 11 = false ∧ covered (gaps ⟨0, 12⟩ rs) 11 = true ∧
    covered rs 9 = false ∧ covered (gaps ⟨0, 12⟩ rs) 9 = false ∧ oneBitHole rs 9 = true := by decide

/-- gapsFixed_cover / gapsFixed_disjoint / gapsFixed_partition on the same value -/
example :
    gapsFixed ⟨0, 12⟩ [⟨4, 4⟩, ⟨0, 0⟩, ⟨6, 3⟩, ⟨10, 1⟩, ⟨12, 0⟩] = [⟨0, 4⟩, ⟨9, 1⟩, ⟨11, 1⟩] := by decide

/-- gaps_perm: a non-trivial permutation with equal starts -/
example : ([⟨4, 4⟩, ⟨4, 0⟩, ⟨0, 2⟩] : List Range).Perm [⟨4, 0⟩, ⟨0, 2⟩, ⟨4, 4⟩] ∧
    ∀ r ∈ ([⟨4, 4⟩, ⟨4, 0⟩, ⟨0, 2⟩] : List Range), 0 ≤ r.len := by
  decide

end Props.C04
