import FqModel.ToBits
import Proofs.C05Bits
import Proofs.C05Codec
import Proofs.C05Model
/-!
  C05 — "tobytes/tobits of a value are exactly the input bits of its range".

  Property theorems about the model FqModel/ToBits.lean (a transliteration of InnerRange,
  ToBinary, _toBits, toReader, Display raw, bitsFormatFnFromOptions; MD5 from RFC 1321 in
  FqModel/C05Md5.lean).  Helper lemmas: Proofs/C05Bits.lean, C05Codec.lean, C05Model.lean.
  Every statement is for ALL buffers / ranges / byte strings — no size bound.

  Notation: `valueBits root s l = slice root s l` is the specification ("the bits of the buffer
  in the value's range"); `specStart v` = the start ToBinary uses = `v.start`, or 0 for a root
  value (whose Range.Start is a position in the parent buffer).
-/
namespace Props.C05
open FqModel FqModel.ToBits Proofs.C05

/-! ## tobits -/

/-- `tobits` is defined exactly for non-synthetic values whose range lies inside the buffer
    (`bitiox.Range` "outside buffer" otherwise) … -/
theorem tobits_defined (v : DV) :
    (∃ bits, toBits v = .ok bits) ↔ (v.synthetic = false ∧ specStart v + v.len ≤ v.root.length) := by
  have h := toBitsPad_char 1 0 v (by omega)
  unfold toBitsPad at h
  unfold toBits
  rw [h]
  cases hs : v.synthetic
  · by_cases hr : specStart v + v.len > v.root.length
    · simp [hr]
    · simp [hr]; omega
  · simp

/-- … and then it is EXACTLY the slice of the buffer at the value's range: no padding, nothing
    added, nothing lost (`pad = (1 - len % 1) % 1 = 0`). -/
theorem tobits_is_slice (v : DV) (bits : Bits) (h : toBits v = .ok bits) :
    bits = valueBits v.root (specStart v) v.len := by
  have hc := toBitsPad_char 1 0 v (by omega)
  unfold toBitsPad at hc
  unfold toBits at h
  rw [hc] at h
  cases hs : v.synthetic
  · by_cases hr : specStart v + v.len > v.root.length
    · simp [hs, hr] at h
    · simp [hs, hr, padOf_1_0] at h
      exact h.symm
  · simp [hs] at h

/-- a non-root value: literally `slice root start len` -/
theorem tobits_is_slice_nonroot (v : DV) (bits : Bits) (hr : v.isRoot = false) (h : toBits v = .ok bits) :
    bits = slice v.root v.start v.len := by
  have := tobits_is_slice v bits h
  simpa [specStart, hr, valueBits] using this

example : toBits { root := [true, false, true, true, false, false, true, false, true, true], start := 3, len := 5,
                   isRoot := false, synthetic := false } = .ok [true, false, false, true, false] := by decide

/-! ## tobytes -/

/-- `tobytes` is the same slice with `pad = (8 - len % 8) % 8 < 8` ZERO bits IN FRONT, and the
    result is byte aligned.  Dropping the pad from the bits of the produced bytes gives `tobits`. -/
theorem tobytes_unpad (v : DV) (bytes : List UInt8) (h : toBytesBytes v = .ok bytes) :
    let pad := (8 - v.len % 8) % 8
    pad < 8
    ∧ (bytesToBits bytes).take pad = List.replicate pad false
    ∧ toBits v = .ok ((bytesToBits bytes).drop pad)
    ∧ (bytesToBits bytes).drop pad = valueBits v.root (specStart v) v.len
    ∧ 8 * bytes.length = pad + v.len := by
  intro pad
  have hc8 := toBitsPad_char 8 0 v (by omega)
  have hc1 := toBitsPad_char 1 0 v (by omega)
  unfold toBitsPad at hc8 hc1
  unfold toBytesBytes toBytes at h
  unfold toBits
  rw [hc8] at h
  rw [hc1]
  cases hs : v.synthetic
  · by_cases hr : specStart v + v.len > v.root.length
    · simp [hs, hr, Res.map, Res.bind] at h
    · simp only [hs, hr, Bool.false_eq_true, if_false, Res.map, Res.bind, Res.ok.injEq, padOf_8_0] at h
      have hlen : (valueBits v.root (specStart v) v.len).length = v.len :=
        valueBits_length _ _ _ (by omega)
      have hal : (List.replicate pad false ++ valueBits v.root (specStart v) v.len).length % 8 = 0 := by
        simp only [List.length_append, List.length_replicate, hlen]
        show ((8 - v.len % 8) % 8 + v.len) % 8 = 0
        omega
      have hb : bytesToBits bytes = List.replicate pad false ++ valueBits v.root (specStart v) v.len := by
        rw [← h]; exact bytesToBits_packR_aligned _ hal
      refine ⟨by show (8 - v.len % 8) % 8 < 8; omega, ?_, ?_, ?_, ?_⟩
      · rw [hb]; simp
      · rw [hb]; simp [padOf_1_0]; omega
      · rw [hb]; simp
      · have := congrArg List.length hb
        rw [bytesToBits_length] at this
        simpa [hlen] using this
  · simp [hs, Res.map, Res.bind] at h

example : toBytesBytes { root := [true, false, true, true, false, false, true, false, true, true], start := 3, len := 5,
                         isRoot := false, synthetic := false } = .ok [0x12] := by decide

/-- `tobits($p)` / `tobytes($p)` (pad_to_units): the slice behind fewer than `unit*p` zero bits,
    total length a multiple of `unit*p` (of `unit` when `p = 0`) -/
theorem tobits_pad_unpad (unit p : Nat) (hu : 0 < unit) (v : DV) (bits : Bits)
    (h : toBitsPad unit p v = .ok bits) :
    let m := if unit * p = 0 then unit else unit * p
    ∃ pad, pad < m ∧ bits = List.replicate pad false ++ valueBits v.root (specStart v) v.len
      ∧ bits.length % m = 0 := by
  intro m
  rw [toBitsPad_char unit p v hu] at h
  cases hs : v.synthetic
  · by_cases hr : specStart v + v.len > v.root.length
    · simp [hs, hr] at h
    · simp only [hs, hr, Bool.false_eq_true, if_false, Res.ok.injEq] at h
      refine ⟨padOf unit p v.len, padOf_lt unit p v.len hu, h.symm, ?_⟩
      rw [← h]
      simp only [List.length_append, List.length_replicate,
        valueBits_length _ _ _ (show specStart v + v.len ≤ v.root.length by omega)]
      exact padOf_aligned unit p v.len hu
  · simp [hs] at h

example : toBitsPad 8 2 { root := [true, false, true, true, false, false, true, false, true, true], start := 3, len := 5,
                          isRoot := false, synthetic := false }
    = .ok (List.replicate 11 false ++ [true, false, false, true, false]) := by decide

/-! ## the root value gives the input back -/

/-- the root value of a decode (Range.Len = the whole input): `tobytes` is the input, unchanged,
    whatever Range.Start says -/
theorem root_tobytes_is_input (input : List UInt8) (start : Nat) :
    toBytesBytes { root := bytesToBits input, start := start, len := 8 * input.length,
                   isRoot := true, synthetic := false } = .ok input := by
  have hc8 := toBitsPad_char 8 0
    { root := bytesToBits input, start := start, len := 8 * input.length, isRoot := true, synthetic := false }
    (by omega)
  unfold toBitsPad at hc8
  unfold toBytesBytes toBytes
  rw [hc8]
  have hp : padOf 8 0 (8 * input.length) = 0 := by rw [padOf_8_0]; omega
  simp [specStart, bytesToBits_length, Res.map, Res.bind, hp, valueBits]
  rw [← bytesToBits_length, slice_all, packR_bytesToBits]

/-- … also on the raw standard output path (`fq tobytes file > out`) -/
theorem root_stdout_is_input (input : List UInt8) (start : Nat) :
    rawStdoutToBytes { root := bytesToBits input, start := start, len := 8 * input.length,
                       isRoot := true, synthetic := false } = .ok input := by
  rw [rawStdout_char]
  have hp : padOf 8 0 (8 * input.length) = 0 := by rw [padOf_8_0]; omega
  simp [specStart, bytesToBits_length, hp, valueBits]
  rw [← bytesToBits_length, slice_all, packR_bytesToBits]

/-- the raw stdout of ANY value: the bytes of `tobytes` -/
theorem stdout_is_tobytes (v : DV) : rawStdoutToBytes v = toBytesBytes v := by
  rw [rawStdout_char]
  have hc8 := toBitsPad_char 8 0 v (by omega)
  unfold toBitsPad at hc8
  unfold toBytesBytes toBytes
  rw [hc8]
  cases hs : v.synthetic
  · by_cases hr : specStart v + v.len > v.root.length
    · simp [hr, Res.map, Res.bind]
    · simp [hr, Res.map, Res.bind]
  · simp [Res.map, Res.bind]

/-- `tobytesrange` keeps the range and lets Display prepend the pad: same bytes on stdout -/
theorem stdout_range_is_tobytes (v : DV) : rawStdoutRange v = toBytesBytes v := by
  rw [← stdout_is_tobytes, rawStdoutRange_char, rawStdout_char]

/-! ## every rendering is a function of exactly those bits -/

/-- `tovalue({bits_format: F})` of a raw-bits value renders the `tobits` bits (no pad) -/
theorem render_of_tobits (fmt : String) (sb : Nat) (v : DV) :
    toValueRaw fmt sb v = (toBits v).bind (render fmt sb) := by
  rw [toValueRaw_char]
  have hc1 := toBitsPad_char 1 0 v (by omega)
  unfold toBitsPad at hc1
  unfold toBits
  rw [hc1]
  cases hs : v.synthetic
  · by_cases hr : specStart v + v.len > v.root.length
    · simp [hr, Res.bind]
    · simp [hr, Res.bind, padOf_1_0]
  · simp [Res.bind]

/-- rendering a whole tree with ONE options value renders every raw leaf independently: the
    k-th rendered leaf is exactly what rendering that leaf alone gives (no state is carried from
    one rendered value to the next, whatever the format) … -/
theorem render_tree_pointwise (fmt : String) (sb : Nat) (t : VTree) :
    (renderTree fmt sb t).leaves = t.leaves.map (toValueRaw fmt sb) := by
  induction t with
  | raw v => rfl
  | other => rfl
  | nil => rfl
  | cons h t ihh iht => simp [renderTree, RTree.leaves, VTree.leaves, ihh, iht]

/-- … so, by `render_of_tobits`, every leaf of the rendered tree encodes that leaf's own bits -/
theorem render_tree_leaf_bits (fmt : String) (sb : Nat) (t : VTree) :
    (renderTree fmt sb t).leaves = t.leaves.map (fun v => (toBits v).bind (render fmt sb)) := by
  rw [render_tree_pointwise]
  congr 1
  funext v
  exact render_of_tobits fmt sb v

/-- rendering the same value twice in one conversion gives the same rendering twice -/
theorem render_twice (fmt : String) (sb : Nat) (v : DV) :
    (renderTree fmt sb (.cons (.raw v) (.cons (.raw v) .nil))).leaves
      = [toValueRaw fmt sb v, toValueRaw fmt sb v] := rfl

theorem ofLeaves_leaves (vs : List DV) : (VTree.ofLeaves vs).leaves = vs := by
  induction vs with
  | nil => rfl
  | cons v vs ih => simp [VTree.ofLeaves, VTree.leaves, ih]

example : (renderTree "md5" 10 (.cons (.raw ⟨bytesToBits [0x61], 0, 8, false, false⟩)
      (.cons .other (.cons (.raw ⟨bytesToBits [0x61, 0x62, 0x63], 0, 24, false, false⟩) .nil)))).leaves
    = [.ok (.text "0cc175b9c0f1b6a831c399e269772661".toList), .ok (.text "900150983cd24fb0d6963f7d28e17f72".toList)] := by
  decide +kernel

/-- the bytes every renderer starts from (`CopyBits`) are the bits, zero padded on the RIGHT by
    fewer than 8 bits -/
theorem string_is_bits (bits : Bits) :
    bytesToBits (renderString bits) = bits ++ List.replicate ((8 - bits.length % 8) % 8) false :=
  bytesToBits_packR bits

/-- the model's byte packing is the shared foundation's `bitsToBytesPadR` -/
theorem string_is_padR (bits : Bits) : renderString bits = bitsToBytesPadR bits :=
  packR_eq_bitsToBytesPadR bits

/-- … so the string rendering determines the bits (given their number) -/
theorem string_determines_bits (a b : Bits) (hl : a.length = b.length) (h : renderString a = renderString b) :
    a = b := by
  have ha := string_is_bits a
  have hb := string_is_bits b
  rw [h, hb, hl] at ha
  exact (List.append_cancel_right ha).symm

example : renderString [true, false, true] = renderString [true, false, true] ∧ renderString [true, false, true] = [0xa0] := by decide
-- the length hypothesis is needed: 3 bits and 4 bits can render to the same byte
example : renderString [true, false, true] = renderString [true, false, true, false] := by decide

/-- hex: decoding the rendering gives the bytes back … -/
theorem hex_roundtrip (bits : Bits) : bytesOfHexChars (renderHex bits) = some (renderString bits) :=
  bytesOfHexChars_hexChars _

/-- … hence two byte strings with the same hex rendering are equal -/
theorem hex_injective (a b : List UInt8) (h : hexChars a = hexChars b) : a = b := by
  have ha := bytesOfHexChars_hexChars a
  rw [h, bytesOfHexChars_hexChars b] at ha
  exact (Option.some.inj ha).symm

/-- base64 (StdEncoding, padded): a strict decoder gives the bytes back … -/
theorem base64_roundtrip (bits : Bits) : b64decode (renderBase64 bits) = some (renderString bits) :=
  b64decode_b64encode _

theorem base64_injective (a b : List UInt8) (h : b64encode a = b64encode b) : a = b := by
  have ha := b64decode_b64encode a
  rw [h, b64decode_b64encode b] at ha
  exact (Option.some.inj ha).symm

/-- byte_array: the numbers are the bytes -/
theorem byte_array_roundtrip (bits : Bits) :
    (renderByteArray bits).map UInt8.ofNat = renderString bits ∧ ∀ n ∈ renderByteArray bits, n < 256 := by
  unfold renderByteArray
  constructor
  · rw [List.map_map]
    have : (UInt8.ofNat ∘ fun (x : UInt8) => x.toNat) = id := by funext x; simp
    rw [this, List.map_id]; rfl
  · intro n hn
    rw [List.mem_map] at hn
    obtain ⟨b, _, rfl⟩ := hn
    exact b.toNat_lt

/-- truncate: the first 1024 bytes of the string rendering -/
theorem truncate_prefix (bits : Bits) : renderTruncate bits = (renderString bits).take 1024 := by
  unfold renderTruncate renderString copyBits truncateBytes
  rw [Nat.mul_comm]; exact packR_take bits 1024

/-- snippet: "<" size ">" followed by the base64 of the first 256 bytes -/
theorem snippet_prefix (sb : Nat) (bits : Bits) :
    renderSnippet sb bits = ['<'] ++ stringByteBits sb bits.length ++ ['>'] ++ snippetPayload bits
    ∧ b64decode (snippetPayload bits) = some ((renderString bits).take 256) := by
  refine ⟨rfl, ?_⟩
  unfold snippetPayload renderString copyBits snippetBytes
  rw [b64decode_b64encode, Nat.mul_comm, packR_take]

example : hexChars [0x0f, 0xa0] = hexChars [0x0f, 0xa0] ∧ b64encode [1, 2] = "AQI=".toList := by decide
example : renderSnippet 10 (bytesToBits [0x66, 0x71]) = "<2>ZnE=".toList := by decide
example : renderSnippet 16 ((bytesToBits [0x66, 0x71]).take 13) = "<0x1.5>ZnA=".toList := by decide
example : renderHex ((bytesToBits [0x66, 0x71]).take 13) = "6670".toList := by decide

/-! ## MD5: the RFC 1321 test suite (appendix A.5), evaluated by the kernel -/

def ascii (s : String) : List UInt8 := s.toList.map fun c => UInt8.ofNat c.toNat

theorem md5_rfc_suite :
    hexChars (C05Md5.digest (ascii "")) = "d41d8cd98f00b204e9800998ecf8427e".toList
    ∧ hexChars (C05Md5.digest (ascii "a")) = "0cc175b9c0f1b6a831c399e269772661".toList
    ∧ hexChars (C05Md5.digest (ascii "abc")) = "900150983cd24fb0d6963f7d28e17f72".toList
    ∧ hexChars (C05Md5.digest (ascii "message digest")) = "f96b697d7cb7938d525a2f31aaf161d0".toList
    ∧ hexChars (C05Md5.digest (ascii "abcdefghijklmnopqrstuvwxyz")) = "c3fcd3d76192e4007dfb496cca67e13b".toList
    ∧ hexChars (C05Md5.digest (ascii "ABCDEFGHIJKLMNOPQRSTUVWXYZabcdefghijklmnopqrstuvwxyz0123456789"))
        = "d174ab98d277d9f5a5611c2c9f419d9f".toList
    ∧ hexChars (C05Md5.digest (ascii
        "12345678901234567890123456789012345678901234567890123456789012345678901234567890"))
        = "57edf4a22be3c955ac49da2e2107b67a".toList := by
  decide +kernel

/-- the md5 rendering is the RFC digest of the string rendering's bytes -/
theorem md5_of_string (bits : Bits) : renderMd5 bits = hexChars (C05Md5.digest (renderString bits)) := rfl

/-! ## the driver's window shift -/

/-- running the model on a window `w` of the buffer `pre ++ w ++ post` with the range shifted by
    `pre.length` (Drv/C05.lean) gives the bits of the real range -/
theorem window_shift (pre w post : Bits) (start len : Nat)
    (h1 : pre.length ≤ start) (h2 : start + len ≤ pre.length + w.length) :
    valueBits (pre ++ w ++ post) start len = valueBits w (start - pre.length) len :=
  slice_window pre w post start len h1 h2

example : valueBits ([true, true] ++ [false, true, false] ++ [true]) 3 2 = valueBits [false, true, false] 1 2 ∧
    valueBits [false, true, false] 1 2 = [true, false] := by decide

/-! ## documented quirk (latent; see lib/props/C05.json assumptions) -/

/-- `InnerRange` ignores the start of EVERY root value.  That is right for roots whose Range.Start
    is a position in the parent buffer (FieldRootBitBuf, FieldFormatBitBuf); a root made by
    Field{Struct,Array}RootBitBufFn carries a range in its OWN buffer, and if its first field did
    not start at bit 0 `tobits` would return `[0, len)` instead of `[start, start+len)`:
    here bits 0..3 instead of bits 2..5.  No shipped decoder produces such a root on the testdata
    (the harness counts them). -/
theorem innerRange_root_ignores_start :
    toBits { root := [true, true, false, false, true, false, true, true], start := 2, len := 4,
             isRoot := true, synthetic := false } = .ok [true, true, false, false]
    ∧ valueBits [true, true, false, false, true, false, true, true] 2 4 = [false, false, true, false] := by
  decide

end Props.C05
