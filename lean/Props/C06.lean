import FqModel.Recover
import FqModel.Recover2
import Proofs.C06
import Proofs.C06DProg
import FqModel.Gen.DecoderSites
import FqModel.ReadChunks
import Proofs.C06Chunks
/-!
  C06 — "no input makes a decoder crash fq".  Claimed PARTIAL (manifest category `other`).

  Full statement: for every registered format / the probe group g, every byte string x and both values
  of Options.Force, `decode.Decode` returns a tree (maybe partial, with the error attached) or a
  reported error, and never leaves through a Go runtime fault or another unrecovered panic.

  What is proved here (for ALL groups, inputs, integer arguments — kernel checked):
    * `recover_exact`, `recover_recovers`   recoverfn.Run re-panics exactly the non-RecoverableErrorer values
    * `decode_total`                       if every DecodeFn of the group raises only recoverable values,
                                           decode() never panics — for every input and Force
    * `decode_panic_sound`                 conversely a panic out of decode() is a non-recoverable value
                                           raised by one of the group's DecodeFns (nothing else can panic)
    * `decode_shape`                       the (tree | partial tree | formats error) shape the harness observes
    * `core_only_recoverable`              FULL core statement: every modelled primitive of pkg/decode raises
                                           only IOError/DecoderError for EVERY integer argument (true since
                                           8465c2ad "fix: decode: don't allocate by unchecked lengths, AlignBits
                                           with zero is an error")
    * regression witnesses about the OLD core (`corePrimOld`): `bytesLen_negative_faults`, `bytesLen_huge_faults`,
      `bits_huge_faults`, `bytesRange_huge_faults`, `alignBits_zero_faults`, `core_old_not_recoverable` — the five
      calls that were runtime faults (makeslice / divide by zero) — and `core_fixed_witnesses`: they are IOErrors now;
      `bytesRange_outside_buffer` for the old "zero bytes, no error" quirk (edf89c74).

    * READ-CHUNK dimension (FqModel/ReadChunks.lean: the stream-transforming io.Readers decoders read through, one
      `Read(p)` call after the other with the state the reader value carries between them):
      `nal_read_total` — nalUnescapeReader.Read (format/mpeg/shared.go:94-113, used by avc_nalu / hevc_nalu and
      everything that nests them) indexes inside `p` for EVERY destination size, every amount the inner reader
      delivered (the io.Reader contract n ≤ len p is the only hypothesis) and every byte content, over any number of
      Reads; `nal_read_count`; `nal_unescape_chunk_independent` / `nal_unescape_same_for_every_chunking` /
      `nal_unescape_is_rewrite` — the concatenated output does not depend on where the Reads cut the payload
      (a 00 00 | 03 split included) and is the rewrite 00 00 03 → 00 00; `nal_lookahead_lt_total`,
      `nal_seeded_safe_unless_full`, `nal_seeded_guard_faults`, `nal_seeded_guard_faults_every_size` — a lookahead
      `p[i+1]` is safe under the guard `i+1 < rn`, and under `i+1 <= rn` (seeded change S5-C06-1) faults exactly when
      a Read FILLS its destination and ends in 00 00 03, for every destination size ≥ 3: a fault that only inputs with
      the pattern on a read-chunk boundary reach; `unsync_read_total`, `unsync_is_per_chunk`,
      `unsync_chunk_independent_if_carried`, `unsync_not_chunk_independent` — the ID3v2 unsynchronisation reader
      (format/id3/id3v2.go:196-218) never faults either, but, having a VALUE receiver, forgets `lastFF` between
      Reads: ff | 00 split over two Reads keeps the 00 (a correctness defect of fq outside C06, kept as a witness);
      `bitflip_read_total`, `bitflip_needs_contract` — bzip2's bitFlipReader.Read (format/bzip2/bzip2.go:44-50).

  What is NOT proved (hypothesis `OnlyRecoverable f` for the 132 real DecodeFns — their own index
  arithmetic, map lookups, type assertions and allocations are ≈ 60 k lines of Go that are not modelled):
  validated by enumeration only (harness/cmd/c06: the mutation family around the corpus × formats ×
  force), with every runtime fault found recorded in known_findings.json.
-/
namespace Props.C06
open FqModel.Recover Proofs.C06

/-! ### recoverfn.Run -/

/-- the panic goes on exactly when the function raised a value that is not recoverable -/
theorem recover_exact {α : Type} (f : Outcome α) (v : PanicV) :
    recoverRun f = .repanic v ↔ f = .panic v ∧ ¬ v.recoverable = true := by
  rw [recoverRun_repanic]; simp

/-- and it is turned into a returned error exactly when it is one of IOError/DecoderError/FormatsError -/
theorem recover_recovers {α : Type} (f : Outcome α) (v : PanicV) :
    recoverRun f = .recovered v ↔ f = .panic v ∧ (v = .ioError ∨ v = .decoderError ∨ v = .formatsError) := by
  rw [recoverRun_recovered]
  constructor
  · rintro ⟨h, hv⟩
    refine ⟨h, ?_⟩
    cases v <;> simp_all [PanicV.recoverable]
  · rintro ⟨h, hv⟩
    refine ⟨h, ?_⟩
    rcases hv with hv | hv | hv <;> subst hv <;> rfl

/-- a runtime fault is never swallowed -/
theorem recover_never_hides_runtime {α : Type} (why : String) :
    recoverRun (.panic (.runtime why) : Outcome α) = .repanic (.runtime why) := rfl

/-! ### decode() -/

/-- H ⇒ never a panic: every input, Force on or off (Force is part of `Input`) -/
theorem decode_total (g : List Decoder) (h : ∀ f ∈ g, OnlyRecoverable f) :
    ∀ (x : Input) (v : PanicV), decodeGroup g x ≠ .panic v := by
  intro x v hp
  obtain ⟨f, hf, hfx, hv⟩ := decodeLoop_panic _ _ _ _ _ _ hp
  have := h f hf x v hfx
  simp [hv] at this

/-- non-vacuity: a two-format group whose members really fail (recoverably) on some inputs satisfies the
    hypothesis, and its decode of the empty input is a formats error listing both -/
def exDecA : Decoder := fun x => if x.bytes.length < 4 then .panic .ioError else .ok ()
def exDecB : Decoder := fun x => if x.force then .ok () else .panic .decoderError
example : ∀ f ∈ [exDecA, exDecB], OnlyRecoverable f := by
  intro f hf x v hv
  simp at hf
  rcases hf with hf | hf <;> subst hf <;> simp [exDecA, exDecB] at hv <;> split at hv <;> simp at hv <;> subst hv <;> rfl
example : decodeGroup [exDecA, exDecB] ⟨[], false⟩ = .formatsErr [(0, .ioError), (1, .decoderError)] := by decide
example : decodeGroup [exDecA, exDecB] ⟨[], true⟩ = .tree 1 [(0, .ioError)] := by decide
example : decodeGroup [exDecA] ⟨[1], true⟩ = .treeWithErr 0 .ioError := by decide

/-- the same, in the form "the result is one of the three documented shapes" -/
theorem decode_total_shapes (g : List Decoder) (h : ∀ f ∈ g, OnlyRecoverable f) (x : Input) :
    (∃ i errs, decodeGroup g x = .tree i errs) ∨ (∃ i e, decodeGroup g x = .treeWithErr i e) ∨
      (∃ errs, decodeGroup g x = .formatsErr errs) := by
  cases hd : decodeGroup g x with
  | tree i errs => exact .inl ⟨i, errs, rfl⟩
  | treeWithErr i e => exact .inr (.inl ⟨i, e, rfl⟩)
  | formatsErr errs => exact .inr (.inr ⟨errs, rfl⟩)
  | panic v => exact absurd hd (decode_total g h x v)

/-- soundness of the hypothesis: nothing but a DecodeFn's own non-recoverable panic leaves decode() -/
theorem decode_panic_sound (g : List Decoder) (x : Input) (v : PanicV) (h : decodeGroup g x = .panic v) :
    ∃ f ∈ g, f x = .panic v ∧ ¬ v.recoverable = true := by
  obtain ⟨f, hf, hfx, hv⟩ := decodeLoop_panic _ _ _ _ _ _ h
  exact ⟨f, hf, hfx, by simp [hv]⟩

/-- the hypothesis is needed: a runtime fault in the first format tried goes straight through -/
theorem decode_propagates (rest : List Decoder) (x : Input) (why : String) :
    decodeGroup ((fun _ => .panic (.runtime why)) :: rest) x = .panic (.runtime why) := by
  simp [decodeGroup, decodeLoop, recoverRun, PanicV.recoverable]

/-- what the harness observes (`tree|partial|error / n / k / i / v`): a tree's format index equals the
    number of collected errors and is inside the group; a partial tree only for a single-format group;
    no tree means one error per format -/
theorem decode_shape (g : List Decoder) (x : Input) :
    match decodeGroup g x with
    | .tree i errs => i = errs.length ∧ i < g.length
    | .treeWithErr i _ => g.length = 1 ∧ i = 0
    | .formatsErr errs => errs.length = g.length
    | .panic _ => True := by
  have h := decodeLoop_shape (g.length == 1) x g 0 [] rfl
  unfold decodeGroup
  cases hd : decodeLoop (g.length == 1) x g 0 [] with
  | tree i errs => rw [hd] at h; simp at h ⊢; omega
  | treeWithErr i e => rw [hd] at h; simp at h ⊢; omega
  | formatsErr errs => rw [hd] at h; simpa using h
  | panic v => trivial

/-- single-format group (fq -d FORMAT): a recoverable failure always yields the partial tree with the
    error attached — never "no tree" -/
theorem decode_single_partial (f : Decoder) (x : Input) (v : PanicV) (hf : f x = .panic v)
    (hv : v.recoverable = true) : decodeGroup [f] x = .treeWithErr 0 v := by
  simp [decodeGroup, decodeLoop, recoverRun, hf, hv]

/-! ### the decode core -/

/-- a sane decoder state: the position is not negative and the buffer is at most 2^48 bits (32 TiB) long,
    so that an allocation bounded by the buffer cannot exceed runtime.maxAlloc: fq's inputs are files or
    in-memory buffers -/
def BufOK (s : St) : Prop := 0 ≤ s.pos ∧ s.len ≤ maxAlloc

example : BufOK { len := 800, pos := 3, force := false } := by simp [BufOK, maxAlloc]

theorem onlyRec_ok {α : Type} (a : α) : OnlyRec (.ok a : Outcome α) := by intro v hv; simp at hv
theorem onlyRec_io {α : Type} : OnlyRec (.panic .ioError : Outcome α) := by
  intro v hv; simp at hv; subst hv; rfl
theorem onlyRec_dec {α : Type} : OnlyRec (.panic .decoderError : Outcome α) := by
  intro v hv; simp at hv; subst hv; rfl

/-- FULL core statement (true of the tree since 8465c2ad): EVERY modelled primitive of pkg/decode raises only
    recoverable errors (IOError / DecoderError) for EVERY integer argument — negative, zero, beyond the
    buffer, near ±2^63 — every position and both Force values; never a Go runtime fault. -/
theorem core_only_recoverable (p : Prim) (s : St) (hs : BufOK s) (a : Int) :
    OnlyRec (corePrim p s a) := by
  obtain ⟨hp, hl⟩ := hs
  cases p <;> simp only [corePrim]
  · exact onlyRec_ok _
  · exact must_onlyRec _ (fun w => tryBits_nofault _ _ w hp hl)
  · exact must_onlyRec _ (fun w => tryUintBits_nofault _ _ w hp hl)
  · exact must_onlyRec _ (fun w => tryU_nofault _ _ w hp hl)
  · exact must_onlyRec _ (fun w => tryBitBufLen_nofault _ _ w)
  · exact must_onlyRec _ (fun w => trySeekAbs_nofault _ _ w)
  · exact must_onlyRec _ (fun w => trySeekAbs_nofault _ _ w)
  · -- framed
    split
    · exact onlyRec_dec
    · split
      · rename_i v h; intro v' hv'; simp at hv'; subst hv'; exact rangeFn_onlyRec _ _ _ _ h
      · exact must_onlyRec _ (fun w => trySeekAbs_nofault _ _ w)
  · -- limited
    split
    · exact onlyRec_dec
    · split
      · rename_i v h; intro v' hv'; simp at hv'; subst hv'; exact rangeFn_onlyRec _ _ _ _ h
      · exact must_onlyRec _ (fun w => trySeekAbs_nofault _ _ w)
  · exact rangeFn_onlyRec _ _ _
  · exact must_onlyRec _ (fun w => tryBytesLen_nofault _ _ w hp hl)
  · exact must_onlyRec _ (fun w => tryBytesRange_nofault _ _ _ w hl)
  · -- peekbytes
    apply must_onlyRec
    intro w
    split
    · simp
    · simp
    · rename_i w' h; exact absurd h (tryBytesLen_nofault _ _ _ hp hl)
  · exact must_onlyRec _ (fun w => tryText_nofault _ _ w hp hl)
  · -- bitbufrange
    apply must_onlyRec
    intro w
    split
    · simp
    · simp
    · rename_i w' h; exact absurd h (bitioxRange_nofault _ _ _ _)
  · exact must_onlyRec _ (fun w => tryAlignBits_nofault _ _ w)
  · -- structn
    repeat' split
    · exact onlyRec_ok _
    · exact onlyRec_io
    · exact onlyRec_ok _
  · split
    · exact onlyRec_ok _
    · exact onlyRec_dec
  · exact onlyRec_dec
  · exact onlyRec_io
  · repeat' split
    · exact onlyRec_ok _
    · exact onlyRec_dec
    · exact onlyRec_ok _
  · repeat' split
    · exact onlyRec_ok _
    · exact onlyRec_dec
    · exact onlyRec_ok _
  · -- iszero
    split
    · exact onlyRec_io
    · rename_i w h; exact absurd h (tryBitBufLen_nofault _ _ _)
    · simp only [isZeroScan_in_bounds]
      exact onlyRec_ok _

/-- pkg/decode/scalar.go bitBufIsZero: the scan of the 32 KiB scratch buffer stays inside it for EVERY field
    length (the ceiling division BitsByteCount(n) of a chunk of at most 32768*8 bits is at most 32768) -/
theorem isZero_scan_in_bounds (nbits : Int) : isZeroScanFault isZeroScanBytes nbits = false :=
  isZeroScan_in_bounds nbits

/-- … and the guard is tight: with `int(n/8)+1` (seeded change S3-C06-2) a field of exactly one full buffer of
    bits indexes b[32768] — while every shorter byte-aligned field, and every unaligned one, is still fine, which
    is why only a long run of zeros (>= 32 KiB) exposes it -/
theorem isZero_scan_seeded_faults :
    isZeroScanFault isZeroScanBytesSeeded (32768 * 8) = true ∧ isZeroScanFault isZeroScanBytesSeeded (32767 * 8) = false ∧
      isZeroScanFault isZeroScanBytesSeeded (32768 * 8 - 4) = false ∧ isZeroScanFault isZeroScanBytesSeeded (40000 * 8) = true := by
  decide

/-! ### regression witnesses: the core as it was before 8465c2ad (`corePrimOld`) did fault
    (known findings verif_c06:decode.(*D).TryBytesLen / TryBytesRange / SharedReadBuf / TryAlignBits, fixed) -/

def s4 : St := { len := 32, pos := 0, force := false }

/-- old D.BytesLen(-1): `make([]byte, nBytes)` before any check — runtime makeslice panic -/
theorem bytesLen_negative_faults : corePrimOld .byteslen s4 (-1) = .panic (.runtime "makeslice-out-of-range") := by
  decide

/-- old D.BytesLen(2^48+1), D.PeekBytes likewise: beyond runtime.maxAlloc — runtime makeslice panic -/
theorem bytesLen_huge_faults :
    corePrimOld .byteslen s4 (maxAlloc + 1) = .panic (.runtime "makeslice-out-of-range") ∧
    corePrimOld .peekbytes s4 (maxAlloc + 1) = .panic (.runtime "makeslice-out-of-range") := by
  decide

/-- old D.Bits(n) for n > 8·2^48: SharedReadBuf allocated the whole request first -/
theorem bits_huge_faults : corePrimOld .bits s4 (1152921504606846976) = .panic (.runtime "makeslice-out-of-range") := by
  decide

/-- old D.BytesRange(pos, n) rejected n < 0 but allocated n > 2^48 -/
theorem bytesRange_huge_faults :
    corePrimOld .bytesrange s4 (maxAlloc + 1) = .panic (.runtime "makeslice-out-of-range") := by
  decide

/-- old D.AlignBits(0): `pos % int64(nBits)` — integer divide by zero -/
theorem alignBits_zero_faults : corePrimOld .alignbits s4 0 = .panic (.runtime "integer-divide-by-zero") := by
  decide

/-- so the full core statement did NOT hold for the old core (why the fix was needed) … -/
theorem core_old_not_recoverable : ¬ (∀ (p : Prim) (s : St) (a : Int), BufOK s → OnlyRec (corePrimOld p s a)) := by
  intro h
  have := h .byteslen s4 (-1) (by simp [BufOK, maxAlloc, s4]) _ bytesLen_negative_faults
  simp [PanicV.recoverable] at this

/-- … and the same five calls are plain IOErrors now -/
theorem core_fixed_witnesses :
    corePrim .byteslen s4 (-1) = .panic .ioError ∧ corePrim .byteslen s4 (maxAlloc + 1) = .panic .ioError ∧
    corePrim .peekbytes s4 (maxAlloc + 1) = .panic .ioError ∧ corePrim .bits s4 1152921504606846976 = .panic .ioError ∧
    corePrim .bytesrange s4 (maxAlloc + 1) = .panic .ioError ∧ corePrim .alignbits s4 0 = .panic .ioError := by
  decide

/-- old D.BytesRange outside the buffer "succeeded" with zero bytes (known finding
    bytesrange-outside-buffer-no-error, fixed by edf89c74); now an IOError -/
theorem bytesRange_outside_buffer :
    corePrimOld .bytesrange { len := 32, pos := 32, force := false } 4 = .ok { len := 32, pos := 32, force := false } ∧
    corePrim .bytesrange { len := 32, pos := 32, force := false } 4 = .panic .ioError := by
  decide

/-- the primitives that were not touched by the fix are the same in both versions -/
theorem core_old_eq (p : Prim) (hp : p.wasUnsafe = false) (s : St) (a : Int) : corePrimOld p s a = corePrim p s a := by
  cases p <;> simp [Prim.wasUnsafe] at hp <;> rfl

/-- Errorf is a no-op exactly under Options.Force (decode.go:372-376); Fatalf and IOPanic are not -/
theorem errorf_force (s : St) (a : Int) :
    (corePrim .errorf s a = .ok s ↔ s.force = true) ∧ corePrim .fatalf s a = .panic .decoderError ∧
      corePrim .iopanic s a = .panic .ioError := by
  refine ⟨?_, rfl, rfl⟩
  simp only [corePrim]
  cases s.force <;> simp

/-! ### closure: every decoder that only combines decode-API calls with total pure code

  `DProg` (FqModel/Recover2.lean) is a decoder language whose steps are the modelled core primitives, fields with
  Assert mappers, pure observations (Pos/Len/Force), FieldStruct/FieldArray scopes, FramedFn and sub-decoder calls under
  their own recover, glued by ARBITRARY Lean functions of the values read. For every such program the hypothesis of
  `decode_total` is discharged — no enumeration involved. What remains unproved for a real Go decoder is only that it
  IS such a program (its own indexing, arithmetic, allocation: the fault sites counted by Gen/DecoderSites.lean). -/

/-- CLOSURE THEOREM: every DProg, on every input, from every sane reader state, in every context (root or nested,
    struct or array), raises only IOError / DecoderError / FormatsError — never a runtime fault -/
theorem dprog_only_recoverable (p : DProg) (c : Ctx) (rs : RunSt) (hs : BufOK rs.st) :
    OnlyRec (runDProg p c rs).2 :=
  (runDProg_good (fun q s a h => core_only_recoverable q s h a) p c rs hs).1

/-- … and when it returns, the reader state is sane again (so programs compose) -/
theorem dprog_returns_sane (p : DProg) (c : Ctx) (rs rs' : RunSt) (hs : BufOK rs.st)
    (h : (runDProg p c rs).2 = .ok rs') : BufOK rs'.st :=
  (runDProg_good (fun q s a h => core_only_recoverable q s h a) p c rs hs).2 rs' h

/-- a DProg as a root DecodeFn: only recoverable panics on every input up to 32 TiB (2^48 bits, `BufOK`) -/
theorem dprog_decoder_only_recoverable (p : DProg) (rootArray : Bool) (x : Input)
    (hx : Int.ofNat x.bytes.length * 8 ≤ maxAlloc) (v : PanicV) (h : p.toDecoder rootArray x = .panic v) :
    v.recoverable = true := by
  have := dprog_only_recoverable p (rootCtx x.bytes.toArray rootArray) (rootSt x.bytes.length x.force)
    ⟨by simp [rootSt], by simpa [rootSt] using hx⟩
  unfold DProg.toDecoder at h
  split at h
  · simp at h
  · rename_i w hw; simp at h; subst h; exact this w hw

/-- COROLLARY: a format group (probe, a single format, any list) made of DProg decoders never ends in a runtime
    fault — `decode_total` with its hypothesis discharged -/
theorem decode_total_dprog (g : List (DProg × Bool)) (x : Input) (hx : Int.ofNat x.bytes.length * 8 ≤ maxAlloc)
    (v : PanicV) : decodeGroup (g.map fun q => q.1.toDecoder q.2) x ≠ .panic v := by
  intro hp
  obtain ⟨f, hf, hfx, hv⟩ := decodeLoop_panic _ _ _ _ _ _ hp
  simp only [List.mem_map] at hf
  obtain ⟨q, _, rfl⟩ := hf
  have := dprog_decoder_only_recoverable q.1 q.2 x hx v hfx
  simp [hv] at this

/-- the three transliterated real decoders (mp3_frame_vbri, vp9_cfm, prores_frame) in particular -/
theorem real_dprog_decoders_total (x : Input) (hx : Int.ofNat x.bytes.length * 8 ≤ maxAlloc) (v : PanicV) :
    decodeGroup [vbriProg.toDecoder false] x ≠ .panic v ∧ decodeGroup [vp9Prog.toDecoder true] x ≠ .panic v ∧
      decodeGroup [proresProg.toDecoder false] x ≠ .panic v :=
  ⟨decode_total_dprog [(vbriProg, false)] x hx v, decode_total_dprog [(vp9Prog, true)] x hx v,
    decode_total_dprog [(proresProg, false)] x hx v⟩

/-- non-vacuity: data-dependent control flow really happens. vp9_cfm on `01 01 07 | 09 02 aa bb`: feature 1 reads a
    one-byte profile inside its 8-bit frame, the unknown id 9 takes the `default:` branch and reads its 2-byte frame
    raw; (start, len) of the leaves: -/
example : ((runDProg vp9Prog (rootCtx #[1, 1, 7, 9, 2, 0xaa, 0xbb] true) (rootSt 7 false)).1.map fun l => (l.start, l.len)) =
    [(0, 8), (8, 8), (16, 8), (24, 8), (32, 8), (40, 16)] := by decide +kernel
/-- … a length byte that points past the end is an IOError with the partial tree kept (id, length) … -/
example : (runDProg vp9Prog (rootCtx #[1, 200, 7] true) (rootSt 3 false)).2 = .panic .ioError ∧
    ((runDProg vp9Prog (rootCtx #[1, 200, 7] true) (rootSt 3 false)).1.map fun l => (l.start, l.len)) = [(0, 8), (8, 8)] := by
  decide +kernel
/-- … prores_frame with size < 8: `FramedFn((size-8)*8)` of a negative length is the DecoderError of decode.go:964;
    a wrong type tag fails its assert unless Options.Force -/
example : (runDProg proresProg (rootCtx #[0, 0, 0, 7, 0x69, 0x63, 0x70, 0x66] false) (rootSt 8 false)).2 = .panic .decoderError ∧
    (runDProg proresProg (rootCtx #[0, 0, 0, 9, 0x69, 0x63, 0x70, 0x67] false) (rootSt 8 false)).2 = .panic .ioError ∧
    (runDProg proresProg (rootCtx #[0, 0, 0, 7, 0x69, 0x63, 0x70, 0x67] false) (rootSt 8 true)).2 = .panic .decoderError := by
  decide +kernel

/-! ### the regenerated fault-site table (FqModel/Gen/DecoderSites.lean, written by /verif/extract/c06sites on
    every run from the working tree): which real decoders are candidates for the closure theorem

  The statements below hold for EVERY table the extractor can produce (they relate the columns of the table, they do
  not pin its contents), so a change of the decoders changes the table but never breaks a proof; the harness compares
  the table with corpus/C06/sites_baseline.json and answers a changed package with a directed search. -/

open FqModel.Gen.DecoderSites in
/-- regenerated fact: `siteFreeFormats` is exactly the list of formats registered by packages with NO fault-capable
    site outside the decode API — none in the package, none in the helper functions reachable from it — and every
    row is well-formed (one count per kind, the total covers at least the package's own sites) -/
theorem site_free_formats :
    siteFreeFormats = (table.filter fun p => p.total == 0).flatMap (·.formats) ∧
      (table.all fun p => p.counts.length == kinds.length && decide (p.counts.sum ≤ p.total)) = true := by
  decide +kernel

/-- HYPOTHESIS about Go and the extractor (trusted base, NOT proved, NOT an axiom — an explicit premise): a decoder
    whose package has no listed site is a composition of decode-API calls and total pure code, i.e. it behaves like
    some DProg on every input. `goDecoder f` stands for the real DecodeFn of format `f`. -/
def SiteFreeIsDProg (goDecoder : String → Decoder) : Prop :=
  ∀ f ∈ FqModel.Gen.DecoderSites.siteFreeFormats, ∃ (p : DProg) (rootArray : Bool), ∀ x, goDecoder f x = p.toDecoder rootArray x

/-- under that hypothesis every site-free format raises only recoverable errors on every input up to 32 TiB … -/
theorem site_free_only_recoverable (goDecoder : String → Decoder) (h : SiteFreeIsDProg goDecoder)
    (f : String) (hf : f ∈ FqModel.Gen.DecoderSites.siteFreeFormats) (x : Input)
    (hx : Int.ofNat x.bytes.length * 8 ≤ maxAlloc) (v : PanicV) (hp : goDecoder f x = .panic v) :
    v.recoverable = true := by
  obtain ⟨p, ra, hpx⟩ := h f hf
  exact dprog_decoder_only_recoverable p ra x hx v (by rw [← hpx x]; exact hp)

/-- … and a group made of site-free formats (e.g. `fq -d vp9_cfm`) never ends in a runtime fault -/
theorem site_free_decode_total (goDecoder : String → Decoder) (h : SiteFreeIsDProg goDecoder)
    (fs : List String) (hfs : ∀ f ∈ fs, f ∈ FqModel.Gen.DecoderSites.siteFreeFormats) (x : Input)
    (hx : Int.ofNat x.bytes.length * 8 ≤ maxAlloc) (v : PanicV) : decodeGroup (fs.map goDecoder) x ≠ .panic v := by
  intro hp
  obtain ⟨d, hd, hdx, hv⟩ := decodeLoop_panic _ _ _ _ _ _ hp
  simp only [List.mem_map] at hd
  obtain ⟨f, hf, rfl⟩ := hd
  have := site_free_only_recoverable goDecoder h f (hfs f hf) x hx v hdx
  simp [hv] at this

/-- non-vacuity of the hypothesis: an assignment of decoders that are DProgs (the transliterated vp9_cfm for its
    name, the empty decoder elsewhere) satisfies it — and is not trivial: vp9_cfm fails recoverably on `01 c8 07` -/
example : SiteFreeIsDProg (fun f => if f = "vp9_cfm" then vp9Prog.toDecoder true else (DProg.done 0).toDecoder false) := by
  intro f _
  by_cases hf : f = "vp9_cfm"
  · exact ⟨vp9Prog, true, fun x => by simp [hf]⟩
  · exact ⟨.done 0, false, fun x => by simp [hf]⟩
example : vp9Prog.toDecoder true ⟨[1, 200, 7], false⟩ = .panic .ioError := by decide +kernel

/-! ### stream-transforming readers inside decoders, one `Read(p)` after the other (FqModel/ReadChunks.lean) -/

section ReadChunks
open FqModel.ReadChunks Proofs.C06Chunks

/-- the io.Reader contract of the INNER reader, the only hypothesis: every call delivered at most `len p` bytes -/
def ReadContract (calls : List ReadCall) : Prop := ∀ c ∈ calls, c.bs.length ≤ c.plen

/-- the payload: what the inner reader delivered over all the calls -/
def payload (calls : List ReadCall) : List Nat := calls.flatMap (·.bs)

/-- nalUnescapeReader.Read never indexes out of range and never returns a count its consumer faults on:
    every number of Reads, every destination size, every chunking of the payload, every byte content,
    every state the reader may be in when the copy starts -/
theorem nal_read_total (st : NalSt) (calls : List ReadCall) (h : ReadContract calls) :
    ∃ st' out, nalReads .none st calls = .ok (st', out) := by
  rw [nalReads_none calls st h]; exact ⟨_, _, rfl⟩

/-- one Read: the count returned is exactly the number of bytes left in `p[0:n]`, at most what was delivered -/
theorem nal_read_count (c : ReadCall) (st : NalSt) (h : c.bs.length ≤ c.plen) :
    ∃ st' out, nalRead .none c st = .ok ((out.length : Int), st', out) ∧ out.length ≤ c.bs.length := by
  rw [nalRead_none c st h]
  exact ⟨_, _, rfl, by have := nalSpec_length st c.bs; omega⟩

/-- chunk independence: the bytes the consumer appended over all the Reads, and the state left in the reader, are
    those of the specification run ONCE over the whole payload -/
theorem nal_unescape_chunk_independent (st : NalSt) (calls : List ReadCall) (h : ReadContract calls) :
    nalReads .none st calls = .ok (nalFinalSt st (payload calls), nalSpec st (payload calls)) :=
  nalReads_none calls st h

/-- … so two ways of cutting the same payload (other destination sizes, other short reads, a 00 00 03 cut
    anywhere) give the same result -/
theorem nal_unescape_same_for_every_chunking (st : NalSt) (calls₁ calls₂ : List ReadCall)
    (h₁ : ReadContract calls₁) (h₂ : ReadContract calls₂) (hp : payload calls₁ = payload calls₂) :
    nalReads .none st calls₁ = nalReads .none st calls₂ := by
  rw [nal_unescape_chunk_independent st calls₁ h₁, nal_unescape_chunk_independent st calls₂ h₂, hp]

/-- … and from a fresh reader it is the rewrite "every 00 00 03 loses its 03, left to right" of the payload -/
theorem nal_unescape_is_rewrite (calls : List ReadCall) (h : ReadContract calls) :
    ∃ st', nalReads .none ⟨false, false⟩ calls = .ok (st', unescape (payload calls)) := by
  rw [nal_unescape_chunk_independent _ calls h, (nalSpec_unescape_all (payload calls)).1 false]
  exact ⟨_, rfl⟩

/-- the split cases by evaluation: 00 00 | 03 xx, 00 | 00 03 | xx with one-byte destinations, a 03 that is the
    last byte of the payload, and 00 00 00 03 -/
theorem nal_split_escape_cases :
    nalReads .none ⟨false, false⟩ [⟨2, [0, 0], []⟩, ⟨2, [3, 1], []⟩] = .ok (⟨false, false⟩, [0, 0, 1]) ∧
    nalReads .none ⟨false, false⟩ [⟨1, [0], []⟩, ⟨1, [0], []⟩, ⟨1, [3], []⟩, ⟨1, [1], []⟩] = .ok (⟨false, false⟩, [0, 0, 1]) ∧
    nalReads .none ⟨false, false⟩ [⟨4, [7, 0, 0, 3], []⟩] = .ok (⟨false, false⟩, [7, 0, 0]) ∧
    nalReads .none ⟨false, false⟩ [⟨3, [0, 0, 0], []⟩, ⟨5, [3, 3], [9, 9, 9]⟩] = .ok (⟨false, false⟩, [0, 0, 0, 3]) := by
  decide

/-- a variant WITH a lookahead at the byte after 00 00 03, guarded by `i+1 < rn`, is total as well -/
theorem nal_lookahead_lt_total (st : NalSt) (calls : List ReadCall) (h : ReadContract calls) :
    ∃ st' out, nalReads .lt st calls = .ok (st', out) := by
  obtain ⟨st', out, e, _⟩ := nalReads_look_ok .lt calls st h (fun hl => by cases hl)
  exact ⟨st', out, e⟩

/-- the seeded guard `i+1 <= rn` (S5-C06-1) is harmless as long as no Read fills its destination — which is why
    no input whose 00 00 03 lies inside a chunk reaches the fault -/
theorem nal_seeded_safe_unless_full (st : NalSt) (calls : List ReadCall) (h : ∀ c ∈ calls, c.bs.length < c.plen) :
    ∃ st' out, nalReads .le st calls = .ok (st', out) := by
  obtain ⟨st', out, e, _⟩ := nalReads_look_ok .le calls st (fun c hc => Nat.le_of_lt (h c hc)) (fun _ => h)
  exact ⟨st', out, e⟩

/-- … and faults when one does: witness (4-byte destination filled by 01 00 00 03), on which the code as it is and
    the `<` guard return 3 bytes -/
theorem nal_seeded_guard_faults :
    ReadContract [⟨4, [1, 0, 0, 3], []⟩] ∧
    nalReads .le ⟨false, false⟩ [⟨4, [1, 0, 0, 3], []⟩] = .panic idxFault ∧
    nalReads .lt ⟨false, false⟩ [⟨4, [1, 0, 0, 3], []⟩] = .ok (⟨false, false⟩, [1, 0, 0]) ∧
    nalReads .none ⟨false, false⟩ [⟨4, [1, 0, 0, 3], []⟩] = .ok (⟨false, false⟩, [1, 0, 0]) ∧
    -- the same bytes with room behind them: the seeded code reads the stale byte (here 9 > 3: the 03 stays)
    nalReads .le ⟨false, false⟩ [⟨5, [1, 0, 0, 3], [9]⟩] = .ok (⟨false, true⟩, [1, 0, 0, 3]) := by
  refine ⟨fun c hc => ?_, by decide, by decide, by decide, by decide⟩
  simp at hc; subst hc; decide

/-- at EVERY destination size ≥ 3 (512, 1024, … as bytes.Buffer.ReadFrom passes them, or any other), from every
    reader state, whatever the filler: a Read that fills `p` and ends in 00 00 03 indexes `p[len p]` -/
theorem nal_seeded_guard_faults_every_size (plen f : Nat) (h3 : 3 ≤ plen) (hf : f ≠ 3) (st : NalSt) (stale : List Nat) :
    nalRead .le ⟨plen, List.replicate (plen - 3) f ++ [0, 0, 3], stale⟩ st = .panic idxFault := by
  unfold nalRead
  have hlen : (List.replicate (plen - 3) f ++ [0, 0, 3]).length = plen := by simp; omega
  simp only [hlen]
  rw [goSliceTo_ok (Nat.le_refl _), obind_ok]
  exact nalLoop_le_faults plen stale f hf (plen - 3) 0 0 _ st (Nat.le_refl _) (by omega)

/-- the schedules the harness drives (destination sizes × amounts delivered) always satisfy the contract, so
    every `rd` case of the correspondence run lies inside the theorems above -/
theorem schedule_in_contract (stale : Nat) (input : List Nat) (sched : List (Nat × Nat)) :
    ReadContract (schedule stale input sched) :=
  schedule_contract stale sched input

/-- unsyncReader.Read (ID3v2): never faults, whether or not the state survives a call … -/
theorem unsync_read_total (carry ff : Bool) (calls : List ReadCall) (h : ReadContract calls) :
    ∃ out, unsyncReads carry ff calls = .ok out :=
  ⟨_, unsyncReads_ok carry calls ff h⟩

/-- … computing the specification of every chunk on its own … -/
theorem unsync_is_per_chunk (carry ff : Bool) (calls : List ReadCall) (h : ReadContract calls) :
    unsyncReads carry ff calls = .ok (unsyncChunked carry ff calls) :=
  unsyncReads_ok carry calls ff h

/-- … which is the specification of the whole payload IF the state were carried (pointer receiver) … -/
theorem unsync_chunk_independent_if_carried (ff : Bool) (calls : List ReadCall) (h : ReadContract calls) :
    unsyncReads true ff calls = .ok (unsyncSpec ff (payload calls)) := by
  rw [unsyncReads_ok true calls ff h, unsyncChunked_carry]; rfl

/-- … but the code as it is (value receiver, `unsyncCarriesState = false`) is NOT chunk independent: ff 00 in one
    Read loses the 00, ff | 00 over two Reads keeps it.  Replayed on fq: an ID3v2.4 frame with the unsync flag and
    ff 00 at data offsets 511/512 decodes to 600 bytes instead of 599.  Not a runtime fault: outside C06. -/
theorem unsync_not_chunk_independent :
    unsyncCarriesState = false ∧
    payload [⟨2, [255, 0], []⟩] = payload [⟨1, [255], []⟩, ⟨1, [0], []⟩] ∧
    unsyncReads unsyncCarriesState false [⟨2, [255, 0], []⟩] = .ok [255] ∧
    unsyncReads unsyncCarriesState false [⟨1, [255], []⟩, ⟨1, [0], []⟩] = .ok [255, 0] := by
  decide

/-- bzip2's bitFlipReader.Read: in range for every call inside the contract; it returns the count unchanged and the
    bit-reversed bytes (and, having no `p[0:n]`, would fault at `p[len p]` on a count beyond the destination) -/
theorem bitflip_read_total (c : ReadCall) (h : c.bs.length ≤ c.plen) :
    bitflipRead c = .ok ((c.bs.length : Int), c.bs.map reverse8) := by
  unfold bitflipRead
  rw [bitflipLoop_ok c.plen c.bs 0 (by omega)]; rfl

theorem bitflip_needs_contract : bitflipRead ⟨2, [1, 2, 3], []⟩ = .panic idxFault ∧
    bitflipRead ⟨3, [1, 128, 165], []⟩ = .ok (3, [128, 1, 165]) := by decide

/-- non-vacuity: contracts that hold for non-trivial schedules (short reads, a full read, an empty read) -/
example : ReadContract [⟨512, List.replicate 509 17 ++ [0, 0, 3], []⟩, ⟨515, [1, 2, 3], List.replicate 512 0⟩, ⟨4, [], [1, 2, 3, 4]⟩] := by
  intro c hc
  simp only [List.mem_cons, List.not_mem_nil, or_false] at hc
  rcases hc with rfl | rfl | rfl
  · simp only [List.length_append, List.length_replicate]; decide
  · decide
  · decide
example : ∀ c ∈ [(⟨5, [1, 0, 0, 3], [9]⟩ : ReadCall)], c.bs.length < c.plen := by
  intro c hc; simp at hc; subst hc; decide
example : (3 : Nat) ≤ 512 ∧ (17 : Nat) ≠ 3 := by decide
example : payload [⟨2, [0, 0], []⟩, ⟨2, [3, 1], []⟩] = payload [⟨4, [0, 0, 3, 1], []⟩] := by decide

end ReadChunks

end Props.C06
