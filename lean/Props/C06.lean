import FqModel.Recover
import Proofs.C06
/-!
  C06 — "no input makes a decoder crash fq".  Claimed PARTIAL (manifest category `other`).

  Full statement: for every registered format / the probe group g, every byte string x and both values
  of Options.Force, `decode.Decode` returns a tree (maybe partial, with the error attached) or a
  reported error, and never leaves through a Go runtime fault or another unrecovered panic.

  What is proved here (for ALL groups, inputs, integer arguments — kernel checked):
    * `recover_exact`, `recover_recovers`   recoverfn.Run re-panics exactly the non-RecoverableErrorer values
    * `decode_total`                       if every DecodeFn of the group raises only recoverable values,
                                           decode() never panics — for every input and Force
    * `decode_panic_sound`                 conversely a panic out of decode() is a non-recoverable value
                                           raised by one of the group's DecodeFns (nothing else can panic)
    * `decode_shape`                       the (tree | partial tree | formats error) shape the harness observes
    * `core_only_recoverable_partial`      the modelled primitives of pkg/decode that check their argument
                                           raise only IOError/DecoderError for EVERY integer argument
    * `core_only_recoverable_false` + four witnesses: the FULL core statement (every primitive, every
      argument) is FALSE of the current tree — D.Bits/D.BytesLen/D.PeekBytes/D.BytesRange allocate from the
      argument before checking it (negative or > 2^48 → runtime makeslice panic) and D.AlignBits(0) divides
      by zero; these are known findings replayed through the harness-registered decoder `verif_c06`;
      `core_unsafe_in_range` is what does hold for them.

  What is NOT proved (hypothesis `OnlyRecoverable f` for the 132 real DecodeFns — their own index
  arithmetic, map lookups, type assertions and allocations are ≈ 60 k lines of Go that are not modelled):
  validated by enumeration only (harness/cmd/c06: the mutation family around the corpus × formats ×
  force), with every runtime fault found recorded in known_findings.json.
-/
namespace Props.C06
open FqModel.Recover Proofs.C06

/-! ### recoverfn.Run -/

/-- the panic goes on exactly when the function raised a value that is not recoverable -/
theorem recover_exact {α : Type} (f : Outcome α) (v : PanicV) :
    recoverRun f = .repanic v ↔ f = .panic v ∧ ¬ v.recoverable = true := by
  rw [recoverRun_repanic]; simp

/-- and it is turned into a returned error exactly when it is one of IOError/DecoderError/FormatsError -/
theorem recover_recovers {α : Type} (f : Outcome α) (v : PanicV) :
    recoverRun f = .recovered v ↔ f = .panic v ∧ (v = .ioError ∨ v = .decoderError ∨ v = .formatsError) := by
  rw [recoverRun_recovered]
  constructor
  · rintro ⟨h, hv⟩
    refine ⟨h, ?_⟩
    cases v <;> simp_all [PanicV.recoverable]
  · rintro ⟨h, hv⟩
    refine ⟨h, ?_⟩
    rcases hv with hv | hv | hv <;> subst hv <;> rfl

/-- a runtime fault is never swallowed -/
theorem recover_never_hides_runtime {α : Type} (why : String) :
    recoverRun (.panic (.runtime why) : Outcome α) = .repanic (.runtime why) := rfl

/-! ### decode() -/

/-- H ⇒ never a panic: every input, Force on or off (Force is part of `Input`) -/
theorem decode_total (g : List Decoder) (h : ∀ f ∈ g, OnlyRecoverable f) :
    ∀ (x : Input) (v : PanicV), decodeGroup g x ≠ .panic v := by
  intro x v hp
  obtain ⟨f, hf, hfx, hv⟩ := decodeLoop_panic _ _ _ _ _ _ hp
  have := h f hf x v hfx
  simp [hv] at this

/-- non-vacuity: a two-format group whose members really fail (recoverably) on some inputs satisfies the
    hypothesis, and its decode of the empty input is a formats error listing both -/
def exDecA : Decoder := fun x => if x.bytes.length < 4 then .panic .ioError else .ok ()
def exDecB : Decoder := fun x => if x.force then .ok () else .panic .decoderError
example : ∀ f ∈ [exDecA, exDecB], OnlyRecoverable f := by
  intro f hf x v hv
  simp at hf
  rcases hf with hf | hf <;> subst hf <;> simp [exDecA, exDecB] at hv <;> split at hv <;> simp at hv <;> subst hv <;> rfl
example : decodeGroup [exDecA, exDecB] ⟨[], false⟩ = .formatsErr [(0, .ioError), (1, .decoderError)] := by decide
example : decodeGroup [exDecA, exDecB] ⟨[], true⟩ = .tree 1 [(0, .ioError)] := by decide
example : decodeGroup [exDecA] ⟨[1], true⟩ = .treeWithErr 0 .ioError := by decide

/-- the same, in the form "the result is one of the three documented shapes" -/
theorem decode_total_shapes (g : List Decoder) (h : ∀ f ∈ g, OnlyRecoverable f) (x : Input) :
    (∃ i errs, decodeGroup g x = .tree i errs) ∨ (∃ i e, decodeGroup g x = .treeWithErr i e) ∨
      (∃ errs, decodeGroup g x = .formatsErr errs) := by
  cases hd : decodeGroup g x with
  | tree i errs => exact .inl ⟨i, errs, rfl⟩
  | treeWithErr i e => exact .inr (.inl ⟨i, e, rfl⟩)
  | formatsErr errs => exact .inr (.inr ⟨errs, rfl⟩)
  | panic v => exact absurd hd (decode_total g h x v)

/-- soundness of the hypothesis: nothing but a DecodeFn's own non-recoverable panic leaves decode() -/
theorem decode_panic_sound (g : List Decoder) (x : Input) (v : PanicV) (h : decodeGroup g x = .panic v) :
    ∃ f ∈ g, f x = .panic v ∧ ¬ v.recoverable = true := by
  obtain ⟨f, hf, hfx, hv⟩ := decodeLoop_panic _ _ _ _ _ _ h
  exact ⟨f, hf, hfx, by simp [hv]⟩

/-- the hypothesis is needed: a runtime fault in the first format tried goes straight through -/
theorem decode_propagates (rest : List Decoder) (x : Input) (why : String) :
    decodeGroup ((fun _ => .panic (.runtime why)) :: rest) x = .panic (.runtime why) := by
  simp [decodeGroup, decodeLoop, recoverRun, PanicV.recoverable]

/-- what the harness observes (`tree|partial|error / n / k / i / v`): a tree's format index equals the
    number of collected errors and is inside the group; a partial tree only for a single-format group;
    no tree means one error per format -/
theorem decode_shape (g : List Decoder) (x : Input) :
    match decodeGroup g x with
    | .tree i errs => i = errs.length ∧ i < g.length
    | .treeWithErr i _ => g.length = 1 ∧ i = 0
    | .formatsErr errs => errs.length = g.length
    | .panic _ => True := by
  have h := decodeLoop_shape (g.length == 1) x g 0 [] rfl
  unfold decodeGroup
  cases hd : decodeLoop (g.length == 1) x g 0 [] with
  | tree i errs => rw [hd] at h; simp at h ⊢; omega
  | treeWithErr i e => rw [hd] at h; simp at h ⊢; omega
  | formatsErr errs => rw [hd] at h; simpa using h
  | panic v => trivial

/-- single-format group (fq -d FORMAT): a recoverable failure always yields the partial tree with the
    error attached — never "no tree" -/
theorem decode_single_partial (f : Decoder) (x : Input) (v : PanicV) (hf : f x = .panic v)
    (hv : v.recoverable = true) : decodeGroup [f] x = .treeWithErr 0 v := by
  simp [decodeGroup, decodeLoop, recoverRun, hf, hv]

/-! ### the decode core -/

/-- the buffer is not absurdly long (a length that an allocation bounded by it cannot overflow): fq's
    inputs are files or in-memory buffers -/
def BufOK (s : St) : Prop := s.left ≤ 8 * maxAlloc

example : BufOK { len := 800, pos := 3, force := false } := by simp [BufOK, St.left, maxAlloc]

theorem onlyRec_ok {α : Type} (a : α) : OnlyRec (.ok a : Outcome α) := by intro v hv; simp at hv
theorem onlyRec_io {α : Type} : OnlyRec (.panic .ioError : Outcome α) := by
  intro v hv; simp at hv; subst hv; rfl
theorem onlyRec_dec {α : Type} : OnlyRec (.panic .decoderError : Outcome α) := by
  intro v hv; simp at hv; subst hv; rfl

/-- every modelled primitive that checks its argument raises only recoverable errors for EVERY integer
    argument (negative, zero, beyond the buffer, near ±2^63), every position and both Force values.

    FULL statement (`∀ p s a, OnlyRec (corePrim p s a)`) is false: `core_only_recoverable_false`. -/
theorem core_only_recoverable_partial (p : Prim) (hp : p.unsafeArg = false) (s : St) (hs : BufOK s) (a : Int) :
    OnlyRec (corePrim p s a) := by
  cases p <;> simp [Prim.unsafeArg] at hp <;> simp only [corePrim]
  · exact onlyRec_ok _
  · exact must_onlyRec _ (fun w => tryUintBits_nofault _ _ w)
  · exact must_onlyRec _ (fun w => tryU_nofault _ _ w)
  · exact must_onlyRec _ (fun w => tryBitBufLen_nofault _ _ w)
  · exact must_onlyRec _ (fun w => trySeekAbs_nofault _ _ w)
  · exact must_onlyRec _ (fun w => trySeekAbs_nofault _ _ w)
  · -- framed
    split
    · exact onlyRec_dec
    · split
      · rename_i v h; intro v' hv'; simp at hv'; subst hv'; exact rangeFn_onlyRec _ _ _ _ h
      · exact must_onlyRec _ (fun w => trySeekAbs_nofault _ _ w)
  · -- limited
    split
    · exact onlyRec_dec
    · split
      · rename_i v h; intro v' hv'; simp at hv'; subst hv'; exact rangeFn_onlyRec _ _ _ _ h
      · exact must_onlyRec _ (fun w => trySeekAbs_nofault _ _ w)
  · exact rangeFn_onlyRec _ _ _
  · exact must_onlyRec _ (fun w => tryText_nofault _ _ w hs)
  · -- bitbufrange
    apply must_onlyRec
    intro w
    split
    · simp
    · simp
    · rename_i w' h; exact absurd h (bitioxRange_nofault _ _ _ _)
  · -- structn
    repeat' split
    · exact onlyRec_ok _
    · exact onlyRec_io
    · exact onlyRec_ok _
  · split
    · exact onlyRec_ok _
    · exact onlyRec_dec
  · exact onlyRec_dec
  · exact onlyRec_io
  · repeat' split
    · exact onlyRec_ok _
    · exact onlyRec_dec
    · exact onlyRec_ok _
  · repeat' split
    · exact onlyRec_ok _
    · exact onlyRec_dec
    · exact onlyRec_ok _

/-! ### the known findings of the core: the full statement is false of the current tree -/

def s4 : St := { len := 32, pos := 0, force := false }

/-- D.BytesLen(-1): `make([]byte, nBytes)` before any check (decode.go:576) — runtime makeslice panic -/
theorem bytesLen_negative_faults : corePrim .byteslen s4 (-1) = .panic (.runtime "makeslice-out-of-range") := by
  decide

/-- D.BytesLen(2^48+1), D.PeekBytes likewise: beyond runtime.maxAlloc — runtime makeslice panic
    (and for 2^31 … 2^48 the allocation is attempted: memory exhaustion, counted as `resource`) -/
theorem bytesLen_huge_faults :
    corePrim .byteslen s4 (maxAlloc + 1) = .panic (.runtime "makeslice-out-of-range") ∧
    corePrim .peekbytes s4 (maxAlloc + 1) = .panic (.runtime "makeslice-out-of-range") := by
  decide

/-- D.Bits(n) for n > 8·2^48: SharedReadBuf allocates the whole request first (decode.go:392) -/
theorem bits_huge_faults : corePrim .bits s4 (1152921504606846976) = .panic (.runtime "makeslice-out-of-range") := by
  decide

/-- D.BytesRange(pos, n) rejects n < 0 but allocates n > 2^48 (decode.go:559) -/
theorem bytesRange_huge_faults :
    corePrim .bytesrange s4 (maxAlloc + 1) = .panic (.runtime "makeslice-out-of-range") := by
  decide

/-- D.AlignBits(0): `pos % int64(nBits)` (decode.go:695) — integer divide by zero -/
theorem alignBits_zero_faults : corePrim .alignbits s4 0 = .panic (.runtime "integer-divide-by-zero") := by
  decide

/-- so the full core statement does not hold on the current tree -/
theorem core_only_recoverable_false : ¬ (∀ (p : Prim) (s : St) (a : Int), BufOK s → OnlyRec (corePrim p s a)) := by
  intro h
  have := h .byteslen s4 (-1) (by simp [BufOK, St.left, maxAlloc, s4]) _ bytesLen_negative_faults
  simp [PanicV.recoverable] at this

/-- what does hold for the allocating primitives: arguments in the range a decoder can justify
    (non-negative and at most 2^48 bytes; a non-zero alignment) raise only recoverable errors -/
theorem core_unsafe_in_range (p : Prim) (s : St) (a : Int) (h0 : 0 ≤ a) (h1 : a ≤ maxAlloc) (hz : a ≠ 0) :
    OnlyRec (corePrim p s a) ∨ p.unsafeArg = false := by
  cases p
  all_goals (first | (right; rfl) | left)
  all_goals
    simp only [corePrim]
    apply must_onlyRec
    intro w
  · -- bits
    unfold tryBits
    have : bitsByteCount a ≤ maxAlloc := by
      unfold bitsByteCount; split <;> simp [maxAlloc] at h1 ⊢ <;> omega
    have hb0 := bitsByteCount_nonneg a h0
    have hm : makesliceFault (bitsByteCount a) = false := by
      simp [makesliceFault]; omega
    repeat' split
    all_goals simp_all
  · -- byteslen
    exact tryBytesLen_nofault _ _ _ (by simp [makesliceFault]; omega)
  · -- bytesrange
    exact tryBytesRange_nofault _ _ _ _ (by simp [makesliceFault]; omega)
  · -- peekbytes
    have := tryBytesLen_nofault s a
    split
    · simp
    · simp
    · rename_i w' h; exact absurd h (this w' (by simp [makesliceFault]; omega))
  · -- alignbits
    unfold tryAlignBits; simp [hz]

example : OnlyRec (corePrim .byteslen s4 5) := by
  have := core_unsafe_in_range .byteslen s4 5 (by decide) (by decide) (by decide)
  simpa [Prim.unsafeArg] using this

/-- the FULL core statement holds for the repaired core (the specification of the proposed patch) -/
theorem core_repaired_only_recoverable (p : Prim) (s : St) (a : Int) : OnlyRec (corePrimRepaired p s a) := by
  intro v hv
  unfold corePrimRepaired at hv
  split at hv
  · split at hv
    · simp at hv; subst hv; rfl
    · simp at hv
  · split at hv
    · simp at hv; subst hv; rfl
    · split at hv
      · simp at hv; subst hv; rfl
      · rename_i o hne
        cases v with
        | runtime w => exact absurd hv (hne w)
        | _ => rfl
  · split at hv
    · simp at hv; subst hv; rfl
    · rename_i o hne
      cases v with
      | runtime w => exact absurd hv (hne w)
      | _ => rfl

/-- Errorf is a no-op exactly under Options.Force (decode.go:372-376); Fatalf and IOPanic are not -/
theorem errorf_force (s : St) (a : Int) :
    (corePrim .errorf s a = .ok s ↔ s.force = true) ∧ corePrim .fatalf s a = .panic .decoderError ∧
      corePrim .iopanic s a = .panic .ioError := by
  refine ⟨?_, rfl, rfl⟩
  simp only [corePrim]
  cases s.force <;> simp

end Props.C06
