import FqModel.JqEnv
import FqModel.Gen.Overrides
import Proofs.C07
import FqModel.JsonStr
import Proofs.C07Json
import FqModel.TryWrap
import Proofs.C07Wrap
import FqModel.C07Enc
import Proofs.C07Enc
import Proofs.C07Strip
import Proofs.C07Num
import FqModel.C07Own
import Proofs.C07Own
/-!
  C07 — standard jq programs behave in fq as in the reference jq engine   (claimed PARTIAL, category `other`)

  Full statement: on ordinary JSON inputs, any program written in standard jq produces in fq the same
  sequence of output values, and succeeds or fails at the same point, as the reference jq engine that fq
  embeds; fq's own definitions and its overloaded built-ins do not change standard behaviour.

  The reference (gojq) is itself a Go artefact, so agreement is established DIFFERENTIALLY (harness c07:
  generated programs × generated inputs, fq in-process vs the gojq library). What is logic and fq-owned is
  modelled (FqModel/JqEnv.lean) and proved here:

  (A) REGENERATED FACTS (FqModel/Gen/Overrides.lean, rewritten from the .jq sources and the gojq module by
      /verif/extract/c07overrides on every run; cross-checked against the gojq PARSER and the real load
      order by harness c07 -facts + Drv/C07.lean):
        `gen_overrides_ok`   every fq definition that shadows a gojq builtin is either GUARDED
                             (`_binary_or_orig(bfn; _orig_f(params))` with an `_orig_f` capture that precedes
                             every fq definition of f) or on the justified list `reimplemented`;
        `gen_helpers_ok`     `_binary_or_orig` / `_bytes_or_orig` have exactly the guard shape, `_exttype` is
                             not redefined;
        `gen_skeleton_ok`    in the regenerated environment slice every guarded override satisfies the
                             side conditions of `override_transparent` (positions, lookups);
        `gen_quote_class_ok` `_re_quote_meta`'s class contains every RE2 metacharacter, only punctuation;
        `gen_encoders_equal` the string-escaping table and loop of fq's JSON encoder are the reference's;
        `gen_encoder_table_ok` that table escapes every byte to a JSON text meaning that byte.
  (B) MODEL THEOREMS, for all environments / values / arguments / fuel:
        `guarded_transparent`, `guarded_transparent_evals`, `orig_captures_builtin`, `orig_call_is_builtin`,
        `override_transparent`, `gen_overrides_transparent`, `reQuoteMeta_literal`,
        `gen_reQuoteMeta_literal`, `escape_roundtrip`, `gen_tojson_string_equals_reference`,
        `gen_tojson_string_roundtrip`, `gen_tojson_string_injective`, `tryterm_parse_print`,
        `wrap_preserves_program`, `wrapBare_preserves_closed_program`, `wrapBare_captures_handler`.
  (C) THE JSON TEXT LAYER on transliterations of BOTH sides (FqModel/C07Enc.lean: fq's colorjson, gojq's library
      encoder, gojq's command encoder; `fromjson`'s number decision and framing), for all values / tokens:
        `tojson_agrees`, `float_clamp_agrees`, `indent_is_reference_command`, `indent_strip_is_compact`,
        `gen_table_string_safe`, `write_indent_exact`, `key_order_unique`, `fromjson_number_agrees`,
        `normalizeNumber_spec`, `number_grammar_roundtrip`, `fromjson_framing_agrees`;
      tied to the code by run `enc` (both REAL sides on the same inputs, both predicted by the models).
  NOT proved (the PARTIAL part): that gojq's compiler/VM implement the modelled scoping, the standard library
  both sides share (strconv, encoding/json's tokenizer, utf8), and the rest that is not the override layer or
  the text layer (regex engine, split/2 via splits, debug/stderr via fq's stdio, fromjson's RESULT being a
  decode value) — differential only.
-/
namespace Props.C07
open FqModel FqModel.JqEnv Proofs.C07
open FqModel.Gen.Overrides (Override Shape SliceDef SliceKind)

/-! ## (B) model theorems -/

/-- the guard is transparent for everything that is not a Binary (one evaluation step) -/
theorem guarded_transparent (S : Sem) (env : Env) (n vis : Nat) (vals : List Val) (bfn orig : Expr) (x : Val)
    (hx : isBinary x = false) :
    eval S env (n + 1) vis vals (guarded bfn orig) x = eval S env n vis vals orig x := by
  simp [guarded, eval, hx]

/-- … and in the big-step reading: the guarded expression and the original have the same results -/
theorem guarded_transparent_evals (S : Sem) (env : Env) (vis : Nat) (vals : List Val) (bfn orig : Expr) (x : Val)
    (hx : isBinary x = false) (r : Out) :
    Evals S env vis vals (guarded bfn orig) x r ↔ Evals S env vis vals orig x r := by
  constructor
  · rintro ⟨n, hn, hr⟩
    cases n with
    | zero => simp [eval] at hn; rw [← hn] at hr; simp at hr
    | succ n => exact ⟨n, by rw [← hn, guarded_transparent S env n vis vals bfn orig x hx], hr⟩
  · rintro ⟨n, hn, hr⟩
    exact ⟨n + 1, by rw [guarded_transparent S env n vis vals bfn orig x hx, hn], hr⟩

/-- only Binary values take the binary arm: decode values and every JSON value are transparent -/
theorem isBinary_iff (x : Val) : isBinary x = true ↔ ∃ p, x = .binary p := by
  cases x with
  | json t p => cases t <;> simp [isBinary, exttype, JType.name]
  | binary p => simp [isBinary, exttype]
  | decodeValue t p => simp [isBinary, exttype]

/-- the capture `def _orig_f(P…): f(P…);` at position c, with no fq definition of f/k at or before c,
    resolves its `f` to the BUILTIN (lexical lookup: the body of definition c sees definitions 0..c) -/
theorem orig_captures_builtin (env : Env) (c : Nat) (f : String) (k : Nat)
    (hbefore : ∀ j, j ≤ c → ∀ d, env[j]? = some d → d.fname ≠ (f, k)) :
    lookup env (c + 1) (f, k) = none :=
  lookup_none env (f, k) (c + 1) (fun j hj d hd => hbefore j (Nat.le_of_lt_succ hj) d hd)

/-- … and a later definition of the same name does not change what the capture sees -/
theorem orig_capture_unaffected_by_later (env extra : Env) (c : Nat) (fn : FName) (hc : c < env.length) :
    lookup (env ++ extra) (c + 1) fn = lookup env (c + 1) fn := by
  have : ∀ v, v ≤ env.length → lookup (env ++ extra) v fn = lookup env v fn := by
    intro v
    induction v with
    | zero => intro _; rfl
    | succ v ih =>
      intro hv
      have hlt : v < env.length := by omega
      unfold lookup
      rw [List.getElem?_append_left hlt, ih (by omega)]
  exact this (c + 1) (by omega)

/-- a call of `_orig_f` IS the builtin f applied to the evaluated arguments -/
theorem orig_call_is_builtin (S : Sem) (env : Env) (n vis : Nat) (vals : List Val) (x : Val)
    (c : Nat) (f : String) (args : List Expr) (d : Def)
    (hd : env[c]? = some d) (hcap : isCaptureDef d f args.length = true)
    (hvis : lookup env vis ("_orig_" ++ f, args.length) = some c)
    (hbuiltin : lookup env (c + 1) (f, args.length) = none) :
    eval S env (n + 3) vis vals (.call ("_orig_" ++ f) args) x
      = applyBuiltin S (f, args.length) x (evalArgs S env (n + 2) vis vals args x) := by
  have hbody : d.body = .call f (vars args.length) := by
    simp [isCaptureDef] at hcap
    exact isCallOfVars_eq _ _ _ hcap.2
  rw [eval_call]
  cases hargs : evalArgs S env (n + 2) vis vals args x with
  | error e => simp [applyBuiltin]
  | ok tuples =>
    simp only [hvis, hd, applyBuiltin]
    apply bindList_congr
    intro t ht
    have hlen := evalArgs_tuple_length S env (n + 2) vis vals args x tuples hargs t ht
    rw [hbody, eval_call, evalArgs_vars S env n (c + 1) t x args.length hlen]
    simp only [vars_length, hbuiltin, bindList_single]

/-- THE OVERRIDE LAYER IS TRANSPARENT: in an environment where f/k is a guarded override (position o) whose
    capture (position c) sees the builtin, a call `f(args)` from a user program on a non-Binary input is the
    builtin f applied to the evaluated arguments. -/
theorem override_transparent (S : Sem) (env : Env) (n : Nat) (vals : List Val) (x : Val)
    (c o : Nat) (f : String) (args : List Expr)
    (hok : overrideOk env c o f args.length = true) (hx : isBinary x = false) :
    eval S env (n + 5) env.length vals (.call f args) x
      = applyBuiltin S (f, args.length) x (evalArgs S env (n + 4) env.length vals args x) := by
  simp only [overrideOk, Bool.and_eq_true, beq_iff_eq] at hok
  obtain ⟨⟨⟨⟨hc, ho⟩, hl1⟩, hl2⟩, hl3⟩ := hok
  cases hdc : env[c]? with
  | none => simp [hdc] at hc
  | some dc =>
    cases hdo : env[o]? with
    | none => simp [hdo] at ho
    | some dov =>
      simp only [hdc] at hc
      simp only [hdo, isGuardedDef, Bool.and_eq_true] at ho
      obtain ⟨_, hbodyo⟩ := ho
      rw [eval_call]
      cases hargs : evalArgs S env (n + 4) env.length vals args x with
      | error e => simp [applyBuiltin]
      | ok tuples =>
        simp only [hl3, hdo, applyBuiltin]
        apply bindList_congr
        intro t ht
        have hlen := evalArgs_tuple_length S env (n + 4) env.length vals args x tuples hargs t ht
        cases hb : dov.body with
        | ifExtBinary bfn e =>
          rw [hb] at hbodyo
          have he : e = .call ("_orig_" ++ f) (vars args.length) := isCallOfVars_eq _ _ _ hbodyo
          have hg := guarded_transparent S env (n + 3) (o + 1) t bfn e x hx
          simp only [guarded] at hg
          rw [hg, he]
          have hcall := orig_call_is_builtin S env n (o + 1) t x c f (vars args.length) dc hdc
            (by simpa [vars_length] using hc) (by simpa [vars_length] using hl2) (by simpa [vars_length] using hl1)
          rw [hcall, evalArgs_vars S env (n + 1) (o + 1) t x args.length hlen]
          simp [applyBuiltin, vars_length, bindList_single]
        | call g as => rw [hb] at hbodyo; simp at hbodyo
        | var i => rw [hb] at hbodyo; simp at hbodyo
        | pipe a b => rw [hb] at hbodyo; simp at hbodyo
        | other id => rw [hb] at hbodyo; simp at hbodyo

/-! ## (A) regenerated facts -/

/-- the justified list of outright re-implementations lives next to the model (FqModel/JqEnv.lean,
    `reimplemented`, entry by entry with the reason) so that the driver — which must build even when a proof
    here is broken — evaluates the same predicate on the harness's own observations -/
abbrev reimplemented : List (String × Nat) := JqEnv.reimplemented

def isGuarded : Shape → Bool
  | .guarded h => h == "_binary_or_orig" || h == "_bytes_or_orig"
  | .other => false

/-- A NEW unguarded shadowing of a builtin (say `def ascii_downcase: .;`), a guard whose arms are swapped, a guard
    whose `_orig_` call does not pass the parameters on unchanged, a missing/late/duplicated capture: each makes
    the extractor classify the definition as `other`, and this obligation fails unless the name is listed. -/
theorem gen_overrides_ok :
    ∀ o ∈ Gen.overrides, isGuarded o.shape = true ∨ (o.name, o.arity) ∈ reimplemented := by decide

/-- conversely every listed re-implementation exists (the list cannot silently go stale), and no listed
    name is guarded -/
theorem reimplemented_all_present :
    ∀ r ∈ reimplemented, ∃ o ∈ Gen.overrides, (o.name, o.arity) = r ∧ o.shape = .other := by decide

theorem gen_helpers_ok :
    Gen.Overrides.binaryOrOrigOk = true ∧ Gen.Overrides.bytesOrOrigOk = true := by decide

/-- every guarded override has its capture strictly before it, and no fq definition of the same
    name/arity at or before the capture (the hypothesis of `orig_captures_builtin`, on the regenerated data) -/
theorem gen_orig_captures :
    ∀ o ∈ Gen.overrides, isGuarded o.shape = true →
      ∃ c, o.origSeq = some c ∧ c < o.seq ∧
        (∀ s ∈ Gen.Overrides.envSlice, s.seq ≤ c → (s.name, s.arity) ≠ (o.name, o.arity)) ∧
        (∃ s ∈ Gen.Overrides.envSlice, s.seq = c ∧ s.name = "_orig_" ++ o.name ∧ s.arity = o.arity ∧ s.kind = .capture o.name) := by
  decide

/-- the model environment built from the regenerated slice: captures and guarded overrides get their
    modelled bodies, everything else (helpers, re-implementations) is opaque code -/
def skelDef (i : Nat) (s : SliceDef) : Def :=
  match s.kind with
  | .capture t => ⟨s.name, s.arity, .call t (vars s.arity)⟩
  | .guardedOverride => guardedDef s.name s.arity (.other i)
  | .plain => ⟨s.name, s.arity, .other i⟩

def skelEnv : Env := (List.range Gen.Overrides.envSlice.length).zipWith skelDef Gen.Overrides.envSlice

def sliceIndex (seq : Nat) : Option Nat := Gen.Overrides.envSlice.findIdx? (·.seq == seq)

def skeletonOkFor (o : Override) : Bool :=
  match o.shape, o.origSeq with
  | .guarded _, some cs =>
    (match sliceIndex cs, sliceIndex o.seq with
     | some c, some oi => overrideOk skelEnv c oi o.name o.arity
     | _, _ => false)
  | .guarded _, none => false
  | .other, _ => true

theorem gen_skeleton_ok : ∀ o ∈ Gen.overrides, skeletonOkFor o = true := by decide

/-- For the definition environment fq really has (as far as the override layer goes): a user program's call of
    any guarded override — explode, split/1, splits, test, match, capture, scan (each arity) — on a non-Binary input is
    the gojq builtin of that name applied to the evaluated arguments. -/
theorem gen_overrides_transparent (S : Sem) (n : Nat) (vals : List Val) (x : Val) (hx : isBinary x = false)
    (o : Override) (ho : o ∈ Gen.overrides) (hg : isGuarded o.shape = true)
    (args : List Expr) (hargs : args.length = o.arity) :
    eval S skelEnv (n + 5) skelEnv.length vals (.call o.name args) x
      = applyBuiltin S (o.name, o.arity) x (evalArgs S skelEnv (n + 4) skelEnv.length vals args x) := by
  have hs := gen_skeleton_ok o ho
  unfold skeletonOkFor at hs
  cases hsh : o.shape with
  | other => rw [hsh] at hg; simp [isGuarded] at hg
  | guarded h =>
    rw [hsh] at hs
    cases hos : o.origSeq with
    | none => rw [hos] at hs; simp at hs
    | some cs =>
      rw [hos] at hs
      simp only at hs
      cases hc : sliceIndex cs with
      | none => rw [hc] at hs; simp at hs
      | some c =>
        cases hoi : sliceIndex o.seq with
        | none => rw [hc, hoi] at hs; simp at hs
        | some oi =>
          rw [hc, hoi] at hs
          simp only at hs
          rw [← hargs] at hs ⊢
          exact override_transparent S skelEnv n vals x c oi o.name args hs hx

/-! ## literal split (the Binary arm of split/1 since 2e7d2332; all of split/1 before): `_re_quote_meta` -/

/-- if the class contains every RE2 metacharacter and only punctuation, the quoted string read as an RE2
    pattern is exactly the literal string -/
theorem reQuoteMeta_literal (cls : List Nat) (hmeta : ∀ c ∈ re2Meta, c ∈ cls) (hpunct : ∀ c ∈ cls, isPunct c = true)
    (s : List Nat) : readLiteral (quoteMeta cls s) = some s := by
  induction s with
  | nil => rfl
  | cons c rest ih =>
    by_cases hc : c ∈ cls
    · simp [quoteMeta, hc, readLiteral, hpunct c hc, ih]
    · have hnm : c ∉ re2Meta := fun h => hc (hmeta c h)
      have h92 : c ≠ 92 := by
        intro h; subst h; exact hnm (by decide)
      have hq : quoteMeta cls (c :: rest) = c :: quoteMeta cls rest := by simp [quoteMeta, hc]
      rw [hq, readLiteral.eq_def]
      simp [h92, hnm, ih]

theorem gen_quote_class_ok :
    Gen.Overrides.quoteMetaShapeOk = true ∧ (∀ c ∈ re2Meta, c ∈ Gen.Overrides.quoteMetaClass) ∧
    (∀ c ∈ Gen.Overrides.quoteMetaClass, isPunct c = true) := by decide

/-- for the class that is in the source now: `s | _re_quote_meta`, as a pattern, is the literal s -/
theorem gen_reQuoteMeta_literal (s : List Nat) : readLiteral (quoteMeta Gen.Overrides.quoteMetaClass s) = some s :=
  reQuoteMeta_literal _ gen_quote_class_ok.2.1 gen_quote_class_ok.2.2 s

/-- the class before fix 1315946d (no backslash, a stray second `)`): `\d` was not read as a literal — the
    defect the differential run found (`"1e3" | split("\\d")`) -/
theorem reQuoteMeta_old_class_witness :
    readLiteral (quoteMeta [46, 43, 42, 63, 40, 41, 124, 91, 93, 123, 125, 94, 36, 41] [92, 100]) ≠ some [92, 100] := by
  decide

/-! ## tojson / @json / display of strings: the escaping of fq's encoder is the reference's, and it is right

  fq replaces `tojson` outright (JqEnv.reimplemented) by its own encoder, internal/colorjson (a fork of gojq's
  encoder.go). For STRINGS — the part of the encoder with a decision table — the two tables are read off the two
  ASTs on every run (FqModel.Gen.Encoder.fq / .gojq: pass-through range and exclusions, every `switch` case with the
  literal it writes, the default `\u00XX`, every `if` in the non-ASCII part, and the printed loop). -/
section Encoder
open FqModel.JsonStr FqModel.Gen.Encoder Proofs.C07Json

/-- fq's encodeString and gojq's are the same table and the same loop text: an extra escape in one of them (say
    U+2028/U+2029 as `\u2028`, or `<` as `\u003c`), a changed case, a different pass-through range — each
    breaks this. -/
theorem gen_encoders_equal : Gen.Encoder.fq = Gen.Encoder.gojq := by decide

/-- hence, for every string (any sequence of ASCII bytes, valid runes and invalid bytes), fq's `tojson` text is
    the reference's -/
theorem gen_tojson_string_equals_reference (s : List Ch) : encode Gen.Encoder.fq s = encode Gen.Encoder.gojq s := by
  rw [gen_encoders_equal]

/-- the escaped text is a well-formed JSON string body that means the original string (an invalid byte means
    U+FFFD), for every table that passes the decidable check `tableOk` -/
theorem escape_roundtrip (t : Esc) (ht : tableOk t = true) (s : List Ch) (hwf : ∀ ch ∈ s, Ch.wf ch) :
    unescape (encode t s) = some (s.map Ch.value) :=
  encode_roundtrip t ht s hwf

theorem gen_encoder_table_ok : tableOk Gen.Encoder.fq = true := by decide

/-- `tojson | fromjson` is the identity on strings, as far as escaping goes, for the encoder in the source now -/
theorem gen_tojson_string_roundtrip (s : List Ch) (hwf : ∀ ch ∈ s, Ch.wf ch) :
    unescape (encode Gen.Encoder.fq s) = some (s.map Ch.value) :=
  escape_roundtrip _ gen_encoder_table_ok s hwf

/-- escaping is injective on well-formed strings without invalid bytes: different strings, different texts -/
theorem gen_tojson_string_injective (s₁ s₂ : List Ch) (h₁ : ∀ ch ∈ s₁, Ch.wf ch) (h₂ : ∀ ch ∈ s₂, Ch.wf ch)
    (h : encode Gen.Encoder.fq s₁ = encode Gen.Encoder.fq s₂) : s₁.map Ch.value = s₂.map Ch.value := by
  have e₁ := gen_tojson_string_roundtrip s₁ h₁
  have e₂ := gen_tojson_string_roundtrip s₂ h₂
  rw [h] at e₁
  exact Option.some.inj (e₁.symm.trans e₂)

/-- non-vacuity: `"a\"\n\u0001é` + an invalid byte -/
example : encode Gen.Encoder.fq [.ascii 97, .ascii 34, .ascii 10, .ascii 1, .rune 233, .bad]
    = [97, 92, 34, 92, 110, 92, 117, 48, 48, 48, 49, 233, 92, 117, 102, 102, 102, 100] := by decide
/-- a table that escapes U+2028 differently from the reference is a different table (the seeded change
    S2-C07-1 in miniature): the equality obligation distinguishes it -/
example : ({ Gen.Encoder.gojq with nonAscii := Gen.Encoder.gojq.nonAscii ++ [("c == '\u2028' || c == '\u2029'", "\\u202")] } : Esc)
    ≠ Gen.Encoder.gojq := by decide
end Encoder

/-! ## the CLI's wrap `try (PROG) catch <reporter>` does not change PROG

  `fq EXPR` evaluates `try (EXPR) catch _cli_eval_on_expr_error` (eval.jq:41-52: the AST is printed and parsed
  again). In the grammar fragment that matters (FqModel/TryWrap.lean: atoms, parentheses, try with optional catch,
  a `catch` belongs to the nearest open `try`) printing then parsing gives the tree back iff no try-with-catch has
  a body that ends in a catch-less try. fq's wrap always parenthesises, so the wrapped program survives whatever
  PROG is; WITHOUT the parentheses a PROG that is `try BODY` captures the reporter as its own catch.
  (Overlaps C11 — "the internal query rewrite preserves the user's program" — which states it on the rewrite's
  AST; here it is the user-visible consequence for standard programs, checked by the CLI mode of harness c07 and
  the `wrap` lines of the facts run.) -/
section Wrap
open FqModel.TryWrap Proofs.C07Wrap

/-- print then parse is the identity on terms without a dangling catch -/
theorem tryterm_parse_print (t : Tm) (hnd : noDangling t = true) : parseAll (print t) = some t :=
  parseAll_print t hnd (Nat.le_succ_of_le (size_le_length t))

/-- fq's wrap is safe for EVERY program (that is itself unambiguous) and every handler -/
theorem wrap_preserves_program (prog handler : Tm) (hp : noDangling prog = true) (hh : noDangling handler = true) :
    parseAll (print (wrap prog handler)) = some (wrap prog handler) :=
  tryterm_parse_print _ (by simp [wrap, noDangling, hp, hh, endsOpen])

/-- the bare wrap is safe exactly as long as the program does not end in a catch-less try … -/
theorem wrapBare_preserves_closed_program (prog handler : Tm) (hp : noDangling prog = true) (hh : noDangling handler = true)
    (hclosed : endsOpen prog = false) :
    parseAll (print (wrapBare prog handler)) = some (wrapBare prog handler) :=
  tryterm_parse_print _ (by simp [wrapBare, noDangling, hp, hh, hclosed])

/-- … and for `try BODY` it is WRONG: the text `try try BODY catch H` is read as `try (try BODY catch H)` — the
    user's try has acquired fq's reporter as its catch (seeded change S3-C07-1) -/
theorem wrapBare_captures_handler :
    parseAll (print (wrapBare (.tryn (.atom 0)) (.atom 1))) = some (.tryn (.tryc (.atom 0) (.atom 1))) ∧
    parseAll (print (wrapBare (.tryn (.atom 0)) (.atom 1))) ≠ some (wrapBare (.tryn (.atom 0)) (.atom 1)) := by decide

example : noDangling (wrap (.tryn (.tryc (.atom 0) (.tryn (.atom 1)))) (.atom 2)) = true := by decide
example : parseAll (print (wrap (.tryn (.atom 0)) (.atom 1))) = some (wrap (.tryn (.atom 0)) (.atom 1)) := by decide
end Wrap

/-! ## the JSON TEXT layer: fq's encoder against the reference's two encoders, and `fromjson`'s numbers

  fq re-implements `tojson` and prints EVERY value through its own encoder (internal/colorjson, a copy of the
  encoder of gojq's command); the reference engine uses gojq's encoder.go, the reference command cli/encoder.go.
  FqModel/C07Enc.lean transliterates all three (strings: the escaping tables read off the ASTs, JsonStr; indentation
  writer and integer formatting: C10Json, reused) over Go values as the engines see them — byte strings incl.
  invalid UTF-8, `int` / `*big.Int` of any size, floats by bit pattern, maps in any iteration order, unbounded
  nesting. `af` is strconv.AppendFloat, a shared parameter. Tied to the code by run `enc` of harness c07: both REAL
  encoders (and the real cli/encoder.go) on the same values, both predicted by these models. -/
section TextLayer
open FqModel.C07Enc Proofs.C07Enc

/-- the two ways of writing the clamp to ±MaxFloat64 (`if f >= Max … else if f <= -Max …` in fq, `min(max(f, -Max),
    Max)` with Go's builtin min/max in gojq) agree on every bit pattern -/
theorem float_clamp_agrees (f : Nat) : Fq.clamp f = Gojq.clamp f := clamp_agrees f

/-- `tojson` / `fq -c` / `@json`: for EVERY value, fq's compact text (whatever `Tab` says) is the reference
    engine's — strings for all byte strings (by `gen_encoders_equal`, the regenerated tables), integers of any
    size, floats (NaN → null, ±Inf → ±MaxFloat64, the rest through the shared strconv), key order, separators,
    nesting of any depth -/
theorem tojson_agrees (af : Nat → Bool → List Nat) (tab : Bool) (v : JV) :
    Fq.marshal Gen.Encoder.fq af tab 0 v = Gojq.marshal Gen.Encoder.gojq af v := by
  unfold Fq.marshal Gojq.marshal
  rw [gen_encoders_equal]
  exact compact_eq _ af tab (normalize v) 0

/-- the indented form (`fq` without `-c`: Indent 2; `tojson($opts)`: any n) is EXACTLY what the reference COMMAND's
    encoder writes for `--indent n` / `--tab` (gojq cli.go:399-407; the command itself accepts 0..7): this is the
    law fq's display must satisfy, for every value, indent and tab setting -/
theorem indent_is_reference_command (af : Nat → Bool → List Nat) (tab : Bool) (n : Nat) (v : JV) :
    Fq.marshal Gen.Encoder.fq af tab n v = GojqCli.marshal Gen.Encoder.gojq af tab n v := by
  unfold Fq.marshal GojqCli.marshal
  rw [gen_encoders_equal]
  exact cli_eq _ af tab n (normalize v) 0

/-- `writeIndent` — the loop that doubles the indentation by copying the tail of the buffer — writes a line feed and
    exactly `depth` tabs/spaces, for every depth (beyond the 32-space / 16-tab constants too) -/
theorem write_indent_exact (tab : Bool) (depth : Nat) :
    nl tab depth = 10 :: List.replicate depth (if tab then 9 else 32) := nl_spec tab depth

/-- the regenerated escaping table keeps a JSON reader inside the string: every replacement is ASCII, no bare quote,
    no dangling backslash (a table that wrote `"` for `"` would break this) -/
theorem gen_table_string_safe : Proofs.C07Strip.tableSafe Gen.Encoder.fq = true := by decide

/-- THE WHITE-SPACE LAW: for every value, indent and tab setting, fq's indented text with the insignificant white
    space (outside strings) removed is the reference engine's compact text — the indentation adds nothing but
    line feeds, tabs/spaces and the blank after `:`; blanks INSIDE strings and keys survive. `haf`: strconv writes
    neither white space nor quotes into a number. -/
theorem indent_strip_is_compact (af : Nat → Bool → List Nat)
    (haf : ∀ b e, (af b e).all Proofs.C07Strip.plainCh = true) (tab : Bool) (n : Nat) (v : JV) :
    stripWs (Fq.marshal Gen.Encoder.fq af tab n v) = Gojq.marshal Gen.Encoder.gojq af v := by
  have h := Proofs.C07Strip.strip_encode Gen.Encoder.fq af tab n gen_table_string_safe haf (normalize v) 0 []
  simp only [List.append_nil, strip] at h
  unfold stripWs Fq.marshal Gojq.marshal
  rw [h, gen_encoders_equal]

/-- non-vacuity of `haf` (`1e-07` as strconv writes it) and of the law: `{"a b":[1, " "]}` at `--indent 3` -/
example : ∀ b e, ((fun (_ : Nat) (_ : Bool) => [49, 101, 45, 48, 55]) b e).all Proofs.C07Strip.plainCh = true := by
  intro _ _; show ([49, 101, 45, 48, 55] : List Nat).all Proofs.C07Strip.plainCh = true; decide
example : stripWs (Fq.marshal Gen.Encoder.fq (fun _ _ => []) false 3 (.obj [([97, 32, 98], .arr [.int 1, .str [32]])]))
    = [123, 34, 97, 32, 98, 34, 58, 91, 49, 44, 34, 32, 34, 93, 125] := by decide

/-- KEY ORDER does not depend on the sort algorithm: fq sorts with slices.SortFunc(cmp.Compare), gojq with
    sort.Slice(<) — on the distinct keys of a Go map ANY arrangement that is a permutation of the entries and
    strictly increasing bytewise is the model's `sortKeys` -/
theorem key_order_unique (kvs out : List (List Nat × JV)) (hnd : (kvs.map (·.1)).Nodup)
    (hperm : out.Perm kvs) (hsorted : Sorted out) : out = sortKeys kvs :=
  sorted_perm_unique out (sortKeys kvs) (hperm.trans (sortKeys_perm kvs).symm) hsorted (sortKeys_sorted kvs hnd)

/-- non-vacuity: three distinct keys incl. a prefix pair and a byte ≥ 0x80 -/
example : (sortKeys [([98], .null), ([97, 0], .null), ([0xc3], .null), ([97], .null)]).map (·.1)
    = [[97], [97, 0], [98], [0xc3]] := by decide
example : (([([98], JV.null), ([97, 0], .null), ([0xc3], .null), ([97], .null)] : List (List Nat × JV)).map (·.1)).Nodup := by decide
/-- … and what the three encoders write for `{"b":[1,-2^64,"é\xff"],"a":{}}` (a map iterated b-first), compact and
    `--indent 1` -/
example : Fq.marshal Gen.Encoder.fq (fun _ _ => []) false 0
      (.obj [([98], .arr [.int 1, .big (-18446744073709551616), .str [0xc3, 0xa9, 0xff]]), ([97], .obj [])])
    = [123,34,97,34,58,123,125,44,34,98,34,58,91,49,44,45,49,56,52,52,54,55,52,52,48,55,51,55,48,57,53,53,49,54,49,54,44,
       34,0xc3,0xa9,92,117,102,102,102,100,34,93,125] := by decide
example : GojqCli.marshal Gen.Encoder.gojq (fun _ _ => []) false 1 (.obj [([98], .arr [.null]), ([97], .obj [])])
    = [123,10,32,34,97,34,58,32,123,125,44,10,32,34,98,34,58,32,91,10,32,32,110,117,108,108,10,32,93,10,125] := by decide

/-! ### `fromjson`: number tokens and framing -/
open FqModel.C07Enc.Num

/-- the number conversion of fq's fromjson IS the reference's: format/json/json.go:74 calls gojq.NormalizeNumbers,
    the function funcFromJSON ends with (func.go:920). (Definitional — fq owns only the decoder set-up and the
    framing; what the shared function DOES on every token of the grammar is `normalizeNumber_spec`.) -/
theorem fromjson_number_agrees (ovf : Tok → Bool) (t : Tok) : fqFromJSONNumber ovf t = gojqFromJSONNumber ovf t := rfl

/-- what both return, for EVERY token of the JSON number grammar: an integer literal in the int64 range is an
    `int` with that value (`-0` → 0), an integer literal outside it a big integer with that value (never a float:
    `100000000000000000000` keeps all digits), a literal with a fraction or an exponent a float (`1.0`, `1e2` do NOT
    become integers), unless its magnitude overflows float64 — then ±Inf by its sign (`1e999`) -/
theorem normalizeNumber_spec (ovf : Tok → Bool) (t : Tok) :
    (t.isInt = true → -(2 : Int) ^ 63 ≤ t.intVal → t.intVal < (2 : Int) ^ 63 → normalizeNumber ovf t = .int t.intVal) ∧
    (t.isInt = true → (t.intVal < -(2 : Int) ^ 63 ∨ (2 : Int) ^ 63 ≤ t.intVal) → normalizeNumber ovf t = .big t.intVal) ∧
    (t.isInt = false → ovf t = false → normalizeNumber ovf t = .float) ∧
    (t.isInt = false → ovf t = true → normalizeNumber ovf t = if t.neg then .negInf else .posInf) := by
  refine ⟨?_, ?_, ?_, ?_⟩
  · intro h1 h2 h3; simp [normalizeNumber, h1]; omega
  · intro h1 h2
    have : ¬ (-(2 : Int) ^ 63 ≤ t.intVal ∧ t.intVal < (2 : Int) ^ 63) := by omega
    simp only [normalizeNumber, h1, Bool.true_and, Bool.and_eq_true, decide_eq_true_eq, this, if_false]
    simp
  · intro h1 h2; simp [normalizeNumber, h1, h2]
  · intro h1 h2; simp [normalizeNumber, h1, h2]

/-- the grammar is the one the check enumerates: the reader used by the driver on the REAL tokens (every string
    over `0-9.eE+-` up to length 5 that encoding/json takes as one number, and none of the others) reads every
    well-formed token of any length back from its text -/
theorem number_grammar_roundtrip (t : Tok) (hwf : t.wf = true) : parse t.text = some t :=
  Proofs.C07Num.parse_text t hwf

example : (⟨true, [1, 0], some [0, 5], some (true, 2, [0, 7])⟩ : Tok).wf = true ∧
    (⟨true, [1, 0], some [0, 5], some (true, 2, [0, 7])⟩ : Tok).text = [45, 49, 48, 46, 48, 53, 69, 45, 48, 55] := by decide

/-- the token reader of the driver accepts exactly the texts of well-formed tokens: non-vacuity of the grammar
    (every class: `-0`, `10`, `1.0`, `1e2`, `0E-07`, 2^63, `-1.5e+999`) -/
example : [[45, 48], [49, 48], [49, 46, 48], [49, 101, 50], [48, 69, 45, 48, 55]].map (fun s => (parse s).map (fun t => (t.wf, t.text == s)))
    = [some (true, true), some (true, true), some (true, true), some (true, true), some (true, true)] := by decide
example : (parse [48, 49]).isNone ∧ (parse [49, 46]).isNone ∧ (parse [46, 49]).isNone ∧ (parse [49, 101]).isNone ∧
    (parse [43, 49]).isNone ∧ (parse [45]).isNone ∧ (parse []).isNone ∧ (parse [49, 101, 43]).isNone := by decide
example : (parse [45, 48]).map (normalizeNumber (fun _ => false)) = some (.int 0) := by decide
example : (parse [57, 50, 50, 51, 51, 55, 50, 48, 51, 54, 56, 53, 52, 55, 55, 53, 56, 48, 56]).map (normalizeNumber (fun _ => false))
    = some (.big 9223372036854775808) := by decide
example : (parse [49, 46, 48]).map (normalizeNumber (fun _ => false)) = some .float := by decide
example : (parse [45, 49, 101, 57, 57, 57]).map (normalizeNumber (fun _ => true)) = some .negInf := by decide

/-- FRAMING, where fq and the reference use DIFFERENT code: fq decodes in a loop and demands exactly one value
    followed by io.EOF (format/json/json.go:46-69), the reference decodes once and demands that `Token()` returns
    io.EOF (func.go:914-919). Given the standard-library fact that after a value `Token()` returns io.EOF exactly when
    the next `Decode` would (only white space left; observed for every text of the run, `frame` lines), they accept
    the same texts with the same value — for every stream of Decode results -/
theorem fromjson_framing_agrees (first : Dec) (rest : List Dec) (tokenEOF : Bool)
    (hstd : ∀ v, first = .value v → (tokenEOF = true ↔ rest.head? = some .eof)) :
    fqFromJSON (first :: rest) = gojqFromJSON first tokenEOF := by
  cases first with
  | eof => simp [fqFromJSON, fqLoop, gojqFromJSON]
  | err => simp [fqFromJSON, fqLoop, gojqFromJSON]
  | value v =>
    have h := hstd v rfl
    cases rest with
    | nil =>
      have : tokenEOF = false := by cases tokenEOF <;> simp_all
      simp [fqFromJSON, fqLoop, gojqFromJSON, this]
    | cons d rest' =>
      cases d with
      | eof =>
        have : tokenEOF = true := by simp_all
        simp [fqFromJSON, fqLoop, gojqFromJSON, this]
      | err =>
        have : tokenEOF = false := by cases tokenEOF <;> simp_all
        simp [fqFromJSON, fqLoop, gojqFromJSON, this]
      | value w =>
        have : tokenEOF = false := by cases tokenEOF <;> simp_all
        have h1 := (fqLoop_value_cons v rest' [w]).1
        have h2 := (fqLoop_value_cons w rest' []).1
        simp only [fqFromJSON, fqLoop, gojqFromJSON, this, List.nil_append, List.cons_append]
        generalize hr : fqLoop rest' [v, w] = r
        have h3 := (fqLoop_value_cons v rest' [w]).1
        rw [hr, h2] at h3
        obtain ⟨vs, b⟩ := r
        simp only at h3
        subst h3
        cases b <;> simp

/-- non-vacuity: `1 ` (a value, then EOF) is accepted by both, `1 2` and `1]` by neither -/
example : fqFromJSON [.value 0, .eof] = .ok 0 ∧ gojqFromJSON (.value 0) true = .ok 0 ∧
    fqFromJSON [.value 0, .value 1, .eof] = .fail ∧ fqFromJSON [.value 0, .err] = .fail ∧ fqFromJSON [.eof] = .fail := by decide

/- Where fq DELIBERATELY differs from the reference's fromjson (not the text layer; recorded in known_findings.json
   and classified per case by the differential run, unchanged): the RESULT is a decode value with the lookup rules
   of C08 (`c07-fromjson-decode-value-index`: `"[1]" | fromjson | .a` is null, the reference fails), and an ARGUMENT
   that is the root string of a previous json decode is re-decoded from its buffer, quotes included
   (`c07-fromjson-of-fromjson-root-string`); and fq extends the domain to non-strings (see the assumptions). -/
end TextLayer

/-! ## (F) fq's OWN jq value types (internal/gojqx/types.go) under the reference engine's dispatch

  The top-level result of fq's `fromjson` (and of every from_* decoder) is a decode value whose JQValue is
  gojqx.String / Array / … ; the embedded engine calls its JQValue* methods where it would work on the plain Go
  value otherwise.  `FqModel/C07Own.lean` transliterates both sides (gojq func.go:1140-1277, types.go:221-231,
  412-423).  Strings are lists of code points with an ARBITRARY encoder (1..4 bytes per code point in UTF-8):
  the reference slices BYTES at code-point boundaries, fq slices the `[]rune`.  Tie: run `own` of harness c07
  (every slice `.[a:b]`, a, b ∈ −8..8 or absent, and ~240 other operations on strings of 0..7 code points over
  {a, å, €, 😀, U+0000, U+FFFD}, arrays and objects built from them; fq on the fromjson'd value vs the reference on
  the plain value). -/
section Own
open FqModel.C07Own Proofs.C07Own

/-- `.[a:b]` on a gojqx.String = `.[a:b]` on the plain Go string, for EVERY string, every encoder and all bounds
    (negative, out of range, absent): never a panic, and the bytes are those of code points [start, stop). -/
theorem gojqx_string_transparent {α : Type} (enc : Nat → List α) (s : List Nat) (a b : Option Int) :
    fqStringSlice enc s a b = refStringSlice enc s a b ∧
    ∃ st en : Nat, st ≤ en ∧ en ≤ s.length ∧ fqStringSlice enc s a b = some (bytes enc ((s.drop st).take (en - st))) := by
  obtain ⟨h0, h1, h2⟩ := bounds_ok s.length a b
  generalize hb : bounds s.length a b = p at h0 h1 h2
  obtain ⟨st, en⟩ := p
  simp only at h0 h1 h2
  have hst : st = ((st.toNat : Nat) : Int) := by omega
  have hen : en = ((en.toNat : Nat) : Int) := by omega
  have hle : st.toNat ≤ en.toNat := by omega
  have hlen : en.toNat ≤ s.length := by omega
  have hfq : fqStringSlice enc s a b = some (bytes enc ((s.drop st.toNat).take (en.toNat - st.toNat))) := by
    unfold fqStringSlice
    rw [hb]
    simp only [goSlice]
    rw [if_pos ⟨h0, h1, h2⟩]; rfl
  refine ⟨?_, st.toNat, en.toNat, hle, hlen, hfq⟩
  rw [hfq]
  unfold refStringSlice
  rw [hb]
  simp only
  rw [hst, hen, byteOff_spec enc s _ (by omega), byteOff_spec enc s _ hlen]
  simp only [goSlice]
  have m1 : (bytes enc (s.take st.toNat)).length ≤ (bytes enc (s.take en.toNat)).length := by
    have : s.take en.toNat = s.take st.toNat ++ (s.drop st.toNat).take (en.toNat - st.toNat) := by
      have e : en.toNat = st.toNat + (en.toNat - st.toNat) := by omega
      conv => lhs; rw [e]
      exact List.take_add
    rw [this, bytes_append, List.length_append]; omega
  have m2 : (bytes enc (s.take en.toNat)).length ≤ (bytes enc s).length := by
    have : s = s.take en.toNat ++ s.drop en.toNat := (List.take_append_drop _ _).symm
    conv => rhs; rw [this]
    rw [bytes_append, List.length_append]; omega
  rw [if_pos ⟨by omega, by omega, by omega⟩]
  simp only [Int.toNat_natCast]
  rw [slice_bytes enc s _ _ hle hlen]

/-- length / slice length: `len([]rune)` on both sides (types.go:414-415 vs func.go:1149, 1199) — definitional in a
    model whose strings are code-point lists; stated so that a change of the model's length shows up here -/
theorem gojqx_string_length (s : List Nat) (a b : Option Int) :
    (bounds s.length a b).2 ≤ (s.length : Int) ∧ 0 ≤ (bounds s.length a b).1 := by
  have := bounds_ok s.length a b; omega

/-- `.[i]` INSIDE the string: the same code point, no panic.
    FULL statement (`∀ i, fqStringIndex s i = refIdxOut s i`) is FALSE in /repo: outside the string gojqx.String
    answers `""` and the reference null (`gojqx_string_index_outside_differs`, known finding
    c07-gojqx-string-index-outside) — hence `_partial`. -/
theorem gojqx_string_index_partial (s : List Nat) (i : Int)
    (h : -(s.length : Int) ≤ i ∧ i < (s.length : Int)) : fqStringIndex s i = refIdxOut s i := by
  have hc : 0 ≤ clampIndex i (-1) (s.length : Int) ∧ clampIndex i (-1) (s.length : Int) < (s.length : Int) := by
    unfold clampIndex
    simp only []
    split <;> split <;> (try split) <;> omega
  unfold fqStringIndex refIdxOut refStringIndex goIndex
  simp only []
  generalize clampIndex i (-1) (s.length : Int) = j at hc
  have n1 : ¬ (j < 0) := by omega
  have n2 : ¬ (j ≥ (s.length : Int)) := by omega
  have lt : j.toNat < s.length := by omega
  simp only [n1, n2, if_false, hc, and_self, if_true, List.getElem?_eq_getElem lt]

/-- the defect of the unchanged tree: outside the string fq's value type says `""`, the reference null -/
theorem gojqx_string_index_outside_differs :
    fqStringIndex [0x61, 0x62, 0x63] 5 = .empty ∧ refIdxOut [0x61, 0x62, 0x63] 5 = .null ∧
    fqStringIndex [] 0 = .empty ∧ refIdxOut [] 0 = .null ∧ fqStringIndex [0x61] (-2) = .empty := by decide

/-- arrays: `.[a:b]` on gojqx.Array has the reference's elements for all bounds, never a panic -/
theorem gojqx_array_slice_transparent {β : Type} (v : List β) (a b : Option Int) :
    fqArraySlice v a b = refArraySlice v a b ∧ (fqArraySlice v a b).isSome = true := by
  refine ⟨rfl, ?_⟩
  obtain ⟨h0, h1, h2⟩ := bounds_ok v.length a b
  unfold fqArraySlice goSlice
  simp only []
  rw [if_pos ⟨h0, h1, h2⟩]; rfl

/-- arrays: `.[i]` on gojqx.Array = the reference for EVERY index (null outside, on both sides) -/
theorem gojqx_array_index_transparent {β : Type} (v : List β) (i : Int) : fqArrayIndex v i = refArrayIndex v i := by
  unfold fqArrayIndex refArrayIndex goIndex
  simp only []
  generalize clampIndex i (-1) (v.length : Int) = j
  by_cases n1 : j < 0
  · have : ¬ (0 ≤ j ∧ j < (v.length : Int)) := by omega
    simp only [n1, if_true, this, if_false]
    rw [if_pos (by omega : (-2 : Int) < 0)]
  · by_cases n2 : j ≥ (v.length : Int)
    · have : ¬ (0 ≤ j ∧ j < (v.length : Int)) := by omega
      simp only [n1, n2, if_true, this, if_false]
      rw [if_pos (by omega : (-1 : Int) < 0)]
    · have hc : 0 ≤ j ∧ j < (v.length : Int) := by omega
      have lt : j.toNat < v.length := by omega
      simp only [n1, n2, if_false, hc, and_self, if_true, List.getElem?_eq_getElem lt]

/-- the seeded variant S6-C07-1 (string kept as bytes; the end offset is the width of the first end−start code
    points of the WHOLE string) is not transparent: on "åbcdef" `.[1:3]` returns the bytes of "bcd", `.[3:]`
    panics; with equal widths or from 0 it agrees — the harness needs mixed widths and a > 0 -/
theorem seeded_byte_offset_variant_differs :
    seedStringSlice utf8Tag [0xE5, 0x62, 0x63, 0x64, 0x65, 0x66] (some 1) (some 3) = some (bytes utf8Tag [0x62, 0x63, 0x64]) ∧
    refStringSlice utf8Tag [0xE5, 0x62, 0x63, 0x64, 0x65, 0x66] (some 1) (some 3) = some (bytes utf8Tag [0x62, 0x63]) ∧
    seedStringSlice utf8Tag [0xE5, 0x62, 0x63, 0x64, 0x65, 0x66] (some 3) none = none ∧
    seedStringSlice utf8Tag [0xE5, 0x62, 0x63] (some 0) (some 2) = refStringSlice utf8Tag [0xE5, 0x62, 0x63] (some 0) (some 2) ∧
    seedStringSlice utf8Tag [0x61, 0x62, 0x63] (some 1) (some 2) = refStringSlice utf8Tag [0x61, 0x62, 0x63] (some 1) (some 2) := by
  decide

/-- non-vacuity: negative and out-of-range bounds reach the clamping branches; a 2-, 3- and 4-byte code point -/
example : fqStringSlice utf8Tag [0x61, 0xE5, 0x20AC, 0x1F600] (some (-3)) (some 100) = some (bytes utf8Tag [0xE5, 0x20AC, 0x1F600]) := by decide
example : refStringSlice utf8Tag [0x61, 0xE5, 0x20AC, 0x1F600] (some (-3)) (some (-1)) = some (bytes utf8Tag [0xE5, 0x20AC]) := by decide
example : fqStringIndex [0x61, 0xE5] (-1) = .char 0xE5 ∧ refIdxOut [0x61, 0xE5] (-1) = .char 0xE5 := by decide
example : fqArraySlice [1, 2, 3, 4] (some 5) (some 2) = some [] ∧ fqArrayIndex [1, 2] (-3) = some none := by decide

end Own

/-! ## non-vacuity -/

/-- hypotheses of `guarded_transparent`: a decode value and a JSON string are not Binary; a Binary is -/
example : isBinary (.decodeValue .string 7) = false ∧ isBinary (.json .string 7) = false ∧ isBinary (.binary 7) = true := by decide

/-- `overrideOk` is satisfiable by a non-trivial environment, and transparency really computes the builtin:
    test/1 overridden as in binary.jq, called by the user with one argument, on a JSON string -/
def demoEnv : Env := [captureDef "test" 1, ⟨"_test_binary", 2, .other 0⟩, guardedDef "test" 1 (.other 1)]
def demoSem : Sem := ⟨fun fn t _ =>([.json .boolean (t.length + fn.2)], none), fun _ _ _ => ([], some "binary arm")⟩
example : overrideOk demoEnv 0 2 "test" 1 = true := by decide
example : eval demoSem demoEnv 6 3 [] (.call "test" [.other 9]) (.json .string 1) = ([], some "binary arm") := by decide
example : eval demoSem demoEnv 6 3 [.json .string 5] (.call "test" [.var 0]) (.json .string 1) = ([.json .boolean 2], none) := by decide
/-- … and a Binary input takes the other arm -/
example : eval demoSem demoEnv 6 3 [.json .string 5] (.call "test" [.var 0]) (.binary 1) = ([], some "binary arm") := by decide
/-- an UNGUARDED shadowing is not transparent: the model distinguishes it -/
example : eval demoSem (demoEnv ++ [⟨"test", 1, .other 2⟩]) 6 4 [.json .string 5] (.call "test" [.var 0]) (.json .string 1)
    = ([], some "binary arm") := by decide
/-- swapped arms are not transparent either -/
example : eval demoSem [captureDef "test" 1, ⟨"test", 1, guarded (.call "_orig_test" (vars 1)) (.other 1)⟩] 6 2
    [.json .string 5] (.call "test" [.var 0]) (.json .string 1) = ([], some "binary arm") := by decide
/-- hypotheses of `reQuoteMeta_literal` hold for Go's own QuoteMeta set -/
example : (∀ c ∈ re2Meta, c ∈ re2Meta) ∧ (∀ c ∈ re2Meta, isPunct c = true) := by decide
example : quoteMeta re2Meta [97, 46, 92, 100] = [97, 92, 46, 92, 92, 100] := by decide

end Props.C07
