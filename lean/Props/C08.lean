import FqModel.JQValue
import Proofs.C08
/-!
  C08 — a decode value is indistinguishable from its JSON value in read-only jq.

  Statements are about the model FqModel/JQValue.lean: `funcX Mode.real (Val.dv d)` is what gojq's
  builtin X computes for the decode value `d` (it dispatches to the JQValue* methods of the wrapper
  makeDecodeValueOut chose), `funcX Mode.real (Val.ofJV d.toValue)` is what the same builtin computes
  for `d | tovalue`.
-/
namespace Props.C08
open FqModel FqModel.JQValue Proofs.C08

/-- H1: the field names of a struct are distinct (decode.D.AddChild refuses a duplicate:
    decode.go:800-802 `Fatalf("%q already exist in struct")`) -/
def NamesDistinct : DV → Prop
  | .struct fs => (fs.map (·.1)).Nodup
  | _ => True

/-- H2: the value is not the integer -2^63, whose `length` overflows in gojq's plain arithmetic
    (known finding gojq-minint-length) -/
def NotMinInt : DV → Prop
  | .scalar k sym _ => scalarJV k sym ≠ some (.int minInt)
  | _ => True

end Props.C08
