import FqModel.JQValue
import Proofs.C08
import Proofs.C08Utf8
import Proofs.C08Methods
import Proofs.C08Spec
import Proofs.C08Plain
import Proofs.C08Order
import Proofs.C08Syn
import Proofs.C08Cmp
import Proofs.C08Build
/-!
  C08 — a decode value is indistinguishable from its JSON value in read-only jq.

  All statements are about the model FqModel/JQValue.lean, which is tied to /repo by the
  correspondence run (harness c08): `funcX Mode.real (Val.dv d)` is what gojq's builtin X computes
  for the decode value `d` — it dispatches to the JQValue* methods of the wrapper
  makeDecodeValueOut chose (decodeValue over gojqx.Number/String/Boolean/Null/Array/Object/Lazy,
  ArrayDecodeValue, StructDecodeValue) — and `funcX Mode.real (Val.ofJV d.toValue)` is what the same
  builtin computes for `d | tovalue`.  `d` ranges over ALL decode trees (no bound on size or depth).

  Full statement of the property, method level: for every builtin X of {length, keys, has, .[i],
  .[a:b], .k, .[], type, tonumber, tostring, tojson, comparison} the two agree (`agree`: equal
  values after `tovalue`, or both errors), except
    (D1) a struct visits/lists its members in input order                       — keys_agree, each_agree (permutation)
    (D2) `_`-prefixed extra keys are readable                                    — hypothesis NotExt / isExtKey k = false
    (D3) a string-key lookup on a non-object yields null                         — key_agree_nonunderscore, third branch
    (D4) raw bits keep bytes that are not valid UTF-8 under tovalue              — hypotheses RawOK / RawOKDeep
  and except the recorded, undocumented deviations of the code (known_findings.json), each pinned
  here by a witness: string-index-out-of-range, object-key-jqvalue, gojq-minint-length.
  Hypotheses: NamesDistinct — discharged for every tree a decoder can build, forced or not, by
  `addChild_nodup` / `decoder_tree_names_distinct` (model of D.AddChild, Errorf, Fatalf, FieldStruct,
  Value.Remove: FqModel/JQValueBuild.lean), and shown to be exactly what is needed by
  `struct_indistinguishable_iff_nodup` (witness: `addChild_errorf_witness`, the seeded S5-C08-1). Strings are arbitrary
  byte strings: Go's `[]rune` / `string(runes)` round trip is proved (Proofs/C08Utf8.lean:
  `decode1_encodeRune`, `chunks_encodeRunes`), no validity assumption.
  Query level, by induction over the 30-construct mini-jq (arbitrary nesting), for all values:
    `indistinguishable_spec`  model of the code = executable specification + the recorded deviations,
                              for EVERY evaluation value (slices included);
    `spec_agrees_tovalue`     specification (plain key lookup) on a Good value = plain gojq on its
                              tovalue, output by output (every builtin commutes with tovalue);
    `indistinguishable`       the composition: real dispatch on a decode tree vs plain gojq on its
                              tovalue, under exactly: DocOK q (D2), GoodDV d (D1 members sorted, D4 raw
                              bits valid UTF-8, no decoded -2^63), NoNullKey (D3), NoQuirk (known findings);
    `indistinguishable_up_to_member_order` + `tovalue_ignores_member_order`   (D1) in general: any tree,
                              after putting the members of every struct in sorted order;
    `noNullKey_syntactic`, `noQuirk_syntactic`, `indistinguishable_syntactic`   syntactic sufficient
                              conditions for the two semantic hypotheses;
    `member_order_witness`, `null_key_witness`, `indistinguishable_spec_needs_known`   each hypothesis is needed.
  No case of the induction failed; nothing new about fq came out of it.
  Trees as built (both indexes of decode.Compound at every struct, `force`):
    `addChild_nodup`, `decoder_tree_names_distinct`, `struct_methods_one_tree`, `struct_agrees_of_inv`,
    `struct_indistinguishable_iff_nodup`, `decoder_root_index`, `decoder_every_struct_agrees`,
    `errorf_unforced_same`, `addChild_errorf_witness`, `duplicate_name_query_witness`,
    `sortFields_keeps_members`, `sortFields_drops_duplicate_witness`, `decoder_tree_indistinguishable`.
-/
namespace Props.C08
open FqModel FqModel.JQValue Proofs.C08

/-! ### method level, for all decode values -/

/-- `length` -/
theorem length_agree (d : DV) (h1 : NamesDistinct d) (h2 : NotMinInt d) :
    funcLength Mode.real (.dv d) = funcLength Mode.real (Val.ofJV d.toValue) := by
  cases d with
  | struct fs =>
    have hk : ((DV.toValueFields fs).map (·.1)).Nodup := by rw [toValueFields_keys]; exact h1
    simp [funcLength, Mode.view, Mode.real, DV.mLength, DV.toValue, Val.ofJV, ofJVkvs_length,
      length_objOfList _ hk, toValueFields_length]
  | array es =>
    simp [funcLength, Mode.view, Mode.real, DV.mLength, DV.toValue, Val.ofJV, ofJVs_length, toValueList_length]
  | scalar k sym y =>
    rw [toValue_scalar]
    exact length_sv (scalarValue k sym) y h2

/-- the repaired defect §1.8 #5: the length of a decoded negative number is its absolute value
    (before the fix `gojqx.Number.JQValueLength` returned the number itself: -5) -/
theorem length_negative_fixed :
    funcLength Mode.real (.dv (.scalar (.sint (-5)) none false)) = .ok (.int 5) ∧
    funcLength Mode.real (Val.ofJV (DV.toValue (.scalar (.sint (-5)) none false))) = .ok (.int 5) := by
  constructor <;> rfl

/-- known finding gojq-minint-length: H2 of `length_agree` cannot be dropped — the decoded -2^63 has
    length 2^63 (big.Int Abs), while the specification — its tovalue is the Go int -2^63, whose `-v`
    overflows in gojq's funcLength — says -2^63 -/
theorem length_minint_witness :
    funcLength Mode.real (.dv (.scalar (.sint minInt) none false)) = .ok (.int 9223372036854775808) ∧
    funcLength Mode.spec (.dv (.scalar (.sint minInt) none false)) = .ok (.int minInt) := by
  constructor <;> rfl

/-- `type` -/
theorem type_agree (d : DV) :
    funcType Mode.real (.dv d) = funcType Mode.real (Val.ofJV d.toValue) := by
  cases d with
  | struct fs => simp [funcType, Mode.view, Mode.real, DV.mType, DV.toValue, Val.ofJV]
  | array es => simp [funcType, Mode.view, Mode.real, DV.mType, DV.toValue, Val.ofJV]
  | scalar k sym y => rw [toValue_scalar]; exact type_sv (scalarValue k sym) y

/-- `tonumber` (RawOK: (D4) does not apply to this value) -/
theorem tonumber_agree (d : DV) (h : RawOK d) :
    funcToNumber Mode.real (.dv d) = funcToNumber Mode.real (Val.ofJV d.toValue) := by
  cases d with
  | struct fs => simp [funcToNumber, Mode.view, Mode.real, DV.mToNumber, DV.toValue, Val.ofJV]
  | array es => simp [funcToNumber, Mode.view, Mode.real, DV.mToNumber, DV.toValue, Val.ofJV]
  | scalar k sym y => rw [toValue_scalar]; exact tonumber_sv (scalarValue k sym) y h

/-- `keys`: equal, except that a struct lists its fields in input order (D1) while its plain value
    lists them sorted: the same keys as sets (a permutation) -/
theorem keys_agree (d : DV) (h : NamesDistinct d) :
    match d with
    | .struct fs =>
      funcKeys Mode.real (.dv d) = .ok (.arr ((fs.map (·.1)).map Val.str)) ∧
      ∃ ks : List Bytes, funcKeys Mode.real (Val.ofJV d.toValue) = .ok (.arr (ks.map Val.str)) ∧ ks.Perm (fs.map (·.1))
    | _ => funcKeys Mode.real (.dv d) = funcKeys Mode.real (Val.ofJV d.toValue) := by
  cases d with
  | struct fs =>
    have hk : ((DV.toValueFields fs).map (·.1)).Nodup := by rw [toValueFields_keys]; exact h
    refine ⟨by simp [funcKeys, Mode.view, Mode.real, DV.mKeys], (objOfList (DV.toValueFields fs)).map (·.1), ?_, ?_⟩
    · simp [funcKeys, Mode.view, Mode.real, DV.toValue, Val.ofJV, map_str_keys_ofJVkvs]
    · have := keys_objOfList_perm _ hk
      rwa [toValueFields_keys] at this
  | array es => simp [funcKeys, Mode.view, Mode.real, DV.mKeys, DV.toValue, Val.ofJV, ofJVs_length, toValueList_length]
  | scalar k sym y => show (wrapSV (scalarValue k sym)).keys = _; rw [toValue_scalar]; exact keys_sv _ y

/-- `has(k)` for every key that is not one of the documented `_` extra keys (D2) -/
theorem has_agree (d : DV) (j : JV) (hk : NotExt j) :
    agree (funcHas Mode.real (.dv d) (Val.ofJV j)) (funcHas Mode.real (Val.ofJV d.toValue) (Val.ofJV j)) := by
  cases d with
  | struct fs =>
    cases j with
    | str k =>
      have := hk k rfl
      simp only [funcHas, Mode.view, Mode.real, DV.mHas, DV.toValue, Val.ofJV, if_true, valueOrFallbackHas,
        objHas_ofJVkvs, objHas_objOfList, any_key_toValueFields, fieldGet_isSome]
      split <;> (try simp_all [agree, baseHas, Val.toValue, Val.shallowM]) <;> (try assumption)
    | _ => simp [agree, funcHas, Mode.view, Mode.real, DV.mHas, DV.toValue, Val.ofJV, valueOrFallbackHas]
  | array es =>
    cases j with
    | int i =>
      simp only [funcHas, Mode.view, Mode.real, DV.mHas, DV.toValue, Val.ofJV, if_true, valueOrFallbackHas,
        Val.shallowM, toGoInt, ofJVs_length, toValueList_length]
      split <;> (try simp_all [agree, baseHas, Val.toValue, Val.shallowM]) <;> (try assumption)
    | float f =>
      simp only [funcHas, Mode.view, Mode.real, DV.mHas, DV.toValue, Val.ofJV, if_true, valueOrFallbackHas,
        Val.shallowM, toGoInt, ofJVs_length, toValueList_length]
      split <;> (try simp_all [agree, baseHas, Val.toValue, Val.shallowM]) <;> (try assumption)
    | _ => simp [agree, funcHas, Mode.view, Mode.real, DV.mHas, DV.toValue, Val.ofJV, valueOrFallbackHas, toGoInt, Val.shallowM]
  | scalar k sym y =>
    show agree (valueOrFallbackHas (Val.ofJV j) ((wrapSV (scalarValue k sym)).has (Val.ofJV j))) _
    rw [toValue_scalar]; exact has_sv _ y j hk

/-- `.k` for a key that is not one of the `_` extra keys: the same member (or null) when the value
    is an object or null; on every other value the decode value yields null (D3, documented) where
    the plain value is an error -/
theorem key_agree_nonunderscore (d : DV) (k : Bytes) (hk : isExtKey k = false) (hd : NamesDistinct d) :
    match d.toValue with
    | .obj _ => agree (indexKey Mode.real (.dv d) k) (indexKey Mode.real (Val.ofJV d.toValue) k)
    | .null => agree (indexKey Mode.real (.dv d) k) (indexKey Mode.real (Val.ofJV d.toValue) k)
    | _ => indexKey Mode.real (.dv d) k = .ok .null := by
  cases d with
  | struct fs =>
    have hnd : ((DV.toValueFields fs).map (·.1)).Nodup := by rw [toValueFields_keys]; exact hd
    simp only [DV.toValue, indexKey, Mode.real, DV.mKey, Val.ofJV, objGet_ofJVkvs,
      objGet_objOfList_nodup k _ hnd, objGet_toValueFields]
    cases h : fieldGet k fs with
    | none => simp [agree, baseKey, hk, Val.toValue]
    | some c => simp [agree, Val.toValue, toValue_ofJV]
  | array es => simp [DV.toValue, indexKey, Mode.real, DV.mKey, baseKey, hk]
  | scalar kk sym y =>
    rw [toValue_scalar]
    exact key_sv (scalarValue kk sym) y k hk

/-- `.[i]`: equal results; for a string value only for an index inside the string -/
theorem index_agree (d : DV) (i : Int) (hr : ∀ s, d.toValue = .str s → InRange s i) :
    agree (indexInt Mode.real (.dv d) i) (indexInt Mode.real (Val.ofJV d.toValue) i) := by
  cases d with
  | struct fs => simp [indexInt, Mode.view, Mode.real, DV.mSliceLen, DV.mIndex, DV.toValue, Val.ofJV, agree]
  | array es => exact index_array es i
  | scalar k sym y =>
    rw [toValue_scalar] at hr ⊢
    exact index_sv (scalarValue k sym) y i hr

/-- known finding string-index-out-of-range: `hr` of `index_agree` cannot be dropped — an index
    outside a decoded string gives "" (gojqx.String.JQValueIndex, types.go:360), outside the plain
    string null -/
theorem index_string_oob_witness :
    indexInt Mode.real (.dv (.scalar (.str [97, 98, 99]) none false)) 5 = .ok (.str []) ∧
    indexInt Mode.real (Val.ofJV (DV.toValue (.scalar (.str [97, 98, 99]) none false))) 5 = .ok .null := by
  constructor <;> rfl

/-- `.[a:b]` (arrays and strings; RawOK: (D4) does not apply to this value) -/
theorem slice_agree (d : DV) (s e : Option Int) (hr : RawOK d) :
    agree (funcSlice Mode.real (.dv d) s e) (funcSlice Mode.real (Val.ofJV d.toValue) s e) := by
  cases d with
  | struct fs => simp [funcSlice, Mode.view, Mode.real, DV.mSliceLen, DV.mSlice, DV.toValue, Val.ofJV, agree]
  | array es => exact slice_array es s e
  | scalar k sym y =>
    rw [toValue_scalar, funcSlice_scalar]
    exact slice_sv (scalarValue k sym) y s e hr

/-- `.[]`: the same (key, value) pairs — in the same order, except that a struct visits its fields
    in input order (D1) and its plain value in sorted order (a permutation) -/
theorem each_agree (d : DV) (h : NamesDistinct d) :
    match opEach Mode.real (.dv d), opEach Mode.real (Val.ofJV d.toValue) with
    | .ok ps, .ok qs =>
      (ps.map tvPair).Perm (qs.map tvPair) ∧ ((∀ fs, d ≠ .struct fs) → ps.map tvPair = qs.map tvPair)
    | .err _, .err _ => True
    | _, _ => False := by
  cases d with
  | struct fs =>
    have hk : ((DV.toValueFields fs).map (·.1)).Nodup := by rw [toValueFields_keys]; exact h
    simp only [opEach, Mode.view, Mode.real, if_true, DV.mEach, DV.toValue, Val.ofJV]
    refine ⟨?_, fun hne => absurd rfl (hne fs)⟩
    rw [map_tvPair_fields, map_tvPair_ofJVkvs]
    exact ((objOfList_perm _ hk).map _).symm
  | array es =>
    simp only [opEach, Mode.view, Mode.real, if_true, DV.mEach, DV.toValue, Val.ofJV, ofJVs_length, toValueList_length]
    rw [map_tvPair_zip_dv, map_tvPair_zip_ofJVs]
    exact ⟨List.Perm.refl _, fun _ => rfl⟩
  | scalar k sym y =>
    rw [toValue_scalar]
    have := each_sv (scalarValue k sym) y
    have hL : opEach Mode.real (.dv (.scalar k sym y)) = (wrapSV (scalarValue k sym)).each := rfl
    rw [hL]
    generalize (wrapSV (scalarValue k sym)).each = L at this ⊢
    generalize opEach Mode.real (Val.ofJV (svToValue (scalarValue k sym) y)) = R at this ⊢
    cases L <;> cases R <;> simp_all

/-- what gojq's encoder and Compare see of a decode value (JQValueToGoJQ level by level) is its
    `tovalue`, for trees of any depth (RawOKDeep: (D4) applies nowhere below) -/
theorem deep_agree (d : DV) (h : RawOKDeep d) :
    (Val.dv d).deepM Mode.real = (Val.ofJV d.toValue).deepM Mode.real := by
  rw [deepM_ofJV]
  simp [Val.deepM, Mode.real, goJQ_eq_toValue d h]

/-- `tojson` (`ff`: the float text oracle, any) -/
theorem tojson_agree (ff : UInt64 → Option Bytes) (d : DV) (h : RawOKDeep d) :
    funcToJSON Mode.real ff (.dv d) = funcToJSON Mode.real ff (Val.ofJV d.toValue) := by
  simp only [funcToJSON, deep_agree d h]

/-- `==`, `<`, `sort`: comparison with any value, on either side -/
theorem cmp_agree (d : DV) (x : Val) (h : RawOKDeep d) :
    Val.cmpM Mode.real (.dv d) x = Val.cmpM Mode.real (Val.ofJV d.toValue) x ∧
    Val.cmpM Mode.real x (.dv d) = Val.cmpM Mode.real x (Val.ofJV d.toValue) := by
  simp only [Val.cmpM, deep_agree d h, and_self]

/-- jq's `tostring` -/
theorem tostring_agree (ff : UInt64 → Option Bytes) (d : DV) (h : RawOKDeep d) :
    funcToString Mode.real ff (.dv d) = funcToString Mode.real ff (Val.ofJV d.toValue) := by
  have hj := tojson_agree ff d h
  rw [funcToString_eq, funcToString_eq, shallowM_ofJV]
  cases d with
  | struct fs => rw [shallowM_struct, hj]; simp only [DV.toValue, Val.ofJV]
  | array es => rw [shallowM_array, hj]; simp only [DV.toValue, Val.ofJV]
  | scalar k sym y =>
    simp only [RawOKDeep] at h
    have hg := goJQ_scalar k sym y h
    simp only [DV.goJQ] at hg
    rw [shallowM_scalar, hg, hj]

/-- JQValueToString (used by gojq only for `{(k): v}` keys, execute.go:64) agrees for string values.
    MISSING for the full statement: non-string values — FALSE of the code, see `object_key_witness`. -/
theorem jqvalue_tostring_agree_partial (ff : UInt64 → Option Bytes) (d : DV) (s : Bytes)
    (h : RawOK d) (hs : d.toValue = .str s) :
    objectKey Mode.real ff (.dv d) = objectKey Mode.real ff (Val.ofJV d.toValue) := by
  cases d with
  | struct fs => simp [DV.toValue] at hs
  | array es => simp [DV.toValue] at hs
  | scalar k sym y =>
    rw [toValue_scalar] at hs ⊢
    simp only [RawOK] at h
    simp only [objectKey, Mode.real, Bool.true_or, if_true, DV.mToString, wrapScalar]
    generalize scalarValue k sym = sv at h hs
    cases sv with
    | raw bs =>
      cases y with
      | true => simp [svToValue, wrapSV, G.toString, Val.ofJV]
      | false => simp only [svRawOK] at h; simp [svToValue, wrapSV, G.toString, Val.ofJV, h]
    | j v => cases v <;> simp_all [svToValue, wrapSV, G.toString, G.toGoJQ, Val.ofJV, sanitize]

/-- known finding object-key-jqvalue: a decoded number is accepted as an object key (its text), the
    plain number is an error; a decoded JSON array as key makes the error formatting panic -/
theorem object_key_witness :
    objectKey Mode.real (fun _ => none) (.dv (.scalar (.uint 5) none false)) = .ok [53] ∧
    objectKey Mode.real (fun _ => none) (Val.ofJV (DV.toValue (.scalar (.uint 5) none false))) = .err .objectKey ∧
    objectKey Mode.real (fun _ => none) (.dv (.scalar (.any (.arr [.int 1])) none true))
      = .panic "invalid type: gojqx.FuncTypeNameError" := by
  refine ⟨rfl, rfl, rfl⟩

/-! ### query level (stretch) -/

/-- For the builtins whose results are plain values, followed by ANY query:
    `type | q`, `length | q`, `tonumber | q`, `tojson | q`, `tostring | q` give the same outputs and
    the same error on a decode value and on its tovalue.
    NOT proved (stretch): the same for every query of the mini-jq by induction on the query
    (`indistinguishable`), which needs a logical relation between evaluation values that contain
    decode values and plain values; that statement is checked by the correspondence run. -/
theorem indistinguishable_partial (ff : UInt64 → Option Bytes) (d : DV) (q : Q)
    (h1 : NamesDistinct d) (h2 : NotMinInt d) (h4 : RawOKDeep d) (h5 : RawOK d) :
    (Q.pipe .type q).eval Mode.real ff (wrap d) = (Q.pipe .type q).eval Mode.real ff (Val.ofJV d.toValue) ∧
    (Q.pipe .length q).eval Mode.real ff (wrap d) = (Q.pipe .length q).eval Mode.real ff (Val.ofJV d.toValue) ∧
    (Q.pipe .tonumber q).eval Mode.real ff (wrap d) = (Q.pipe .tonumber q).eval Mode.real ff (Val.ofJV d.toValue) ∧
    (Q.pipe .tojson q).eval Mode.real ff (wrap d) = (Q.pipe .tojson q).eval Mode.real ff (Val.ofJV d.toValue) ∧
    (Q.pipe .tostring q).eval Mode.real ff (wrap d) = (Q.pipe .tostring q).eval Mode.real ff (Val.ofJV d.toValue) := by
  refine ⟨?_, ?_, ?_, ?_, ?_⟩
  · simp only [Q.eval, wrap, type_agree d]
  · simp only [Q.eval, wrap, length_agree d h1 h2]
  · simp only [Q.eval, wrap, tonumber_agree d h5]
  · simp only [Q.eval, wrap, tojson_agree ff d h4]
  · simp only [Q.eval, wrap, tostring_agree ff d h4]

/-- Query level, code against specification: for every query of the mini-jq (identity, .k, .[i],
    .[a:b], .[], .., pipe, comma, literals, [..], {(k):v}, keys, has, length, type, paths, to_entries,
    tojson, tostring, tonumber, ==, <, sort, +, -, if, //, try — arbitrarily nested) and EVERY
    evaluation value `v` (decode values of any shape, plain values, containers holding decode values):
    evaluating with the model of the code (`Mode.real`: dispatch to the JQValue* methods) and with the
    executable specification (plain gojq semantics on the view of a decode value = its tovalue one
    level deep, with exactly D1-D4) extended by exactly the recorded deviations (`Mode.known`) gives
    the same outputs in the same order and ends the same way (no error / error / Go panic). -/
theorem indistinguishable_spec (ff : UInt64 → Option Bytes) (q : Q) (v : Val) :
    ResEq (q.eval Mode.real ff v) (q.eval Mode.known ff v) :=
  eval_rk ff q v

/-- `.[a:b]`, code against specification, for every evaluation value -/
theorem slice_spec (v : Val) (s e : Option Int) :
    OutEq (funcSlice Mode.real v s e) (funcSlice Mode.known v s e) :=
  slice_rk v s e

/-- Query level, specification against plain gojq on tovalue: for every query of the mini-jq that
    names no `_` extra key (D2: `DocOK`) and every evaluation value that is `Good` — struct members in
    sorted order, so (D1) does not apply; raw bits that tovalue keeps are valid UTF-8, so (D4) does not
    apply; no decoded -2^63 — the specification with plain key lookup (`Mode.strict`: (D3) switched
    off) and plain gojq on the tovalue of the input (`plainify v`) correspond output by output: the
    plain run yields exactly the tovalue of each output of the specification run, in the same order,
    and both end the same way. By induction on the query; every builtin commutes with tovalue. -/
theorem spec_agrees_tovalue (ff : UInt64 → Option Bytes) (q : Q) (hq : DocOK q) (v : Val) (hv : Good v) :
    ResSim (q.eval Mode.strict ff v) (q.eval Mode.real ff (plainify v)) :=
  eval_sim ff q hq v hv

/-- THE PROPERTY, query level: for every query `q` of the mini-jq and every decode tree `d`
    (unbounded size and depth), if
      * `q` names no `_` extra key                                              (D2, syntactic `DocOK`),
      * `d`'s structs list their members in sorted order and its raw bits are valid UTF-8
                                                                                 (D1, D4: `GoodDV d`),
      * no string-key lookup on a non-object decode value shows in the evaluation (D3: `NoNullKey`),
      * none of the recorded deviations shows in the evaluation                  (`NoQuirk`),
    then the real dispatch on the decode value and plain gojq on `d | tovalue` agree: the plain run
    yields exactly the tovalue of each output of the decode-value run, in the same order, and both end
    the same way (no error / error / Go panic).
    `NoNullKey` and `NoQuirk` are stated semantically — "switching the exception / the deviations off
    does not change this evaluation" — and are decided per case by the driver; the four hypotheses
    are exactly the four documented differences plus the known findings, nothing else is assumed.
    For (D1) in general see `indistinguishable_up_to_member_order`. -/
theorem indistinguishable (ff : UInt64 → Option Bytes) (q : Q) (d : DV)
    (hdoc : DocOK q) (hgood : GoodDV d) (hnull : NoNullKey ff q (wrap d)) (hquirk : NoQuirk ff q (wrap d)) :
    ResSim (q.eval Mode.real ff (wrap d)) (q.eval Mode.real ff (Val.ofJV d.toValue)) := by
  have h1 : ResEq (q.eval Mode.real ff (wrap d)) (q.eval Mode.strict ff (wrap d)) :=
    ((eval_rk ff q (wrap d)).trans hquirk).trans hnull
  exact ResSim_of_ResEq h1 (eval_sim ff q hdoc (wrap d) hgood)

/-- the two semantic hypotheses of `indistinguishable` have syntactic sufficient conditions: a query
    without `.k` cannot show (D3); a query without `.[i]`, `{(k):v}` and `length` cannot show a
    recorded deviation (those are the only constructs that read the respective flag) -/
theorem noNullKey_syntactic (ff : UInt64 → Option Bytes) (q : Q) (idx obj len : Bool)
    (h : Syn false idx obj len q) (v : Val) : NoNullKey ff q v :=
  noNullKey_of_syn ff q idx obj len h v

theorem noQuirk_syntactic (ff : UInt64 → Option Bytes) (q : Q) (fld : Bool)
    (h : Syn fld false false false q) (v : Val) : NoQuirk ff q v :=
  noQuirk_of_syn ff q fld h v

/-- `indistinguishable` without semantic hypotheses: for every query built from identity, .[a:b], .[],
    .., pipe, comma, literals, [..], keys, has, type, paths, to_entries, tojson, tostring, tonumber,
    ==, <, sort, +, -, if, //, try (no `.k`, `.[i]`, `{(k):v}`, `length`) that names no extra key, and
    every decode tree with sorted members and valid raw bits -/
theorem indistinguishable_syntactic (ff : UInt64 → Option Bytes) (q : Q) (d : DV)
    (hdoc : DocOK q) (hsyn : Syn false false false false q) (hgood : GoodDV d) :
    ResSim (q.eval Mode.real ff (wrap d)) (q.eval Mode.real ff (Val.ofJV d.toValue)) :=
  indistinguishable ff q d hdoc hgood
    (noNullKey_of_syn ff q false false false hsyn (wrap d))
    (noQuirk_of_syn ff q false hsyn (wrap d))

/-- (D1), compositional form: `tovalue` does not see the order of struct members — -/
theorem tovalue_ignores_member_order (d : DV) : (DV.sortFields d).toValue = d.toValue :=
  toValue_sortFields d

/-- — and a decode tree differs from its tovalue ONLY in that order (apart from D2-D4 and the known
    findings): for EVERY decode tree `d` whose scalars are `ScalarsOK` (D4; no member-order condition,
    no distinctness condition), the tree with the members of every struct put in sorted order is
    indistinguishable from `d | tovalue` by every query of the mini-jq, in the exact sense of
    `indistinguishable`. (A permutation relation on outputs is not compositional — positions are
    observable, see `member_order_witness` — so (D1) is stated as "equal after reordering".) -/
theorem indistinguishable_up_to_member_order (ff : UInt64 → Option Bytes) (q : Q) (d : DV)
    (hdoc : DocOK q) (hs : ScalarsOK d)
    (hnull : NoNullKey ff q (wrap (DV.sortFields d))) (hquirk : NoQuirk ff q (wrap (DV.sortFields d))) :
    ResSim (q.eval Mode.real ff (wrap (DV.sortFields d))) (q.eval Mode.real ff (Val.ofJV d.toValue)) := by
  rw [← tovalue_ignores_member_order d]
  exact indistinguishable ff q (DV.sortFields d) hdoc (good_sortFields d hs) hnull hquirk

/-- (D1) is observable through positions, which is why `indistinguishable` asks for sorted members:
    on the struct {b: 1, a: 2} the query `[.[]] | .[0]` yields the decoded 1 (input order), on its
    tovalue 2 (sorted order) -/
theorem member_order_witness :
    let d : DV := .struct [([98], .scalar (.uint 1) none false), ([97], .scalar (.uint 2) none false)]
    let q : Q := .pipe (.arrC .iter) (.index 0)
    (q.eval Mode.real (fun _ => none) (wrap d)).outs = [.dv (.scalar (.uint 1) none false)] ∧
    (q.eval Mode.real (fun _ => none) (Val.ofJV d.toValue)).outs = [.int 2] := by
  constructor <;> rfl

/-- (D3) is observable: `(.a)?` on a decoded number yields null, on its tovalue nothing — which is
    why `indistinguishable` asks for `NoNullKey` -/
theorem null_key_witness :
    ((Q.try (.field [97])).eval Mode.real (fun _ => none) (wrap (.scalar (.uint 1) none false))).outs = [.null] ∧
    ((Q.try (.field [97])).eval Mode.real (fun _ => none) (Val.ofJV (DV.toValue (.scalar (.uint 1) none false)))).outs = [] := by
  constructor <;> rfl

/-- without the recorded deviations the statement is false: the specification proper differs from
    the code exactly there (an index outside a decoded string) -/
theorem indistinguishable_spec_needs_known :
    ¬ ResEq ((Q.index 5).eval Mode.real (fun _ => none) (wrap (.scalar (.str [97, 98, 99]) none false)))
        ((Q.index 5).eval Mode.spec (fun _ => none) (wrap (.scalar (.str [97, 98, 99]) none false))) := by
  intro h
  have h1 : ((Q.index 5).eval Mode.real (fun _ => none) (wrap (.scalar (.str [97, 98, 99]) none false))).outs
      = [Val.str []] := rfl
  have h2 : ((Q.index 5).eval Mode.spec (fun _ => none) (wrap (.scalar (.str [97, 98, 99]) none false))).outs
      = [Val.null] := rfl
  have := h.1
  rw [h1, h2] at this
  cases this

/-! ### the two indexes of a struct (Children / ByName) -/

/-- StructDecodeValue answers `.k` / `has` from `ByName` and everything else (keys, length, `.[]`,
    to_entries, tovalue) from `Children`. Every history of D.AddChild / Value.Remove calls that the
    decoder survives, from the empty struct, leaves the two in agreement (`Cmp.Inv`: the names of the
    children are distinct and ByName looks up exactly the children) — for the Remove of /repo
    (value.go:264-293, with `delete(fv.ByName, v.Name)`). -/
theorem struct_indexes_agree (ops : List CmpOp) (c : Cmp)
    (h : Cmp.run Cmp.remove ops Cmp.empty = some c) : Cmp.Inv c :=
  run_inv ops Cmp.empty c inv_empty h

/-- and under that invariant the ByName-reading methods are those of `DV.struct` (which reads the
    children), so every theorem above applies to the struct the decoder built -/
theorem struct_key_has_agree (c : Cmp) (h : Cmp.Inv c) (k : Bytes) (key : Val) :
    c.mKey k = c.toDV.mKey k ∧ c.mHas key = c.toDV.mHas key :=
  ⟨cmp_key_eq c h k, cmp_has_eq c h key⟩

/-- seeded change S2-C08-2 (Remove without the delete): add a, add b, remove a — `.a` still yields
    the removed field and has("a") is true, although keys / tovalue no longer have it; the invariant
    is broken -/
theorem remove_without_delete_witness :
    let d1 : DV := .scalar (.uint 1) none true
    let d2 : DV := .scalar (.uint 2) none true
    ∃ c, Cmp.run Cmp.removeNoDelete [.add [97] d1, .add [98] d2, .rm [97]] Cmp.empty = some c ∧
      c.mKey [97] = .ok (.dv d1) ∧ c.toDV.mKey [97] = .ok .null ∧
      c.mHas (.str [97]) = .ok (.bool true) ∧ c.toDV.mHas (.str [97]) = .ok (.bool false) ∧
      ¬ Cmp.Inv c := by
  refine ⟨_, rfl, rfl, rfl, rfl, rfl, ?_⟩
  intro h
  have h1 := h.2 [97]
  have h2 : objGet [97] (objSet [98] (DV.scalar (.uint 2) none true) (objSet [97] (DV.scalar (.uint 1) none true) ([] : List (Bytes × DV))))
      = some (DV.scalar (.uint 1) none true) := rfl
  have h3 : fieldGet [97] (List.filter (fun f => !bytesEq f.1 [97])
      (([] : List (Bytes × DV)) ++ [([97], DV.scalar (.uint 1) none true)] ++ [([98], DV.scalar (.uint 2) none true)])) = none := rfl
  simp only [Cmp.empty] at h1
  rw [h2, h3] at h1
  cases h1

/-- with the Remove of /repo the same history ends in agreement -/
example : ∃ c, Cmp.run Cmp.remove [.add [97] (.scalar (.uint 1) none true), .add [98] (.scalar (.uint 2) none true),
    .rm [97], .add [97] (.scalar (.uint 3) none true)] Cmp.empty = some c ∧ c.mHas (.str [97]) = .ok (.bool true) :=
  ⟨_, rfl, rfl⟩

/-! ### trees as the decoder builds them: both indexes at EVERY struct, forced and unforced decodes

  FqModel/JQValueBuild.lean: `CT.struct children byName` carries the two indexes of decode.Compound
  separately at every level; its methods read the index the Go method reads (length / keys / `.[]` /
  JQValueToGoJQ / tovalue: Children; `.k` / has: ByName). A decoder is a list of decode.D calls (`BOp`:
  fields read from bits and synthetic, nested structs and arrays, Errorf, Fatalf, a failing assertion, a
  read beyond the end, Value.Remove, D.Format merging a sub-decoder's members), run with `force` or without; `Report.fatalf` is the AddChild of
  /repo (decode.go:833-835), `Report.errorf` the seeded variant S5-C08-1. -/

/-- Every tree a decoder builds — any sequence of decode.D calls, nested to any depth, with or without
    `force`, whether the decoder finished or was stopped (a partial tree) — has, at EVERY struct,
    pairwise distinct member names, and its ByName looks up exactly its Children. By induction over the
    sequence of calls (mutual over nested bodies); the step is D.AddChild: a name that is already in
    ByName ends the decode with Fatalf, which `force` does not switch off. -/
theorem addChild_nodup (force : Bool) (prog : List BOp) :
    CT.InvDeep (runDecoder .fatalf force prog).1 :=
  toCT_inv _ (execList_inv force prog Bld.newStruct inv_newStruct)

/-- … so the hypothesis `NamesDistinct` of the method theorems above holds at every struct of the value
    the interpreter gets (`CT.toDV`: what the Children-reading methods see) -/
theorem decoder_tree_names_distinct (force : Bool) (prog : List BOp) :
    NamesDistinctDeep (runDecoder .fatalf force prog).1.toDV :=
  namesDistinctDeep_toDV _ (addChild_nodup force prog)

/-- Under the invariant the ByName-reading methods and the Children-reading methods describe ONE tree:
    each of the seven methods of a value with both indexes is the method of `DV` (one list of members),
    so `DV` — the type all theorems above quantify over — loses nothing. -/
theorem struct_methods_one_tree (c : CT) (h : CT.InvRoot c) :
    c.mLength = c.toDV.mLength ∧ c.mSliceLen = c.toDV.mSliceLen ∧ c.mKeys = c.toDV.mKeys ∧
    c.mEach = c.toDV.mEach ∧ c.mToGoJQ = c.toDV.mToGoJQ ∧
    (∀ k, c.mKey k = c.toDV.mKey k) ∧ (∀ key, c.mHas key = c.toDV.mHas key) :=
  ⟨ct_length_eq c, ct_sliceLen_eq c, ct_keys_eq c, ct_each_eq c, ct_toGoJQ_eq c, ct_key_eq c h, ct_has_eq c h⟩

/-- a struct whose indexes agree answers length, keys, has, `.k`, `.[]` as its tovalue does (D1, D2) -/
theorem struct_agrees_of_inv (cs bn : List (Bytes × CT)) (h : StructInv cs bn) : StructAgrees cs bn := by
  have hroot : CT.InvRoot (.struct cs bn) := h
  have hnd : NamesDistinct (CT.struct cs bn).toDV := by
    simp only [CT.toDV, NamesDistinct, toDVFields_keys]; exact h.1
  refine ⟨?_, ?_, ?_, ?_, ?_⟩
  · rw [ct_length_eq]
    exact length_agree _ hnd trivial
  · have hk := keys_agree _ hnd
    simp only [CT.toDV] at hk
    obtain ⟨h1, ks', h2, h3⟩ := hk
    refine ⟨cs.map (·.1), ks', ?_, ?_, ?_⟩
    · simp [CT.mKeys, Function.comp_def]
    · exact h2
    · rw [toDVFields_keys] at h3; exact h3
  · intro j hj
    rw [ct_has_eq _ hroot, ← funcHas_real_dv]
    exact has_agree _ j hj
  · intro k hk
    rw [ct_key_eq _ hroot, ← indexKey_real_dv]
    have := key_agree_nonunderscore (CT.struct cs bn).toDV k hk hnd
    simpa only [CT.toValue, CT.toDV, DV.toValue] using this
  · have he := each_agree _ hnd
    rw [ct_each_eq]
    simp only [CT.toValue]
    cases h1 : opEach Mode.real (.dv (CT.struct cs bn).toDV) with
    | ok ps =>
      cases h2 : opEach Mode.real (Val.ofJV (CT.struct cs bn).toDV.toValue) with
      | ok qs =>
        rw [h1, h2] at he
        exact ⟨ps, qs, by simpa [opEach, Mode.view, Mode.real] using h1, rfl, he.1⟩
      | err e => rw [h1, h2] at he; exact absurd he id
      | panic w => rw [h1, h2] at he; exact absurd he id
    | err e => simp [opEach, Mode.view, Mode.real, CT.toDV, DV.mEach] at h1
    | panic w => simp [opEach, Mode.view, Mode.real, CT.toDV, DV.mEach] at h1

/-- A struct whose ByName is the map assigned from its Children in order (what D.AddChild maintains,
    with either report) is indistinguishable from its tovalue — for length, keys, has, `.k`, `.[]`
    (hence to_entries, paths), in the sense of the method theorems — IF AND ONLY IF its member names are
    pairwise distinct. With a repeated name `keys` (and length, `.[]`) already tell them apart: the
    plain value is a Go map. -/
theorem struct_indistinguishable_iff_nodup (cs bn : List (Bytes × CT)) (hidx : IdxLast cs bn) :
    StructAgrees cs bn ↔ (cs.map (·.1)).Nodup := by
  constructor
  · rintro ⟨_, ⟨ks, ks', h1, h2, h3⟩, _⟩
    have hks : ks = cs.map (·.1) := by
      simp only [CT.mKeys, Outcome.ok.injEq, Val.arr.injEq] at h1
      have h1' : (cs.map (·.1)).map Val.str = ks.map Val.str := by rw [← h1]; simp [Function.comp_def]
      exact (map_str_injective _ _ h1').symm
    rw [← hks]
    exact h3.nodup_iff.mp (plain_keys_nodup cs bn ks' h2)
  · intro hnd
    exact struct_agrees_of_inv cs bn (structInv_of_nodup cs bn hidx hnd)

/-- the hypothesis of `struct_indistinguishable_iff_nodup` holds for the root of every tree a decoder
    builds, with the AddChild of /repo AND with the seeded one, forced or not -/
theorem decoder_root_index (rep : Report) (force : Bool) (prog : List BOp) :
    match (runDecoder rep force prog).1 with
    | .struct cs bn => IdxLast cs bn
    | _ => True := by
  have h := execList_idx rep force prog Bld.newStruct idx_newStruct
  have ha : (BOp.execList rep force prog Bld.newStruct).1.isArray = false := by
    rw [execList_isArray]; rfl
  simp only [runDecoder, Bld.toCT, ha, Bool.false_eq_true, if_false]
  exact h ha

/-- THE DISCHARGE: at every struct of every tree a decoder builds (any calls, any depth, forced or not,
    finished or stopped) the decode value answers length, keys, has, `.k`, `.[]` as its tovalue does -/
theorem decoder_every_struct_agrees (force : Bool) (prog : List BOp) :
    CT.EveryStruct StructAgrees (runDecoder .fatalf force prog).1 :=
  everyStruct_of_invDeep StructAgrees struct_agrees_of_inv _ (addChild_nodup force prog)

/-- an UNFORCED decode cannot tell the seeded AddChild from the real one: every decoder builds the same
    tree and stops at the same call (Errorf panics exactly like Fatalf) — the suite, which never forces
    a decoder into a duplicate name, cannot see the change; `force` is the dimension that does -/
theorem errorf_unforced_same (prog : List BOp) :
    runDecoder .errorf false prog = runDecoder .fatalf false prog := by
  simp only [runDecoder, execList_unforced]

/-- seeded change S5-C08-1 (AddChild reports a duplicate name with Errorf): the forced decoder
    `a = 1; a = 2` goes on; the struct has two children named `a`, ByName holds the second. length is 2
    but its tovalue has one member; keys lists `a` twice; `.[]` yields both; `.a` is the second; the
    invariant is broken and the struct is distinguishable from its tovalue. With the AddChild of /repo
    the same forced decoder stops at the second field. -/
theorem addChild_errorf_witness :
    let u1 : CT := .scalar (.uint 1) none false
    let u2 : CT := .scalar (.uint 2) none false
    let prog : List BOp := [.u8 [97] 1, .u8 [97] 2]
    runDecoder .errorf true prog = (.struct [([97], u1), ([97], u2)] [([97], u2)], true) ∧
    runDecoder .fatalf true prog = (.struct [([97], u1)] [([97], u1)], false) ∧
    (runDecoder .errorf true prog).1.mLength = .ok (.int 2) ∧
    funcLength Mode.real (Val.ofJV (runDecoder .errorf true prog).1.toValue) = .ok (.int 1) ∧
    (runDecoder .errorf true prog).1.mKeys = .ok (.arr [.str [97], .str [97]]) ∧
    (runDecoder .errorf true prog).1.mKey [97] = .ok (.dv u2.toDV) ∧
    ¬ CT.InvDeep (runDecoder .errorf true prog).1 ∧
    ¬ StructAgrees [([97], u1), ([97], u2)] [([97], u2)] := by
  refine ⟨rfl, rfl, rfl, rfl, rfl, rfl, ?_, ?_⟩
  · intro h
    have h1 : runDecoder .errorf true [.u8 [97] 1, .u8 [97] 2] =
      (.struct [([97], .scalar (.uint 1) none false), ([97], .scalar (.uint 2) none false)] [([97], .scalar (.uint 2) none false)], true) := rfl
    rw [h1] at h
    simp only [CT.InvDeep, StructInv] at h
    exact absurd h.1.1 (by decide)
  · intro h
    have hidx : IdxLast [([97], CT.scalar (.uint 1) none false), ([97], CT.scalar (.uint 2) none false)]
        [([97], CT.scalar (.uint 2) none false)] := fun k => rfl
    exact absurd ((struct_indistinguishable_iff_nodup _ _ hidx).mp h) (by decide)

/-- the same at query level, through the interpreter model: on the value a forced decode would hand out
    under the seeded change, `length`, `keys` and `[.[]]` differ from the same query on its tovalue -/
theorem duplicate_name_query_witness :
    let d : DV := .struct [([97], .scalar (.uint 1) none false), ([97], .scalar (.uint 2) none false)]
    (Q.length.eval Mode.real (fun _ => none) (wrap d)).outs = [.int 2] ∧
    (Q.length.eval Mode.real (fun _ => none) (Val.ofJV d.toValue)).outs = [.int 1] ∧
    (Q.keys.eval Mode.real (fun _ => none) (wrap d)).outs = [.arr [.str [97], .str [97]]] ∧
    (Q.keys.eval Mode.real (fun _ => none) (Val.ofJV d.toValue)).outs = [.arr [.str [97]]] ∧
    ((Q.arrC .iter).eval Mode.real (fun _ => none) (wrap d)).outs
      = [.arr [.dv (.scalar (.uint 1) none false), .dv (.scalar (.uint 2) none false)]] ∧
    ((Q.arrC .iter).eval Mode.real (fun _ => none) (Val.ofJV d.toValue)).outs = [.arr [.int 2]] := by
  refine ⟨rfl, rfl, rfl, rfl, rfl, rfl⟩

/-- `indistinguishable_up_to_member_order` compares `d | tovalue` with the tree whose structs are put in
    sorted order by `DV.sortFields` — an assignment into a Go map, which keeps ALL members only if their
    names are distinct: then the sorted struct has exactly the (recursively sorted) members of `d` -/
theorem sortFields_keeps_members (fs : List (Bytes × DV)) (h : (fs.map (·.1)).Nodup) :
    ∃ gs, DV.sortFields (.struct fs) = .struct gs ∧ gs.Perm (fs.map (fun f => (f.1, DV.sortFields f.2))) := by
  refine ⟨objOfList (DV.sortFieldsF fs), rfl, ?_⟩
  rw [sortFieldsF_eq_map]
  apply objOfList_perm
  simpa [Function.comp_def] using h

/-- … and with a repeated name it silently drops one: for such a tree the theorem would speak about
    another value. Hence `addChild_nodup`. -/
theorem sortFields_drops_duplicate_witness :
    DV.sortFields (.struct [([97], .scalar (.uint 1) none false), ([97], .scalar (.uint 2) none false)])
      = .struct [([97], .scalar (.uint 2) none false)] := rfl

/-- THE PROPERTY for the trees a decoder builds, query level: for every decoder (any calls, any depth),
    forced or not, finished or stopped, and every query of the mini-jq that names no `_` extra key: the
    tree — its structs put in sorted order, which loses no member (`decoder_tree_names_distinct`,
    `sortFields_keeps_members`) — and its tovalue are indistinguishable in the exact sense of
    `indistinguishable`; the scalar hypotheses (D4, -2^63) are discharged (the leaves are plain numbers),
    the two semantic ones (D3, known findings) remain. -/
theorem decoder_tree_indistinguishable (ff : UInt64 → Option Bytes) (q : Q) (force : Bool) (prog : List BOp)
    (hdoc : DocOK q)
    (hnull : NoNullKey ff q (wrap (DV.sortFields (runDecoder .fatalf force prog).1.toDV)))
    (hquirk : NoQuirk ff q (wrap (DV.sortFields (runDecoder .fatalf force prog).1.toDV))) :
    ResSim (q.eval Mode.real ff (wrap (DV.sortFields (runDecoder .fatalf force prog).1.toDV)))
      (q.eval Mode.real ff (Val.ofJV (runDecoder .fatalf force prog).1.toValue)) :=
  indistinguishable_up_to_member_order ff q _ hdoc (runDecoder_scalarsOK .fatalf force prog) hnull hquirk

/-- a decoder with nested structs, a forced Errorf, fields after it, a name equal to an extra key, an
    empty name, a duplicate attempt and a Remove: the hypotheses of the theorems above are met by a
    non-trivial tree, forced and unforced -/
example :
    let prog : List BOp := [.u8 [97] 1, .struct [95, 102, 111, 114, 109, 97, 116] [.val [] 2, .errorf, .u8 [98] 3],
      .remove [97], .u8 [97] 4, .assertU8 [99] 5 6, .u8 [97] 7, .u8 [100] 8]
    (runDecoder .fatalf true prog).2 = false ∧ (runDecoder .fatalf false prog).2 = false ∧
    (runDecoder .fatalf true prog).1.mKeys
      = .ok (.arr [.str [95, 102, 111, 114, 109, 97, 116], .str [97], .str [99]]) ∧
    (runDecoder .fatalf false prog).1.mKeys = .ok (.arr [.str [97], .str [95, 102, 111, 114, 109, 97, 116]]) ∧
    CT.InvRoot (runDecoder .fatalf true prog).1 :=
  ⟨rfl, rfl, rfl, rfl, invRoot_of_deep _ (addChild_nodup true _)⟩

/-- D.Format: the members of a sub-decoder are merged one AddChild at a time — the merge stops at the
    first name the struct already has, what was merged before stays -/
example :
    (runDecoder .fatalf true [.u8 [97] 1, .inline [.u8 [98] 2, .u8 [97] 3, .u8 [99] 4]]).1.mKeys
      = .ok (.arr [.str [97], .str [98]]) ∧
    (runDecoder .fatalf true [.u8 [97] 1, .inline [.u8 [98] 2, .u8 [97] 3, .u8 [99] 4]]).2 = false :=
  ⟨rfl, rfl⟩

example : IdxLast [([97], CT.scalar (.uint 1) none false)] [([97], CT.scalar (.uint 1) none false)] := fun _ => rfl

/-! ### the hypotheses are satisfiable by non-trivial values -/

/-- a struct with two fields, a nested array, a symbolic value and raw bits satisfies every hypothesis -/
example :
    let d : DV := .struct [([98], .scalar (.uint 7) (some (.str [120])) false),
      ([97], .array [.scalar (.sint (-3)) none false, .scalar (.raw [65, 66]) none false])]
    NamesDistinct d ∧ NotMinInt d ∧ RawOK d ∧ RawOKDeep d := by
  refine ⟨?_, trivial, trivial, ?_⟩
  · simp only [NamesDistinct]; decide
  · simp only [RawOKDeep, RawOKFields, RawOKList, svRawOK, scalarValue, actualSV, and_true, true_and]
    decide

example : DocOK (.pipe (.arrC (.pipe .recurse (.try (.field [97])))) (.bin .add .sort (.objC (.slice (some 1) none) (.has (.str [98]))))) := by
  simp only [DocOK, NotExt, true_and, and_true]
  refine ⟨by decide, ?_⟩
  intro k hk; cases hk; decide

/-- the hypotheses of `indistinguishable` hold for a non-trivial tree and query:
    `{a: -3, b: [7 (symbol "x"), raw "AB"]} | [.. | length?] | sort` -/
example :
    let d : DV := .struct [([97], .scalar (.sint (-3)) none false),
      ([98], .array [.scalar (.uint 7) (some (.str [120])) false, .scalar (.raw [65, 66]) none false])]
    let q : Q := .pipe (.arrC (.pipe .recurse (.try .length))) .sort
    DocOK q ∧ GoodDV d ∧ NoNullKey (fun _ => none) q (wrap d) ∧ NoQuirk (fun _ => none) q (wrap d) := by
  refine ⟨by simp [DocOK], ?_, ⟨rfl, trivial⟩, ⟨rfl, trivial⟩⟩
  simp only [GoodDV, GoodFields, GoodDVs, KeysSorted, svRawOK, svNotMinInt, scalarValue, actualSV, and_true, true_and]
  decide

example : NotExt (.str [97]) ∧ isExtKey [97] = false := by
  refine ⟨?_, by decide⟩
  intro k hk
  cases hk
  decide

example : InRange [97, 98, 99] 1 ∧ InRange [97, 98, 99] (-3) := by
  simp only [InRange]
  decide

/-- a string that is not valid UTF-8 is within the scope of the theorems (no validity hypothesis) -/
example : NotMinInt (.scalar (.str [0xff, 0x61]) none true) ∧ RawOK (.scalar (.str [0xff, 0x61]) none true) :=
  ⟨trivial, trivial⟩

end Props.C08
