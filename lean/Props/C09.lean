import FqModel.Binary
import Proofs.C09
/-!
  C09 — "binary values obey bit-string algebra": property theorems about the model of
  pkg/interp/binary.go + binary.jq + gojq's index/slice routing (FqModel/Binary.lean).
  Helper lemmas live in Proofs/C09.lean.

  All theorems hold for ALL bit strings, ranges, units and indices (no size bound).
  `b.WF` (the range lies inside the reader) is what `bitiox.Range` checks; every binary the
  interpreter can build satisfies it: `newBin` (NewBinaryFromBitReader) by `Proofs.C09.newBin_wf`,
  slices by `slice_wf`, `.bits/.bytes` keep the range, `_toBits` by `toBits_wf`.

  Core obligations (DESIGN §25.1): split_concat, tobytes_pad_front, array_member_range, number_roundtrip.
-/
namespace Props.C09
open FqModel FqModel.Binary Proofs.C09

/-! ## core 1: split_concat -/

/-- Full strength, as the code is: `[b[:k], b[k:]] | tobits` is the part of `b` that index and slice can
    reach, i.e. the first `length b * unit` bits of its range — for EVERY integer `k` (gojq clamps
    negative and out-of-range bounds), any unit, any alignment of the range inside the reader.
    When the range is unit aligned this is all of `b` (`split_concat`), otherwise the trailing
    `len mod unit` bits are lost (`split_concat_unaligned_witness`). -/
theorem split_concat_reach (b : Bin) (k : Int) (hw : b.WF) :
    toBitsOp 1 false 0 (.arr [.bin (b.slice none (some k)), .bin (b.slice (some k) none)])
      = .ok (.bin (newBin (slice b.src b.start (b.length * b.unit)) 1)) := by
  have h := clampIndex_range k 0 (b.length : Int) (by omega)
  have hreach : b.length * b.unit ≤ b.len := Nat.div_mul_le_self _ _
  generalize hc : (clampIndex k 0 b.length).toNat = c at *
  have hcl : c ≤ b.length := by omega
  have hcu : c * b.unit ≤ b.length * b.unit := Nat.mul_le_mul_right _ hcl
  have hsub : (b.length - c) * b.unit = b.length * b.unit - c * b.unit := Nat.sub_mul _ _ _
  unfold Bin.WF at hw
  have hbits : toBR false (.arr [.bin (b.slice none (some k)), .bin (b.slice (some k) none)])
      = .ok (slice b.src b.start (b.length * b.unit)) := by
    rw [toBR_arr, slice_to, slice_from, hc]
    simp only [toBRList, toBR]
    rw [rangeBits_ok _ _ _ (by omega), rangeBits_ok _ _ _ (by omega)]
    simp only [List.append_nil]
    rw [slice_append_adj, hsub]
    congr 2
    omega
  simp only [toBitsOp, toBinary, hbits, bind, Except.bind, pure, Except.pure]
  simp [newBin, toReaderBits, rangeBits_self, bind, Except.bind, pure, Except.pure, Int.tmod_one]

/-- `split_concat : tobits [b[:k], b[k:]] = tobits b` for a unit-aligned range (any unit; any integer k,
    in particular 0 ≤ k ≤ length b) -/
theorem split_concat (b : Bin) (k : Int) (hw : b.WF) (ha : b.len % b.unit = 0) :
    toBitsOp 1 false 0 (.arr [.bin (b.slice none (some k)), .bin (b.slice (some k) none)])
      = toBitsOp 1 false 0 (.bin b) := by
  rw [split_concat_reach b k hw, tobits_bin b hw, Bin.bits, Bin.length,
    Nat.div_mul_cancel (Nat.dvd_of_mod_eq_zero ha)]

/-- bit binaries are always unit aligned: the law holds for every bit binary -/
theorem split_concat_bits (b : Bin) (k : Int) (hw : b.WF) (hu : b.unit = 1) :
    toBitsOp 1 false 0 (.arr [.bin (b.slice none (some k)), .bin (b.slice (some k) none)])
      = toBitsOp 1 false 0 (.bin b) :=
  split_concat b k hw (by rw [hu, Nat.mod_one])

/-- the quirk kept from the code: for a byte binary whose range is not byte aligned the law fails
    (`0xf0f | tobytesrange` has 12 bits and length 1: the last 4 bits are not reachable by slicing) -/
theorem split_concat_unaligned_witness :
    let b : Bin := { src := toBitsBE 16 0x0f0f, start := 4, len := 12, unit := 8, pad := 4 }
    b.WF ∧ toBitsOp 1 false 0 (.arr [.bin (b.slice none (some 1)), .bin (b.slice (some 1) none)])
      ≠ toBitsOp 1 false 0 (.bin b) := by
  intro b
  refine ⟨by decide, ?_⟩
  rw [split_concat_reach b 1 (by decide), tobits_bin b (by decide)]
  intro h
  have h2 := congrArg (fun o => match o with | .ok (.bin x) => x.len | _ => 0) h
  revert h2
  decide

example : ∃ b : Bin, b.WF ∧ b.len % b.unit = 0 ∧ b.len > 0 ∧ b.start % 8 ≠ 0 ∧ b.unit = 8 :=
  ⟨{ src := toBitsBE 24 0xabcdef, start := 3, len := 16, unit := 8, pad := 0 }, by decide⟩

/-! ## core 2: tobytes_pad_front -/

/-- `tobits(n)` / `tobytes(n)` / `tobits` / `tobytes` of a binary: the result is `k` ZERO bits followed by the
    bits of the range, `k < m` minimal such that the length is a multiple of the granule `m = padUnit u n`
    (`u*n` bits, or `u` when n = 0), and the numeric value is unchanged. -/
theorem toBits_pad_front (b : Bin) (u n : Nat) (hu : 0 < u) (hw : b.WF) :
    let m := padUnit u n
    let k := (m - b.len % m) % m
    let padded := newBin (List.replicate k false ++ b.bits) u
    toBitsOp u false (n : Int) (.bin b) = .ok (.bin padded)
      ∧ padded.len = k + b.len ∧ padded.len % m = 0 ∧ k < m
      ∧ padded.toNumber = b.toNumber := by
  intro m k padded
  have hm : 0 < m := padUnit_pos u n hu
  have hk : k < m := Nat.mod_lt _ hm
  have hlen : padded.len = k + b.len := by simp [padded, newBin, bits_length b hw]
  refine ⟨toBitsOp_pad b u n hu hw, hlen, ?_, hk, ?_⟩
  · rw [hlen]
    have h1 := Nat.mod_lt b.len hm
    by_cases h0 : b.len % m = 0
    · have : k = 0 := by simp [k, h0]
      rw [this, Nat.zero_add]; exact h0
    · have hk' : k = m - b.len % m := by
        simp only [k]; exact Nat.mod_eq_of_lt (by omega)
      rw [hk', Nat.add_comm, ← Nat.add_sub_assoc (by omega), Nat.add_comm]
      have := Nat.div_add_mod b.len m
      have h2 : m + b.len - b.len % m = m * (b.len / m + 1) := by rw [Nat.mul_add]; omega
      rw [h2, Nat.mul_mod_right]
  · rw [toNumber_eq _ (newBin_wf _ _), toNumber_eq b hw, newBin_bits, ofBitsBE_zeros_append]

/-- `tobytes_pad_front`: padding is leading zeros up to a byte and `toNumber (tobytes b) = toNumber b` -/
theorem tobytes_pad_front (b : Bin) (hw : b.WF) :
    let k := (8 - b.len % 8) % 8
    let padded := newBin (List.replicate k false ++ b.bits) 8
    toBitsOp 8 false 0 (.bin b) = .ok (.bin padded)
      ∧ padded.len = k + b.len ∧ padded.len % 8 = 0
      ∧ padded.toNumber = b.toNumber := by
  have h := toBits_pad_front b 8 0 (by omega) hw
  simp only [padUnit, Nat.mul_zero, if_true] at h
  exact ⟨h.1, h.2.1, h.2.2.1, h.2.2.2.2⟩

example : ∃ b : Bin, b.WF ∧ b.len % 8 ≠ 0 ∧ b.start % 8 ≠ 0 :=
  ⟨{ src := toBitsBE 24 0xabcdef, start := 3, len := 13, unit := 1, pad := 0 }, by decide⟩

/-! ## core 3: array_member_range -/

/-- `array_member_range : n < 0 ∨ n > 255 → err`: an array whose members before `n` convert is rejected with
    byteRangeError, for every conversion function (unit, keep_range, pad_to_units) -/
theorem array_member_range (pre post : List Val) (n : Int) (r : NumRep) (u : Nat) (k : Bool) (p : Int) (bits : Bits)
    (h : n < 0 ∨ n > 255) (hpre : toBRList pre = .ok bits) :
    toBitsOp u k p (.arr (pre ++ .num n r :: post)) = .error .byteRange := by
  have hx : toBR true (.num n r) = .error .byteRange := by
    simp only [toBR, byteBits, if_true]; rw [if_pos (by omega)]
  simp [toBitsOp, toBinary_arr, toBRList_err_at pre post _ _ bits hpre hx, Except.map, bind, Except.bind]

/-- wherever the offending member stands, the conversion fails -/
theorem array_member_range_any (vs : List Val) (n : Int) (r : NumRep) (u : Nat) (k : Bool) (p : Int)
    (h : n < 0 ∨ n > 255) (hm : .num n r ∈ vs) :
    ∃ e, toBitsOp u k p (.arr vs) = .error e := by
  have hx : toBR true (.num n r) = .error .byteRange := by
    simp only [toBR, byteBits, if_true]; rw [if_pos (by omega)]
  obtain ⟨e, he⟩ := toBRList_mem_err vs _ _ hm hx
  exact ⟨e, by simp [toBitsOp, toBinary_arr, he, Except.map, bind, Except.bind]⟩

/-- the same inside nested arrays (`toBitReaderEx(e, true)` recurses with inArray = true) -/
theorem array_member_range_nested (pre post : List Val) (n : Int) (r : NumRep) (bits : Bits) (ia : Bool)
    (h : n < 0 ∨ n > 255) (hpre : toBRList pre = .ok bits) :
    toBR ia (.arr (pre ++ .num n r :: post)) = .error .byteRange := by
  have hx : toBR true (.num n r) = .error .byteRange := by
    simp only [toBR, byteBits, if_true]; rw [if_pos (by omega)]
  rw [toBR_arr, toBRList_err_at pre post _ _ bits hpre hx]

/-- in range members are accepted: one byte each -/
theorem array_member_ok (n : Int) (r : NumRep) (h0 : 0 ≤ n) (h1 : n ≤ 255) : toBR true (.num n r) = .ok (toBitsBE 8 n.toNat) := by
  simp only [toBR, byteBits, if_true]; rw [if_neg (by omega)]

example : ∃ (pre : List Val) (bits : Bits), toBRList pre = .ok bits ∧ pre.length = 2 :=
  ⟨[.num 1 .int, .str [0x61]], _, rfl, rfl⟩

/-! ## core 4: number_roundtrip -/

/-- `number_roundtrip : n ≥ 0 → toNumber (tobits n) = n` (through the expression evaluator) -/
theorem number_roundtrip (n : Int) (hn : 0 ≤ n) :
    eval (.toNumber (.toBits 1 false 0 (.int n))) = .ok (.num n .big) := by
  simp only [eval, toBitsOp, toBinary, toBR, numBits_eq, bind, Except.bind, pure, Except.pure, Bool.false_eq_true, if_false]
  simp only [Int.mul_zero, if_true, Int.tmod_one, toReaderBits, newBin, rangeBits_self, bind, Except.bind, pure, Except.pure,
    Int.natCast_one, Int.sub_zero, onBin]
  have := toNumber_eq (newBin (if n.natAbs = 0 then [false] else toBitsBE (bitLen n.natAbs) n.natAbs) 1) (newBin_wf _ _)
  simp only [newBin] at this
  rw [this]
  have hb := newBin_bits (if n.natAbs = 0 then [false] else toBitsBE (bitLen n.natAbs) n.natAbs) 1
  simp only [newBin] at hb
  rw [hb]
  congr 2
  split
  · rename_i h0; simp [ofBitsBE]; omega
  · rw [ofBitsBE_toBitsBE, Nat.mod_eq_of_lt (lt_two_pow_bitLen _)]; omega

/-- the bits of a number are minimal: `bitLen |n|` bits (one bit for 0), i.e. no leading zero -/
theorem number_bits_minimal (n : Int) (r : NumRep) (h : n ≠ 0) :
    ∃ bits, toBR false (.num n r) = .ok bits ∧ bits.length = bitLen n.natAbs ∧ bits.head? = some true
      ∧ ofBitsBE bits = n.natAbs := by
  have ha : n.natAbs ≠ 0 := by omega
  refine ⟨toBitsBE (bitLen n.natAbs) n.natAbs, ?_, toBitsBE_length _ _, ?_, ?_⟩
  · simp only [toBR, Bool.false_eq_true, if_false, numBits_eq, if_neg ha]
  · have hp := bitLen_pos ha
    obtain ⟨w, hw⟩ : ∃ w, bitLen n.natAbs = w + 1 := ⟨bitLen n.natAbs - 1, by omega⟩
    have hlo := two_pow_bitLen_le ha
    have hhi := lt_two_pow_bitLen n.natAbs
    rw [hw] at hhi ⊢
    rw [hw, Nat.add_sub_cancel] at hlo
    simp only [toBitsBE, List.head?_cons]
    have : n.natAbs / 2 ^ w = 1 := by
      apply Nat.div_eq_of_lt_le
      · omega
      · rw [Nat.pow_succ] at hhi; omega
    simp [this]
  · rw [ofBitsBE_toBitsBE, Nat.mod_eq_of_lt (lt_two_pow_bitLen _)]

/-- `0` is ONE zero bit (binary.go:82-85), the sign of a negative number is dropped (quirk kept) -/
theorem number_zero_and_sign :
    (∀ r, toBR false (.num 0 r) = .ok [false]) ∧ ∀ (n : Int) (r r' : NumRep), toBR false (.num (-n) r) = toBR false (.num n r') := by
  refine ⟨fun r => by simp [toBR, numBits_eq], fun n r r' => ?_⟩
  simp only [toBR, Bool.false_eq_true, if_false, numBits_eq, Int.natAbs_neg]

/-! ## stretch: the remaining laws -/

/-- `non_convertible_err`: null, booleans and objects are rejected by every conversion -/
theorem non_convertible_err (v : Val) (hv : NonConvertible v) (ia : Bool) (u : Nat) (k : Bool) (p : Int) :
    toBR ia v = .error .notBinary ∧ toBitsOp u k p v = .error .notBinary ∧ toHexOp v = .error .notBinary := by
  rcases hv with rfl | ⟨b, rfl⟩ | rfl <;>
    simp [toBR, toBitsOp, toBinary, toHexOp, bind, Except.bind]

/-- … also as an array member, at any nesting depth (`ia` arbitrary) -/
theorem non_convertible_member (pre post : List Val) (v : Val) (hv : NonConvertible v) (bits : Bits)
    (hpre : toBRList pre = .ok bits) (ia : Bool) :
    toBR ia (.arr (pre ++ v :: post)) = .error .notBinary := by
  rw [toBR_arr, toBRList_err_at pre post v _ bits hpre (non_convertible_err v hv true 1 false 0).1]

/-- a SYNTHETIC decode value (calculated by a decoder, not backed by input bits) is the non-convertible class among decode
    values: every conversion rejects it, standalone … -/
theorem synthetic_dv_err (ia : Bool) (u : Nat) (k : Bool) (p : Int) :
    toBR ia .dvSyn = .error .synthetic ∧ toBitsOp u k p .dvSyn = .error .synthetic ∧ toHexOp .dvSyn = .error .synthetic := by
  simp [toBR, toBitsOp, toBinary, toHexOp, bind, Except.bind]

/-- … and as a member of an array at any nesting depth (`ia` arbitrary), for every conversion function -/
theorem synthetic_dv_member (pre post : List Val) (bits : Bits) (hpre : toBRList pre = .ok bits)
    (ia : Bool) (u : Nat) (k : Bool) (p : Int) :
    toBR ia (.arr (pre ++ .dvSyn :: post)) = .error .synthetic
      ∧ toBitsOp u k p (.arr (pre ++ .dvSyn :: post)) = .error .synthetic := by
  have hx := toBRList_err_at pre post .dvSyn _ bits hpre (synthetic_dv_err true 1 false 0).1
  refine ⟨by rw [toBR_arr, hx], ?_⟩
  simp [toBitsOp, toBinary_arr, hx, Except.map, bind, Except.bind]

/-- `index_is_slice_number`: `b[i] = (b[i:i+1] | tonumber)` for every in-range index, any unit -/
theorem index_is_slice_number (b : Bin) (i : Nat) (hi : i < b.length) :
    b.index i = (b.slice (some (i : Int)) (some ((i : Int) + 1))).toNumber := by
  have h1 : clampIndex (i : Int) (-1) (b.length : Int) = i := clampIndex_id _ _ _ (by omega) (by omega) (by omega)
  have h2 : clampIndex (i : Int) 0 (b.length : Int) = i := clampIndex_id _ _ _ (by omega) (by omega) (by omega)
  have h3 : clampIndex ((i : Int) + 1) (i : Int) (b.length : Int) = i + 1 := clampIndex_id _ _ _ (by omega) (by omega) (by omega)
  simp only [Bin.index, Bin.toNumber, Bin.slice, h1, h2, h3]
  rw [if_neg (by omega), if_neg (by omega), if_neg (by omega)]
  have : ((i : Int) + 1 - (i : Int)).toNat = 1 := by omega
  simp [this]

/-- an index outside `-length ≤ i < length` is `null` -/
theorem index_out_of_range (b : Bin) (i : Int) (h : i ≥ b.length ∨ i < -(b.length : Int)) : b.index i = .ok .null := by
  simp only [Bin.index]
  by_cases hneg : i < 0 <;> simp only [clampIndex, hneg, if_true, if_false]
  all_goals (repeat' split) <;> first | rfl | omega

example : ∃ (b : Bin) (i : Nat), i < b.length ∧ b.len % b.unit ≠ 0 :=
  ⟨{ src := toBitsBE 24 0xabcdef, start := 3, len := 19, unit := 8, pad := 0 }, 1, by decide⟩

/-- `size_start_stop`: `.size` and `.start` are floors, `.stop` is the ceiling of the range's end in units;
    for a unit-aligned range `stop = start + size` -/
theorem size_start_stop (b : Bin) (hu : 0 < b.unit) :
    ∃ size start stop : Nat,
      b.key .size = .num size .big ∧ b.key .start = .num start .big ∧ b.key .stop = .num stop .big ∧
      size = b.length ∧
      size * b.unit ≤ b.len ∧ b.len < (size + 1) * b.unit ∧
      start * b.unit ≤ b.start ∧ b.start < (start + 1) * b.unit ∧
      b.start + b.len ≤ stop * b.unit ∧ stop * b.unit < b.start + b.len + b.unit ∧
      (b.start % b.unit = 0 → b.len % b.unit = 0 → stop = start + size) := by
  refine ⟨b.len / b.unit, b.start / b.unit,
    (if (b.start + b.len) % b.unit ≠ 0 then (b.start + b.len) / b.unit + 1 else (b.start + b.len) / b.unit),
    rfl, rfl, rfl, rfl, (div_bounds _ _ hu).1, (div_bounds _ _ hu).2, (div_bounds _ _ hu).1, (div_bounds _ _ hu).2,
    (ceil_bounds _ _ hu).1, (ceil_bounds _ _ hu).2, ?_⟩
  intro hs hl
  obtain ⟨qs, hqs⟩ := Nat.dvd_of_mod_eq_zero hs
  obtain ⟨ql, hql⟩ := Nat.dvd_of_mod_eq_zero hl
  rw [hqs, hql, ← Nat.mul_add, Nat.mul_mod_right, Nat.mul_div_cancel_left _ hu, Nat.mul_div_cancel_left _ hu,
    Nat.mul_div_cancel_left _ hu]
  simp

/-- a slice never leaves its parent's range, for all (also negative / out-of-range / absent) bounds
    (so it is well formed if the parent is) -/
theorem slice_within (b : Bin) (s e : Option Int) :
    b.start ≤ (b.slice s e).start ∧ (b.slice s e).start + (b.slice s e).len ≤ b.start + b.len
      ∧ (b.slice s e).src = b.src ∧ (b.slice s e).unit = b.unit := by
  obtain ⟨st, en, h1, h2, heq⟩ := slice_shape b s e
  rw [heq]
  have hreach : b.length * b.unit ≤ b.len := Nat.div_mul_le_self _ _
  have h3 : en * b.unit ≤ b.length * b.unit := Nat.mul_le_mul_right _ h2
  have h4 : (en - st) * b.unit = en * b.unit - st * b.unit := Nat.sub_mul _ _ _
  have h5 : st * b.unit ≤ en * b.unit := Nat.mul_le_mul_right _ h1
  refine ⟨?_, ?_, rfl, rfl⟩
  · simp only; omega
  · simp only; rw [h4]; omega

theorem slice_wf (b : Bin) (s e : Option Int) (hw : b.WF) : (b.slice s e).WF := by
  obtain ⟨h1, h2, h3, _⟩ := slice_within b s e
  unfold Bin.WF at *
  rw [h3]; omega

/-- `slice_slice`: slicing a slice is slicing the parent with added offsets -/
theorem slice_slice (b : Bin) (a c a' c' : Nat) (hu : 0 < b.unit)
    (h1 : a ≤ c) (h2 : c ≤ b.length) (h3 : a' ≤ c') (h4 : c' ≤ c - a) :
    (b.slice (some (a : Int)) (some (c : Int))).slice (some (a' : Int)) (some (c' : Int))
      = b.slice (some ((a + a' : Nat) : Int)) (some ((a + c' : Nat) : Int)) := by
  have e1 : clampIndex (a : Int) 0 (b.length : Int) = a := clampIndex_id _ _ _ (by omega) (by omega) (by omega)
  have e2 : clampIndex (c : Int) (a : Int) (b.length : Int) = c := clampIndex_id _ _ _ (by omega) (by omega) (by omega)
  have e3 : clampIndex ((a + a' : Nat) : Int) 0 (b.length : Int) = (a + a' : Nat) := clampIndex_id _ _ _ (by omega) (by omega) (by omega)
  have e4 : clampIndex ((a + c' : Nat) : Int) ((a + a' : Nat) : Int) (b.length : Int) = (a + c' : Nat) :=
    clampIndex_id _ _ _ (by omega) (by omega) (by omega)
  have hs : b.slice (some (a : Int)) (some (c : Int))
      = { src := b.src, start := b.start + a * b.unit, len := (c - a) * b.unit, unit := b.unit, pad := 0 } := by
    simp only [Bin.slice, e1, e2]; congr 2; omega
  rw [hs]
  have hl := slice_length_eq b a c hu
  have e5 : clampIndex (a' : Int) 0 ((c - a : Nat) : Int) = a' := clampIndex_id _ _ _ (by omega) (by omega) (by omega)
  have e6 : clampIndex (c' : Int) (a' : Int) ((c - a : Nat) : Int) = c' := clampIndex_id _ _ _ (by omega) (by omega) (by omega)
  simp only [Bin.slice, hl, e5, e6, e3, e4]
  have t1 : ((a' : Int)).toNat = a' := by omega
  have t2 : ((c' : Int) - (a' : Int)).toNat = c' - a' := by omega
  have t3 : (((a + a' : Nat) : Int)).toNat = a + a' := by omega
  have t4 : (((a + c' : Nat) : Int) - ((a + a' : Nat) : Int)).toNat = c' - a' := by omega
  rw [t1, t2, t3, t4, Nat.add_mul, Nat.add_assoc]

example : ∃ (b : Bin) (a c a' c' : Nat), 0 < b.unit ∧ a ≤ c ∧ c ≤ b.length ∧ a' ≤ c' ∧ c' ≤ c - a ∧ 0 < a ∧ a' < c' :=
  ⟨{ src := toBitsBE 32 0xabcdef01, start := 3, len := 27, unit := 8, pad := 0 }, 1, 3, 0, 2, by decide⟩

/-- `explode`: the list of the `length b` unit-sized big-endian numbers of the range, in order -/
theorem explode_eq (b : Bin) (hw : b.WF) :
    b.explode = .ok (.arr ((List.range b.length).map fun k => .num (ofBitsBE (slice b.src (b.start + k * b.unit) b.unit)) .big)) := by
  simp only [Bin.explode, bind, Except.bind, pure, Except.pure]
  have := mapM_ok (List.range (b.len / b.unit)) (fun (k : Nat) => b.index (k : Int))
    (fun k => Val.num (ofBitsBE (slice b.src (b.start + k * b.unit) b.unit)) .big)
    (fun k hk => index_in_range b k (by simpa [Bin.length] using hk) hw)
  rw [this]; rfl

theorem explode_bytes (b : Bin) (hw : b.WF) (hu : b.unit = 8) :
    b.explode = .ok (.arr ((List.range (b.len / 8)).map fun k => .num (ofBitsBE (slice b.src (b.start + k * 8) 8)) .big)) := by
  rw [explode_eq b hw, Bin.length, hu]

theorem explode_bits (b : Bin) (hw : b.WF) (hu : b.unit = 1) :
    b.explode = .ok (.arr ((List.range b.len).map fun k => .num (ofBitsBE (slice b.src (b.start + k) 1)) .big)) := by
  rw [explode_eq b hw, Bin.length, hu]
  simp

/-- `tobits_tobytes_len`: `tobytes` has ceil(len/8) bytes, `tobits` of it the same bits -/
theorem tobits_tobytes_len (b : Bin) (hw : b.WF) :
    ∃ y t : Bin, toBitsOp 8 false 0 (.bin b) = .ok (.bin y) ∧ toBitsOp 1 false 0 (.bin y) = .ok (.bin t) ∧
      y.len = (b.len + 7) / 8 * 8 ∧ y.length = (b.len + 7) / 8 ∧ t.len = y.len ∧ t.length = y.len ∧ t.bits = y.bits := by
  obtain ⟨h1, h2, h3, _⟩ := tobytes_pad_front b hw
  generalize hy : newBin (List.replicate ((8 - b.len % 8) % 8) false ++ b.bits) 8 = y at h1 h2 h3
  have hyw : y.WF := by rw [← hy]; exact newBin_wf _ _
  have hyu : y.unit = 8 := by rw [← hy]; rfl
  have hbl := bits_length y hyw
  refine ⟨y, newBin y.bits 1, h1, tobits_bin y hyw, ?_, ?_, ?_, ?_, newBin_bits _ _⟩
  · omega
  · simp only [Bin.length, hyu]; omega
  · simp [newBin, hbl]
  · simp [newBin, Bin.length, hbl]

/-- the fast path of toBitReaderEx (byte buffer) and the MultiReader path agree (binary.go:97-129 / 132-145) -/
theorem fast_path_eq_multireader (ia : Bool) (vs : List Val) : toBR ia (.arr vs) = toBRList vs := toBR_arr ia vs

/-- `_toBits` only builds well-formed binaries -/
theorem toBits_wf (v : Val) (u : Nat) (k : Bool) (p : Int) (r : Bin)
    (hv : ∀ b, (v = .bin b ∨ v = .dv b) → b.WF) (h : toBitsOp u k p v = .ok (.bin r)) : r.WF := by
  simp only [toBitsOp, bind, Except.bind, pure, Except.pure] at h
  cases hb : toBinary v with
  | error e => simp [hb] at h
  | ok bv =>
    have hbw : bv.WF := by
      cases v with
      | bin b => simp [toBinary] at hb; subst hb; exact hv _ (Or.inl rfl)
      | dv b => simp [toBinary] at hb; subst hb; exact hv _ (Or.inr rfl)
      | num n => simp only [toBinary, bind, Except.bind, pure, Except.pure] at hb; split at hb <;> simp at hb; subst hb; exact newBin_wf _ _
      | str s => simp only [toBinary, bind, Except.bind, pure, Except.pure] at hb; split at hb <;> simp at hb; subst hb; exact newBin_wf _ _
      | arr vs => simp only [toBinary, bind, Except.bind, pure, Except.pure] at hb; split at hb <;> simp at hb; subst hb; exact newBin_wf _ _
      | null => simp [toBinary, toBR, bind, Except.bind] at hb
      | dvSyn => simp [toBinary] at hb
      | bool x => simp [toBinary, toBR, bind, Except.bind] at hb
      | obj => simp [toBinary, toBR, bind, Except.bind] at hb
    rw [hb] at h
    cases k with
    | true => simp at h; subst h; exact hbw
    | false =>
      simp only [Bool.false_eq_true, if_false] at h
      split at h
      · simp at h
      · simp at h; subst h; exact newBin_wf _ _

/- Invariant of the whole expression language: if the decode-value leaves are well formed, EVERY binary in the
    result of EVERY expression (any depth, any nesting of arrays) is well formed — so the `b.WF` hypotheses above
    are always met and the model never answers `outside buffer`. -/
mutual
theorem eval_wf : ∀ (e : E), E.DvWF e → ∀ v, eval e = .ok v → Val.AllWF v
  | .str _, _, v, h => by simp [eval] at h; subst h; simp [Val.AllWF]
  | .int _, _, v, h => by simp [eval] at h; subst h; simp [Val.AllWF]
  | .null, _, v, h => by simp [eval] at h; subst h; simp [Val.AllWF]
  | .bool _, _, v, h => by simp [eval] at h; subst h; simp [Val.AllWF]
  | .obj, _, v, h => by simp [eval] at h; subst h; simp [Val.AllWF]
  | .dv src start len, hd, v, h => by
    simp [eval] at h; subst h
    simpa [Val.AllWF, Bin.WF, E.DvWF] using hd
  | .arr es, hd, v, h => by
    simp only [eval] at h
    cases he : evalList es with
    | error x => simp [he] at h
    | ok vs =>
      simp [he] at h; subst h
      simp only [Val.AllWF]
      exact evalList_wf es (by simpa [E.DvWF] using hd) vs he
  | .toBits u k p e, hd, v, h => by
    simp only [eval] at h
    cases he : eval e with
    | error x => simp [he] at h
    | ok v0 =>
      simp only [he] at h
      have ih := eval_wf e (by simpa [E.DvWF] using hd) v0 he
      obtain ⟨r, rfl⟩ := toBitsOp_is_bin u k p v0 v h
      simp only [Val.AllWF]
      refine toBits_wf v0 u k p r ?_ h
      intro b hb
      rcases hb with rfl | rfl <;> simpa [Val.AllWF] using ih
  | .index i e, hd, v, h => by
    simp only [eval] at h
    cases he : eval e with
    | error x => simp [he] at h
    | ok v0 =>
      simp only [he] at h
      obtain ⟨b, rfl, hb⟩ := onBin_ok v0 _ v h
      rcases index_val b i v hb with rfl | ⟨n, r, rfl⟩ <;> simp [Val.AllWF]
  | .slice s t e, hd, v, h => by
    simp only [eval] at h
    cases he : eval e with
    | error x => simp [he] at h
    | ok v0 =>
      simp only [he] at h
      have ih := eval_wf e (by simpa [E.DvWF] using hd) v0 he
      obtain ⟨b, rfl, hb⟩ := onBin_ok v0 _ v h
      simp at hb; subst hb
      simp only [Val.AllWF] at ih ⊢
      exact slice_wf b s t ih
  | .key k e, hd, v, h => by
    simp only [eval] at h
    cases he : eval e with
    | error x => simp [he] at h
    | ok v0 =>
      simp only [he] at h
      have ih := eval_wf e (by simpa [E.DvWF] using hd) v0 he
      obtain ⟨b, rfl, hb⟩ := onBin_ok v0 _ v h
      simp at hb; subst hb
      simp only [Val.AllWF] at ih
      cases k <;> simp only [Bin.key] <;> (try split) <;> simp_all [Val.AllWF, Bin.WF]
  | .length e, hd, v, h => by
    simp only [eval] at h
    cases he : eval e with
    | error x => simp [he] at h
    | ok v0 =>
      simp only [he] at h
      obtain ⟨b, rfl, hb⟩ := onBin_ok v0 _ v h
      simp at hb; subst hb; simp [Val.AllWF]
  | .toNumber e, hd, v, h => by
    simp only [eval] at h
    cases he : eval e with
    | error x => simp [he] at h
    | ok v0 =>
      simp only [he] at h
      obtain ⟨b, rfl, hb⟩ := onBin_ok v0 _ v h
      simp only [Bin.toNumber, bind, Except.bind, pure, Except.pure] at hb
      split at hb <;> simp at hb
      subst hb; simp [Val.AllWF]
  | .toString e, hd, v, h => by
    simp only [eval] at h
    cases he : eval e with
    | error x => simp [he] at h
    | ok v0 =>
      simp only [he] at h
      obtain ⟨b, rfl, hb⟩ := onBin_ok v0 _ v h
      simp only [Bin.toStr, bind, Except.bind, pure, Except.pure] at hb
      split at hb <;> simp at hb
      subst hb; simp [Val.AllWF]
  | .explode e, hd, v, h => by
    simp only [eval] at h
    cases he : eval e with
    | error x => simp [he] at h
    | ok v0 =>
      simp only [he] at h
      obtain ⟨b, rfl, hb⟩ := onBin_ok v0 _ v h
      simp only [Bin.explode, bind, Except.bind, pure, Except.pure] at hb
      split at hb
      · simp at hb
      · rename_i vs hvs
        simp at hb; subst hb
        simp only [Val.AllWF]
        exact mapM_index_wf b _ vs hvs
  | .toHex e, hd, v, h => by
    simp only [eval] at h
    cases he : eval e with
    | error x => simp [he] at h
    | ok v0 =>
      simp only [he] at h
      simp only [toHexOp, bind, Except.bind, pure, Except.pure] at h
      split at h <;> simp at h
      subst h; simp [Val.AllWF]
  | .half _, _, v, h => by simp [eval] at h; subst h; simp [Val.AllWF]
  | .dvSyn, _, v, h => by simp [eval] at h; subst h; simp [Val.AllWF]
  | .sub k e, hd, v, h => by
    simp only [eval] at h
    split at h <;> simp at h
    subst h
    simp only [subNum]
    split <;> (try split) <;> simp [Val.AllWF]
theorem evalList_wf : ∀ (es : List E), E.DvWFList es → ∀ vs, evalList es = .ok vs → Val.AllWFList vs
  | [], _, vs, h => by simp [evalList] at h; subst h; simp [Val.AllWFList]
  | e :: es, hd, vs, h => by
    simp only [evalList] at h
    simp only [E.DvWFList] at hd
    cases he : eval e with
    | error x => simp [he] at h
    | ok v =>
      cases hes : evalList es with
      | error x => simp [he, hes] at h
      | ok vs' =>
        simp [he, hes] at h; subst h
        exact ⟨eval_wf e hd.1 v he, evalList_wf es hd.2 vs' hes⟩
end

end Props.C09
