import FqModel.Dump
import FqModel.C10Json
import FqModel.C10Float
import Proofs.C10Float
import Proofs.C10Writers
import Proofs.C10Num
import Proofs.C10Json
import Proofs.C10Dump
import Proofs.C10Flush
import Proofs.C10Ansi
/-!
  C10 — property theorems about the model of fq's display code (FqModel/Dump.lean,
  FqModel/C10Json.lean).  Helper lemmas live in Proofs/C10*.lean.  All theorems hold for every
  byte string, width ≥ 1, start offset, chunking, base 2..36 and integer — no size bound.
-/
namespace Props.C10
open FqModel.Dump FqModel.C10Json Proofs.C10Writers Proofs.C10Num Proofs.C10Json Proofs.C10Dump Proofs.C10Flush Proofs.C10Ansi FqModel.Ansi Proofs.C10Float

/-! ### hexpairwriter -/

/-- What the hexpair writer emits does not depend on how the bytes are cut into `Write` calls
    (empty calls included): it is always the layout `hexSpec`. -/
theorem hexpair_chunk_indep (w start : Nat) (hw : 1 ≤ w) (chunks : List (List UInt8)) (hc : chunks ≠ []) :
    hexRun w start 0 chunks = hexSpec w start chunks.flatten
      ∧ hexRun w start 0 chunks = hexRun w start 0 [chunks.flatten] := by
  have key : ∀ cs : List (List UInt8), cs ≠ [] → hexRun w start 0 cs = hexSpec w start cs.flatten := by
    intro cs h
    cases cs with
    | nil => exact absurd rfl h
    | cons p ps => simpa [hexSpec] using hexRun_pad w start hw p ps 0 (Nat.zero_le _)
  refine ⟨key chunks hc, ?_⟩
  rw [key chunks hc, key [chunks.flatten] (by simp)]
  simp

example : hexRun 4 2 0 [[1, 2], [], [3, 255, 16]] = "      01 02\n03 ff 10".toList := by decide

/-- Reading the hex text back: the `k`-th cell in reading order sits at row `k / w`, column `k % w`;
    the first `start` cells are blank and the following cells are exactly the input bytes, each once —
    i.e. cell (row r, col c) holds byte `r*w + c − start`. -/
theorem hexpair_parse_back (w start : Nat) (hw : 1 ≤ w) (chunks : List (List UInt8))
    (hne : chunks.flatten ≠ []) :
    parseHex 0 0 (hexRun w start 0 chunks)
      = expectCells w 0 (List.replicate start Cell.blank ++ chunks.flatten.map Cell.byte) := by
  have hc : chunks ≠ [] := by intro h; rw [h] at hne; exact hne rfl
  rw [(hexpair_chunk_indep w start hw chunks hc).1]
  have := parseHex_pad w hw chunks.flatten hne start 0
  simpa [hexSpec] using this

/-- … hence the cell showing input byte `j` is at row `(start+j)/w`, column `(start+j)%w`. -/
theorem hexpair_cell_of_byte (w start : Nat) (hw : 1 ≤ w) (bs : List UInt8) (j : Nat) (hj : j < bs.length) :
    (parseHex 0 0 (hexRun w start 0 [bs]))[start + j]?
      = some ((start + j) / w, (start + j) % w, Cell.byte bs[j]) :=
  cell_of_byte w start hw bs j hj

example : parseHex 0 0 (hexRun 4 2 0 [[1, 2], [3, 255, 16]])
    = [(0, 0, .blank), (0, 1, .blank), (0, 2, .byte 1), (0, 3, .byte 2),
       (1, 0, .byte 3), (1, 1, .byte 255), (1, 2, .byte 16)] := by decide

/-! ### asciiwriter -/

theorem ascii_chunk_indep (w start : Nat) (hw : 1 ≤ w) (chunks : List (List UInt8)) (hc : chunks ≠ []) :
    asciiRun w start 0 chunks = asciiSpec w start chunks.flatten
      ∧ asciiRun w start 0 chunks = asciiRun w start 0 [chunks.flatten] := by
  have key : ∀ cs : List (List UInt8), cs ≠ [] → asciiRun w start 0 cs = asciiSpec w start cs.flatten := by
    intro cs h
    cases cs with
    | nil => exact absurd rfl h
    | cons p ps => simpa [asciiSpec] using asciiRun_pad w start hw p ps 0 (Nat.zero_le _)
  refine ⟨key chunks hc, ?_⟩
  rw [key chunks hc, key [chunks.flatten] (by simp)]
  simp

/-- ascii twin of `hexpair_parse_back`: every character sits at row `k / w`, column `k % w` and is
    `SafeASCII` of input byte `k − start` (blanks before).  `start < w` is what dump.go passes
    (`startByte % LineBytes`); for `start ≥ w` the writer drops the padding cell at a line end. -/
theorem ascii_parse_back (w start : Nat) (hw : 1 ≤ w) (hs : start < w) (chunks : List (List UInt8))
    (hne : chunks.flatten ≠ []) :
    parseAscii 0 0 (asciiRun w start 0 chunks)
      = expectCells w 0 (List.replicate start ' ' ++ chunks.flatten.map safeAscii) := by
  have hc : chunks ≠ [] := by intro h; rw [h] at hne; exact hne rfl
  rw [(ascii_chunk_indep w start hw chunks hc).1]
  have := parseAscii_pad w hw chunks.flatten hne start 0 (by simpa using hs)
  simpa [asciiSpec] using this

example : asciiRun 4 2 0 [[65], [66, 0, 200, 67]] = "  AB\n..C".toList := by decide
example : ∃ w start, 1 ≤ w ∧ start < w ∧ ([[65], [66]] : List (List UInt8)).flatten ≠ [] := ⟨4, 2, by decide⟩

/-! ### numbers -/

/-- `strconv.FormatUint` read back: digits of `n` in base `b` denote `n`, and there is no leading
    zero (the zeros `PadFormatInt` adds are the only ones). -/
theorem formatBase_roundtrip (b n : Nat) (hb : 2 ≤ b) (hb36 : b ≤ 36) :
    parseBase b (formatBase b n) = some n ∧ (n ≠ 0 → (formatBase b n).head? ≠ some '0') :=
  ⟨parseBase_formatBase b n hb hb36, formatBase_no_leading_zero b n hb hb36⟩

example : formatBase 36 46655 = "zzz".toList ∧ formatBase 2 5 = "101".toList := by decide

/-- a printed (prefixed, zero padded) address reads back to the address -/
theorem address_roundtrip (b n width : Nat) (hb : 2 ≤ b) (hb36 : b ≤ 36) :
    parseAddr b (padFormat n b true width) = some n := parseAddr_padFormat b n width hb hb36

example : padFormat 21 2 true 9 = "0b0010101".toList := by decide

/-- the verbose `start-stop (size)` notation (bytes`.`bits in the chosen base) reads back to the
    value's actual range and size -/
theorem verbose_range_true (b start len : Nat) (hb : 2 ≤ b) (hb36 : b ≤ 36) :
    parseRangeByteBits b (rangeByteBits b start len) = some (start, start + len)
      ∧ parseByteBits b (stringByteBits b len) = some len :=
  ⟨parseRange_string b start len hb hb36, parseByteBits_string b len hb hb36⟩

example : rangeByteBits 2 11 139 = "0b1.11-0b10010.110".toList := by decide

/-! ### JSON -/

/-- integers of any magnitude are printed exactly -/
theorem json_int_exact (indent : Nat) (n : Int) :
    parseJson (encodeJson indent (JV.int n)) = some (JV.int n) := by
  simpa [encodeJson, normalize, encode] using parseJson_encInt n

example : encodeJson 0 (JV.int (-(2 ^ 64 + 1))) = "-18446744073709551617".toList := by decide

/-- strings (any code points: quotes, backslashes, control characters, DEL, non-ASCII) survive -/
theorem json_string_roundtrip (indent : Nat) (s : List Char) :
    parseJson (encodeJson indent (JV.str s)) = some (JV.str s) := by
  simpa [encodeJson, normalize, encode] using parseJson_encString s

example : encodeJson 0 (JV.str ['a', '"', '\n', '\x7f', 'é']) = "\"a\\\"\\n\\u007fé\"".toList := by decide

/-- `colorjson.writeIndent` / `writeIndentInternal` (the loop that doubles the indentation by copying
    the tail of the encoder's buffer): whatever the buffer holds and for every depth, exactly a line
    feed and `depth` spaces (or tabs) are appended. -/
theorem indent_exact (tab : Bool) (buf : List Char) (depth : Nat) :
    writeIndentBuf tab buf depth = buf ++ '\n' :: List.replicate depth (if tab then '\t' else ' ') :=
  writeIndentBuf_spec tab buf depth

example : writeIndentBuf false "[1,".toList 70 = "[1,".toList ++ '\n' :: List.replicate 70 ' ' := by decide

/-- indented output at arbitrary depth: an integer of any size inside `k` nested arrays, printed with
    any indent width, reads back to the value (the indentation is pure white space at every level) -/
theorem json_nested_roundtrip (indent k : Nat) (n : Int) :
    parseJson (encodeJson indent (nestArr k (JV.int n))) = some (nestArr k (JV.int n)) :=
  parseJson_nest indent n k

example : encodeJson 2 (nestArr 2 (JV.int (-7))) = "[\n  [\n    -7\n  ]\n]".toList := by decide

/-! ### dump.go: addresses, completeness, truncation (the model of dumpEx) -/

/-- Every hex cell of a dumped value is the root buffer's byte at the address printed for its row
    plus its column.  For a value `[start, start+len)` (bits) inside a root buffer of `rootBits` bits:
    the hex column starts with the hexpair layout of `bytes`; byte `j` of it is `root[startByte + j]`,
    is shown (once, by `hexpair_parse_back`) at row `r`, column `c`; the address line `r` exists, reads
    back to `startLineByte + r*lineBytes`, and that address plus `c` is `startByte + j`; and there are
    exactly as many hex rows as address lines. -/
theorem dump_addresses (o : Opts) (W : Nat) (indent : List Char) (root : List UInt8) (rootBits start len : Nat)
    (hlb : 1 ≤ o.lineBytes) (hab : 2 ≤ o.addrbase ∧ o.addrbase ≤ 36)
    (hlen : 0 < len) (hin : start + len ≤ rootBits) (hroot : (rootBits + 7) / 8 ≤ root.length) :
    let g := geom o rootBits start len
    let bytes := dataBytes root g.startByte g.displaySizeBits
    let off := g.startLineByteOffset
    (∃ tail, (dataColumns o W indent root rootBits start len).2.1 = hexRun o.lineBytes off 0 [bytes] ++ tail)
    ∧ bytes.length = g.lastDisplayByte - g.startByte + 1
    ∧ (off + (bytes.length - 1)) / o.lineBytes + 1 = g.addrLines
    ∧ ∀ j, j < bytes.length → ∃ b,
        root[g.startByte + j]? = some b
        ∧ (parseHex 0 0 (hexRun o.lineBytes off 0 [bytes]))[off + j]?
            = some ((off + j) / o.lineBytes, (off + j) % o.lineBytes, Cell.byte b)
        ∧ (off + j) / o.lineBytes < g.addrLines
        ∧ parseAddr o.addrbase (padFormat (g.startLineByte + (off + j) / o.lineBytes * o.lineBytes) o.addrbase true W)
            = some (g.startLineByte + (off + j) / o.lineBytes * o.lineBytes)
        ∧ g.startLineByte + (off + j) / o.lineBytes * o.lineBytes + (off + j) % o.lineBytes = g.startByte + j := by
  intro g bytes off
  obtain ⟨h1, h2, h3⟩ := cells_explicit o root rootBits start len hlb hlen hin hroot
  refine ⟨hexCol_prefix o W indent root rootBits start len, h1, h2, ?_⟩
  intro j hj
  obtain ⟨b, c1, c2, c3, c4⟩ := h3 j hj
  exact ⟨b, c1, c2, c3, parseAddr_padFormat _ _ _ hab.1 hab.2, c4⟩

/-- ascii twin: the ascii column starts with the ascii layout of the same bytes, whose characters
    sit at the same (row, column) as the hex cells and are `SafeASCII` of the bytes. -/
theorem dump_ascii (o : Opts) (W : Nat) (indent : List Char) (root : List UInt8) (rootBits start len : Nat)
    (hlb : 1 ≤ o.lineBytes) (hlen : 0 < len) (hin : start + len ≤ rootBits)
    (hroot : (rootBits + 7) / 8 ≤ root.length) :
    let g := geom o rootBits start len
    let bytes := dataBytes root g.startByte g.displaySizeBits
    (∃ tail, (dataColumns o W indent root rootBits start len).2.2
        = asciiRun o.lineBytes g.startLineByteOffset 0 [bytes] ++ tail)
    ∧ parseAscii 0 0 (asciiRun o.lineBytes g.startLineByteOffset 0 [bytes])
        = expectCells o.lineBytes 0 (List.replicate g.startLineByteOffset ' ' ++ bytes.map safeAscii) := by
  intro g bytes
  refine ⟨asciiCol_prefix o W indent root rootBits start len, ?_⟩
  have hl := dataBytes_length o root rootBits start len hlen hin hroot
  have hne : [bytes].flatten ≠ [] := by
    intro h
    have : bytes = [] := by simpa using h
    have h0 : bytes.length = 0 := by rw [this]; rfl
    have : bytes.length = g.lastDisplayByte - g.startByte + 1 := hl
    omega
  have hoff : g.startLineByteOffset < o.lineBytes := Nat.mod_lt _ hlb
  simpa using ascii_parse_back o.lineBytes g.startLineByteOffset hlb hoff [bytes] hne

/-- `digitsNeeded b n` (prefix + integer digit count) is the specification of
    `mathx.DigitsInBase(n, true, b)`; it is monotone, so a column wide enough for the stop byte
    count is wide enough for every smaller address. -/
theorem digitsNeeded_monotone (b n m : Nat) (hb : 2 ≤ b) (h : n ≤ m) :
    digitsNeeded b n ≤ digitsNeeded b m := digitsNeeded_mono b n m hb h

/-- The address column is wide enough (design `addr_width_enough`): if the column width covers
    `2*rootDepth + DigitsInBase(stop byte count)` of the value — which `dump` guarantees by taking the
    maximum over all values (dump.go:352-358) — then it covers every address line of the value, so
    (by `nested_addr_truncated_iff`) at root depth 0 no address is cut and each reads back exactly. -/
theorem addr_width_enough (o : Opts) (colW rootDepth rootBits start len : Nat)
    (hlb : 1 ≤ o.lineBytes) (hab : 2 ≤ o.addrbase ∧ o.addrbase ≤ 36) (hlen : 0 < len)
    (hW : 2 * rootDepth + digitsNeeded o.addrbase ((start + len + 7) / 8) ≤ colW) :
    let g := geom o rootBits start len
    ∀ i, i < g.addrLines →
      2 * rootDepth + digitsNeeded o.addrbase (g.startLineByte + i * o.lineBytes) ≤ colW
      ∧ (rootDepth = 0 →
          addrCell o colW 0 (g.startLineByte + i * o.lineBytes) = addrText o colW 0 (g.startLineByte + i * o.lineBytes)
          ∧ parseAddr o.addrbase (addrText o colW 0 (g.startLineByte + i * o.lineBytes))
              = some (g.startLineByte + i * o.lineBytes)) := by
  intro g i hi
  have hA := addr_line_le o rootBits start len hlb hlen i hi
  have hmono := digitsNeeded_mono o.addrbase _ _ hab.1 hA
  have h1 : 2 * rootDepth + digitsNeeded o.addrbase (g.startLineByte + i * o.lineBytes) ≤ colW := by
    show 2 * rootDepth + digitsNeeded o.addrbase ((geom o rootBits start len).startLineByte + i * o.lineBytes) ≤ colW
    omega
  refine ⟨h1, ?_⟩
  intro h0
  subst h0
  have hc := addrCell_eq o colW 0 _ h1
  have hl := addrText_length o colW 0 _ h1
  refine ⟨?_, ?_⟩
  · rw [hc]; exact List.take_of_length_le (by omega)
  · simp only [addrText, rootIndent, Nat.mul_zero, List.replicate_zero, List.nil_append, Nat.sub_zero]
    exact parseAddr_padFormat _ _ _ hab.1 hab.2

/-- The float-logarithm implementation returns one digit too few at some exact powers of the base
    (`DigitsInBase(1000, true, 10) = 3`, replayed on fq by corpus line `digits 10 1000`).  That is
    harmless: the column then still holds every address below the stop byte count, because
    `b^(k+1) - 1` needs exactly one digit less than `b^(k+1)`. -/
theorem digits_quirk_harmless (b k : Nat) (hb : 2 ≤ b) :
    digitsNeeded b (b ^ (k + 1) - 1) + 1 = digitsNeeded b (b ^ (k + 1))
      ∧ ∀ a, a < b ^ (k + 1) → digitsNeeded b a ≤ digitsNeeded b (b ^ (k + 1)) - 1 := by
  have h1 := (formatBase_length_pow b hb k).2
  have h2 := (formatBase_length_pow b hb (k + 1)).1
  have e : digitsNeeded b (b ^ (k + 1) - 1) + 1 = digitsNeeded b (b ^ (k + 1)) := by
    unfold digitsNeeded; omega
  refine ⟨e, ?_⟩
  intro a ha
  have := digitsNeeded_mono b a (b ^ (k + 1) - 1) hb (by omega)
  omega

example : digitsNeeded 16 255 ≤ 4 := by decide

example : ∃ (o : Opts) (root : List UInt8) (rootBits start len : Nat), 1 ≤ o.lineBytes ∧ 0 < len
    ∧ start + len ≤ rootBits ∧ (rootBits + 7) / 8 ≤ root.length :=
  ⟨⟨4, 16, 10, 0⟩, [1, 2, 3, 4, 5, 6, 7, 8, 9], 70, 11, 40, by decide⟩

/-- A value that `display_bytes` does not truncate is shown completely: the displayed bytes are
    exactly the bytes `startByte … stopByte` of the root buffer (each once, by `dump_addresses`), and
    no truncation marker is written. -/
theorem dump_complete (o : Opts) (root : List UInt8) (rootBits start len : Nat)
    (hlen : 0 < len) (hin : start + len ≤ rootBits) (hroot : (rootBits + 7) / 8 ≤ root.length)
    (hfit : o.displayBytes = 0 ∨ len ≤ o.displayBytes * 8) :
    let g := geom o rootBits start len
    g.lastDisplayByte = g.stopByte
      ∧ (dataBytes root g.startByte g.displaySizeBits).length = g.stopByte - g.startByte + 1 := by
  intro g
  have hlenB := dataBytes_length o root rootBits start len hlen hin hroot
  obtain ⟨_, _, f3, f4, _, _, _, _, _⟩ := geom_fields o rootBits start len
  obtain ⟨_, _, b3, _⟩ := lastDisplayBit_bounds o start len hlen
  have e : g.lastDisplayByte = g.stopByte := by
    show (geom o rootBits start len).lastDisplayByte = (geom o rootBits start len).stopByte
    rw [f3, f4, b3 hfit]
  refine ⟨e, ?_⟩
  rw [← e]; exact hlenB

/-- Truncation happens only when `display_bytes` asks for it, shows at least `display_bytes` bytes,
    and is announced: the hex column then ends with a new line holding the "until" marker, whose
    stop token reads back to the value's true last bit. -/
theorem truncation_marker (o : Opts) (W : Nat) (indent : List Char) (root : List UInt8) (rootBits start len : Nat)
    (hab : 2 ≤ o.addrbase ∧ o.addrbase ≤ 36) (hlen : 0 < len) :
    let g := geom o rootBits start len
    g.stopByte ≠ g.lastDisplayByte →
      (0 < o.displayBytes ∧ o.displayBytes * 8 < len ∧ g.startByte + o.displayBytes ≤ g.lastDisplayByte + 1)
      ∧ (∃ pre, (dataColumns o W indent root rootBits start len).2.1 = pre ++ ['\n'] ++ untilText o rootBits start len)
      ∧ (∃ post, untilText o rootBits start len
            = untilWord ++ stringByteBits o.addrbase (start + len - 1) ++ post)
      ∧ parseByteBits o.addrbase (stringByteBits o.addrbase (start + len - 1)) = some (start + len - 1) := by
  intro g htr
  obtain ⟨_, f2, f3, f4, _, _, _, _, _⟩ := geom_fields o rootBits start len
  obtain ⟨_, _, _, b4⟩ := lastDisplayBit_bounds o start len hlen
  have hne : lastDisplayBitOf o start len ≠ start + len - 1 := by
    intro e; apply htr
    show (geom o rootBits start len).stopByte = (geom o rootBits start len).lastDisplayByte
    rw [f3, f4, e]
  obtain ⟨c1, c2, c3⟩ := b4 hne
  refine ⟨⟨c1, c2, ?_⟩, ?_, ?_, parseByteBits_string _ _ hab.1 hab.2⟩
  · show (geom o rootBits start len).startByte + o.displayBytes ≤ (geom o rootBits start len).lastDisplayByte + 1
    rw [f2, f4]; omega
  · exact hexCol_until o W indent root rootBits start len htr
  · exact untilText_shape o rootBits start len

example : (geom ⟨8, 16, 10, 3⟩ 208 11 139).stopByte ≠ (geom ⟨8, 16, 10, 3⟩ 208 11 139).lastDisplayByte := by decide

/-! ### columnwriter: row assembly -/

/-- `columnwriter.Writer.Flush` (model `flush`): the number of output lines is the largest number of
    COMPLETE lines any column held before `PreFlush` (bar columns count 1) — the quirk of
    columnwriter.go:177-187 — and output line `k` is the concatenation, column by column, of
    `FlushLine k`: for a text column its `k`-th line cut to the column width and, unless it is the
    last column, padded to exactly that width (so every bar is at a fixed position); for a bar
    column the bar. -/
theorem flush_rows_aligned (cols : List Column) :
    (flush cols).length = (cols.map Column.linesBefore).foldl max 0
    ∧ (∀ k, k < (cols.map Column.linesBefore).foldl max 0 →
        (flush cols)[k]? = some
          ((cols.zipIdx.map fun (c, i) => c.flushLine k (i + 1 == cols.length)).flatten))
    ∧ (∀ (wd : Nat) (t : List Char) (k : Nat),
        (Column.multi (some wd) t).flushLine k false
          = fitCell wd (((Column.multi (some wd) t).linesAfter)[k]?.getD [])
        ∧ ((Column.multi (some wd) t).flushLine k false).length = wd) := by
  refine ⟨(flush_rows cols).1, (flush_rows cols).2, ?_⟩
  intro wd t k
  refine ⟨flushLine_multi wd t k, ?_⟩
  rw [flushLine_multi]; exact fitCell_length _ _

/-- the quirk is real in the model (and in fq: `colw` correspondence cases): an unterminated second
    line of a column is dropped when no column has two complete lines -/
theorem flush_drops_partial_witness :
    flush [.multi (some 2) "a\nb".toList, .bar ['|'], .multi none "x\n".toList] = ["a |x".toList] := by
  decide

/-- In a dump the quirk never bites, and rows stay together: for the data of one value (second
    `Flush` of dumpEx, any root depth) the hex and ascii layouts have exactly `addrLines` rows, and
    output line `i` is
      address cell of line `i` | `i`-th row of hex cells (+ optional end marker `|`) | `i`-th row of
      ascii cells (+ optional marker) | tree cell,
    where the rows fit their columns (nothing is cut), and displayed byte `j` is the cell at row
    `(off+j)/lineBytes`, position `(off+j)%lineBytes` of both rows — the very row whose address cell
    is `startLineByte + row*lineBytes` (`dump_addresses`). -/
theorem dump_row_alignment (o : Opts) (colW rd : Nat) (root : List UInt8) (rootBits start len : Nat)
    (tree : List Char) (hlb : 1 ≤ o.lineBytes) (hab : 2 ≤ o.addrbase ∧ o.addrbase ≤ 36)
    (hlen : 0 < len) (hin : start + len ≤ rootBits) (hroot : (rootBits + 7) / 8 ≤ root.length) :
    let g := geom o rootBits start len
    let bytes := dataBytes root g.startByte g.displaySizeBits
    let off := g.startLineByteOffset
    let hexRows := rowsFrom o.lineBytes 0 (hexCells off bytes)
    let ascRows := rowsFrom o.lineBytes 0 (asciiCells off bytes)
    let dc := dataColumns o (colW - rd) (rootIndent rd) root rootBits start len
    hexRows.length = g.addrLines ∧ ascRows.length = g.addrLines
    ∧ (∀ i, i < g.addrLines → ∃ hr ar mh ma tc,
        hexRows[i]? = some hr ∧ ascRows[i]? = some ar
        ∧ (flush (mkCols o colW dc.1 dc.2.1 dc.2.2 tree))[i]?
            = some (addrCell o colW rd (g.startLineByte + i * o.lineBytes) ++ ['|']
                ++ fitCell (o.lineBytes * 3 - 1) (joinSp [' '] hr ++ mh) ++ ['|']
                ++ fitCell o.lineBytes (joinSp [] ar ++ ma) ++ ['|'] ++ tc)
        ∧ (joinSp [' '] hr).length ≤ o.lineBytes * 3 - 1 ∧ (joinSp [] ar).length ≤ o.lineBytes
        ∧ (mh = [] ∨ mh = ['|']) ∧ (ma = [] ∨ ma = ['|']))
    ∧ (∀ j (hj : j < bytes.length),
        (hexRows[(off + j) / o.lineBytes]?).bind (·[(off + j) % o.lineBytes]?) = some (hexPair bytes[j])
        ∧ (ascRows[(off + j) / o.lineBytes]?).bind (·[(off + j) % o.lineBytes]?) = some [safeAscii bytes[j]]) := by
  intro g bytes off hexRows ascRows dc
  obtain ⟨h1, h2, h3⟩ := dump_rows o colW rd root rootBits start len tree hlb hab hlen hin hroot
  exact ⟨h1, h2, h3, fun j hj => cells_in_rows o.lineBytes off hlb bytes j hj⟩

/-! ### colour -/

/-- With colour on, dump.go wraps every hex pair and ascii character in the escape codes of
    `ByteColor(b)` (any codes, possibly different per byte).  Stripping the escape sequences from
    what the writers then emit — for any chunking — gives exactly the colourless text, and no escape
    sequence is left open. -/
theorem color_transparent_cells (set reset : UInt8 → List Char) (hm : ∀ b, 'm' ∉ set b ∧ 'm' ∉ reset b)
    (w start : Nat) (hw : 1 ≤ w) (chunks : List (List UInt8)) (hc : chunks ≠ []) :
    strip (hexRunF (colourHex set reset) w start 0 chunks) = hexRun w start 0 chunks
    ∧ balanced (hexRunF (colourHex set reset) w start 0 chunks)
    ∧ strip (asciiRunF (colourAscii set reset) w start 0 chunks) = asciiRun w start 0 chunks
    ∧ balanced (asciiRunF (colourAscii set reset) w start 0 chunks) :=
  ⟨(strip_hexRunF set reset hm w start hw chunks hc).1, (strip_hexRunF set reset hm w start hw chunks hc).2,
   (strip_asciiRunF set reset hm w start hw chunks hc).1, (strip_asciiRunF set reset hm w start hw chunks hc).2⟩

example : strip (hexRunF (colourHex (fun _ => "31".toList) (fun _ => "39".toList)) 4 1 0 [[1], [2, 255]])
    = "   01 02 ff".toList := by decide

/-- `ansi.Slice(s, 0, n)` (what cuts an over-long coloured cell) shows exactly the first `n` visible
    characters; `ansi.Len` counts the visible characters. -/
theorem ansi_slice_true (n : Nat) (hn : 1 ≤ n) (s : List Char) (h : n < ansiLen s) :
    strip (ansiSlice0 n s) = (strip s).take n ∧ balanced (ansiSlice0 n s) := ansiSlice0_spec n hn s h

/-- An output line with colour on: the columnwriter measures, cuts and pads the coloured cells with
    `ansi.Len`/`ansi.Slice`.  Stripping the escape sequences of the printed line gives exactly the
    line printed with colour off (for the stripped cells), whatever the codes are, as long as no
    cell leaves an escape sequence open. -/
theorem color_transparent (W hw aw : Nat) (hW : 1 ≤ W) (hhw : 1 ≤ hw) (haw : 1 ≤ aw)
    (a h s t : List Char) (ba : balanced a) (bh : balanced h) (bs : balanced s) :
    strip (fitCellC W a ++ ['|'] ++ fitCellC hw h ++ ['|'] ++ fitCellC aw s ++ ['|'] ++ t)
      = fitCell W (strip a) ++ ['|'] ++ fitCell hw (strip h) ++ ['|'] ++ fitCell aw (strip s) ++ ['|'] ++ strip t := by
  obtain ⟨a1, a2⟩ := fitCellC_strip W hW a ba
  obtain ⟨h1, h2⟩ := fitCellC_strip hw hhw h bh
  obtain ⟨s1, s2⟩ := fitCellC_strip aw haw s bs
  have bar := plain_strip ['|'] (by decide)
  have cl : ∀ x : List Char, stateAfter false x = false → stateAfter false (x ++ ['|']) = false := by
    intro x hx; rw [stateAfter_append, hx]; exact bar.2
  have st : ∀ x : List Char, stateAfter false x = false → strip (x ++ ['|']) = strip x ++ ['|'] := by
    intro x hx; rw [strip_append_closed _ _ hx]; simp [strip, bar.1]
  have c1 := cl _ a2
  have c2 : stateAfter false (fitCellC W a ++ ['|'] ++ fitCellC hw h) = false := by
    rw [stateAfter_append, c1]; exact h2
  have c3 := cl _ c2
  have c4 : stateAfter false (fitCellC W a ++ ['|'] ++ fitCellC hw h ++ ['|'] ++ fitCellC aw s) = false := by
    rw [stateAfter_append, c3]; exact s2
  have c5 := cl _ c4
  rw [strip_append_closed _ _ c5, st _ c4, strip_append_closed _ _ c3, st _ c2,
    strip_append_closed _ _ c1, st _ a2, a1, h1, s1]

/-! ### known finding `nested-root-address-truncated` -/

/-- Exactly when the printed address of a row differs from the address dumpEx wrote: `colW` is the
    address column width (`maxAddrIndentWidth`, at least `2*rootDepth + digits` for every value by
    its definition as a maximum — the hypothesis).  The text written is `colW + rootDepth` characters
    long, what is printed is its first `colW` characters, and the two differ iff the row belongs to a
    nested root buffer (`rootDepth ≥ 1`): then the last `rootDepth` digits of the address are lost,
    for EVERY row of that buffer. -/
theorem nested_addr_truncated_iff (o : Opts) (colW rootDepth a : Nat)
    (h : 2 * rootDepth + digitsNeeded o.addrbase a ≤ colW) :
    (addrText o colW rootDepth a).length = colW + rootDepth
      ∧ addrCell o colW rootDepth a = (addrText o colW rootDepth a).take colW
      ∧ (addrCell o colW rootDepth a ≠ addrText o colW rootDepth a ↔ 1 ≤ rootDepth) := by
  have hl := addrText_length o colW rootDepth a h
  have hc := addrCell_eq o colW rootDepth a h
  refine ⟨hl, hc, ?_⟩
  rw [hc]
  constructor
  · intro hne
    rcases Nat.eq_zero_or_pos rootDepth with h0 | h0
    · exfalso; apply hne
      exact List.take_of_length_le (by omega)
    · exact h0
  · intro hd heq
    have : ((addrText o colW rootDepth a).take colW).length = colW := by
      rw [List.length_take]; omega
    rw [heq] at this
    omega

/-- witness (the `uncompressed` rows of `fq -d gzip dd`): column width 7, root depth 1, byte offset
    0x10 is written as `  0x0010` and printed as `  0x001` -/
theorem nested_addr_truncated_witness :
    addrText ⟨16, 16, 10, 0⟩ 7 1 16 = "  0x0010".toList ∧ addrCell ⟨16, 16, 10, 0⟩ 7 1 16 = "  0x001".toList
      ∧ 2 * 1 + digitsNeeded 16 16 ≤ 7 := by
  decide

/-! ### known finding `header-overflow` -/

/-- Known finding `header-overflow`: with addrbase 2 and five bytes per line the label printed
    above column 4 reads `10` (the header is `00 01 10 11 100`, cut at the column width 14). -/
theorem header_overflow_witness :
    ((flush (mkCols ⟨5, 2, 10, 0⟩ 0 [] (hexHeader ⟨5, 2, 10, 0⟩) (asciiHeader ⟨5, 2, 10, 0⟩) [])).head?
      = some "|00 01 10 11 10|01010|".toList) := by
  decide

/-! ### FLOAT-valued JSON numbers

  `floatTextTrue bits text` (FqModel/C10Float.lean): `text` is a JSON number whose exact decimal
  value rounds (nearest, ties to even) to the binary64 with bit pattern `bits` — the text READS
  BACK to the float.  strconv's shortest-digit choice is not modelled; the driver evaluates this
  predicate on every number fq prints for a float (op `jsonf`).  Full statement wanted:
  "for every binary64 x, what fq prints for x is true for x" — this needs a model of
  strconv.AppendFloat (Ryu/Grisu shortest digits) and is NOT proved; proved instead: the
  predicate accepts the exact integer text of every integer-valued float (so the integer fast path
  some encoders take is judged exactly), fixes the sign, and rejects the int64 wrap-around. -/

/-- For EVERY finite integer-valued binary64 (any magnitude, in particular |x| < 2^63) other than
    ±0, the decimal integer text of its exact value is a true rendering. -/
theorem float_text_true_int (bits : Nat) (n : Int) (hb : bits < 2 ^ 64)
    (hv : floatIntValue bits = some n) (hn : n ≠ 0) :
    floatTextTrue bits (encInt n) = true := by
  unfold floatTextTrue
  rw [parseNumber_encInt]
  unfold floatIntValue at hv
  simp only at hv
  split at hv
  · exact absurd hv (by simp)
  · rename_i hfin
    split at hv
    · rename_i hmod
      have hdiv : magS (bits % 2 ^ 63) / 2 ^ 1074 * 2 ^ 1074 = magS (bits % 2 ^ 63) :=
        Nat.div_mul_cancel (Nat.dvd_of_mod_eq_zero hmod)
      split at hv
      · rename_i hs
        have hv' := Option.some.inj hv
        have hneg : n < 0 := by
          rw [← hv'] at hn ⊢
          omega
        have hk : n.natAbs = magS (bits % 2 ^ 63) / 2 ^ 1074 := by rw [← hv']; omega
        have := decRoundsTo_exact bits n.natAbs hb (by omega) (by rw [hk]; exact hdiv)
        simpa [hneg, hs] using this
      · rename_i hs
        have hv' := Option.some.inj hv
        have hneg : ¬ n < 0 := by rw [← hv']; omega
        have hk : n.natAbs = magS (bits % 2 ^ 63) / 2 ^ 1074 := by rw [← hv']; omega
        have := decRoundsTo_exact bits n.natAbs hb (by omega) (by rw [hk]; exact hdiv)
        simpa [hneg, hs] using this
    · exact absurd hv (by simp)

set_option exponentiation.threshold 4096 in
/-- non-vacuity: the float 2^63 is integer valued, its text is `9223372036854775808`; the float
    −(2^53+2) likewise -/
example : floatIntValue 0x43E0000000000000 = some (2 ^ 63)
    ∧ encInt (2 ^ 63) = "9223372036854775808".toList
    ∧ floatIntValue 0xC340000000000001 = some (-(2 ^ 53 + 2)) := by decide +kernel

set_option exponentiation.threshold 4096 in
/-- zero: `0` is true for +0 only, `-0` for −0 only (jq keeps the sign of zero) -/
theorem float_text_zero :
    floatTextTrue 0 "0".toList = true ∧ floatTextTrue (2 ^ 63) "-0".toList = true
      ∧ floatTextTrue (2 ^ 63) "0".toList = false ∧ floatTextTrue 0 "-0".toList = false := by
  decide +kernel

/-- a true text carries the float's sign: it starts with `-` exactly when the sign bit is set -/
theorem float_text_sign (bits : Nat) (text : List Char) (h : floatTextTrue bits text = true) :
    text.head? = some '-' ↔ 2 ^ 63 ≤ bits := by
  unfold floatTextTrue at h
  split at h
  · exact absurd h (by simp)
  · rename_i neg m e hp
    have hs : neg = decide (bits ≥ 2 ^ 63) := by
      unfold decRoundsTo at h
      simp only [Bool.and_eq_true, beq_iff_eq] at h
      exact h.1.1.2
    unfold parseJsonNumberExact at hp
    split at hp
    · cases hu : parseUnsignedNumber _ with
      | none => rw [hu] at hp; exact absurd hp (by simp)
      | some me =>
        rw [hu] at hp
        have : neg = true := by simp [Option.map] at hp; exact hp.1
        rw [this] at hs
        simpa using hs.symm
    · rename_i hnot
      cases hu : parseUnsignedNumber text with
      | none => rw [hu] at hp; exact absurd hp (by simp)
      | some me =>
        rw [hu] at hp
        have hneg : neg = false := by simp [Option.map] at hp; exact hp.1
        rw [hneg] at hs
        have hb : ¬ 2 ^ 63 ≤ bits := by simpa using hs.symm
        constructor
        · intro hh
          cases text with
          | nil => simp at hh
          | cons c cs =>
            have : c = '-' := by simpa using hh
            subst this
            exact absurd rfl (hnot cs)
        · intro h2; exact absurd h2 hb

set_option exponentiation.threshold 4096 in
example : floatTextTrue 0xBFB999999999999A "-0.1".toList = true
    ∧ floatTextTrue 0x3FB999999999999A "1e-1".toList = true := by decide +kernel

set_option exponentiation.threshold 4096 in
/-- WITNESS of the defect class "integer-valued floats printed through int64": the float 2^63
    passes a guard `f <= math.MaxInt64` (the constant rounds up to 2^63 as a float64), `int64(f)`
    wraps, and the text `-9223372036854775808` is NOT a true rendering of 2^63; the true integer text
    and strconv's `9223372036854776000` are. -/
theorem float_text_wrap_witness :
    floatTextTrue 0x43E0000000000000 "-9223372036854775808".toList = false
      ∧ floatTextTrue 0x43E0000000000000 "9223372036854775808".toList = true
      ∧ floatTextTrue 0x43E0000000000000 "9223372036854776000".toList = true := by
  decide +kernel

set_option exponentiation.threshold 4096 in
/-- the rounding interval is exact at its ends: 2^53+1 lies halfway between the floats 2^53 and
    2^53+2 and reads back to the even one; the smallest subnormal and the largest finite float read
    back from strconv's shortest texts; anything at or above the overflow threshold is not a text of
    MaxFloat64 -/
theorem float_text_boundaries :
    floatTextTrue 0x4340000000000000 "9007199254740993".toList = true
      ∧ floatTextTrue 0x4340000000000001 "9007199254740993".toList = false
      ∧ floatTextTrue 1 "5e-324".toList = true
      ∧ floatTextTrue maxFloatBits "1.7976931348623157e+308".toList = true
      ∧ floatTextTrue maxFloatBits "1.7976931348623159e+308".toList = false
      ∧ floatShownTrue infBits "1.7976931348623157e+308".toList = true
      ∧ floatShownTrue (infBits + 1) "null".toList = true := by
  decide +kernel

end Props.C10
