import FqModel.Dump
import FqModel.C10Json
import Proofs.C10Writers
import Proofs.C10Num
import Proofs.C10Json
import Proofs.C10Dump
/-!
  C10 — property theorems about the model of fq's display code (FqModel/Dump.lean,
  FqModel/C10Json.lean).  Helper lemmas live in Proofs/C10*.lean.  All theorems hold for every
  byte string, width ≥ 1, start offset, chunking, base 2..36 and integer — no size bound.
-/
namespace Props.C10
open FqModel.Dump FqModel.C10Json Proofs.C10Writers Proofs.C10Num Proofs.C10Json Proofs.C10Dump

/-! ### hexpairwriter -/

/-- What the hexpair writer emits does not depend on how the bytes are cut into `Write` calls
    (empty calls included): it is always the layout `hexSpec`. -/
theorem hexpair_chunk_indep (w start : Nat) (hw : 1 ≤ w) (chunks : List (List UInt8)) (hc : chunks ≠ []) :
    hexRun w start 0 chunks = hexSpec w start chunks.flatten
      ∧ hexRun w start 0 chunks = hexRun w start 0 [chunks.flatten] := by
  have key : ∀ cs : List (List UInt8), cs ≠ [] → hexRun w start 0 cs = hexSpec w start cs.flatten := by
    intro cs h
    cases cs with
    | nil => exact absurd rfl h
    | cons p ps => simpa [hexSpec] using hexRun_pad w start hw p ps 0 (Nat.zero_le _)
  refine ⟨key chunks hc, ?_⟩
  rw [key chunks hc, key [chunks.flatten] (by simp)]
  simp

example : hexRun 4 2 0 [[1, 2], [], [3, 255, 16]] = "      01 02\n03 ff 10".toList := by decide

/-- Reading the hex text back: the `k`-th cell in reading order sits at row `k / w`, column `k % w`;
    the first `start` cells are blank and the following cells are exactly the input bytes, each once —
    i.e. cell (row r, col c) holds byte `r*w + c − start`. -/
theorem hexpair_parse_back (w start : Nat) (hw : 1 ≤ w) (chunks : List (List UInt8))
    (hne : chunks.flatten ≠ []) :
    parseHex 0 0 (hexRun w start 0 chunks)
      = expectCells w 0 (List.replicate start Cell.blank ++ chunks.flatten.map Cell.byte) := by
  have hc : chunks ≠ [] := by intro h; rw [h] at hne; exact hne rfl
  rw [(hexpair_chunk_indep w start hw chunks hc).1]
  have := parseHex_pad w hw chunks.flatten hne start 0
  simpa [hexSpec] using this

/-- … hence the cell showing input byte `j` is at row `(start+j)/w`, column `(start+j)%w`. -/
theorem hexpair_cell_of_byte (w start : Nat) (hw : 1 ≤ w) (bs : List UInt8) (j : Nat) (hj : j < bs.length) :
    (parseHex 0 0 (hexRun w start 0 [bs]))[start + j]?
      = some ((start + j) / w, (start + j) % w, Cell.byte bs[j]) :=
  cell_of_byte w start hw bs j hj

example : parseHex 0 0 (hexRun 4 2 0 [[1, 2], [3, 255, 16]])
    = [(0, 0, .blank), (0, 1, .blank), (0, 2, .byte 1), (0, 3, .byte 2),
       (1, 0, .byte 3), (1, 1, .byte 255), (1, 2, .byte 16)] := by decide

/-! ### asciiwriter -/

theorem ascii_chunk_indep (w start : Nat) (hw : 1 ≤ w) (chunks : List (List UInt8)) (hc : chunks ≠ []) :
    asciiRun w start 0 chunks = asciiSpec w start chunks.flatten
      ∧ asciiRun w start 0 chunks = asciiRun w start 0 [chunks.flatten] := by
  have key : ∀ cs : List (List UInt8), cs ≠ [] → asciiRun w start 0 cs = asciiSpec w start cs.flatten := by
    intro cs h
    cases cs with
    | nil => exact absurd rfl h
    | cons p ps => simpa [asciiSpec] using asciiRun_pad w start hw p ps 0 (Nat.zero_le _)
  refine ⟨key chunks hc, ?_⟩
  rw [key chunks hc, key [chunks.flatten] (by simp)]
  simp

/-- ascii twin of `hexpair_parse_back`: every character sits at row `k / w`, column `k % w` and is
    `SafeASCII` of input byte `k − start` (blanks before).  `start < w` is what dump.go passes
    (`startByte % LineBytes`); for `start ≥ w` the writer drops the padding cell at a line end. -/
theorem ascii_parse_back (w start : Nat) (hw : 1 ≤ w) (hs : start < w) (chunks : List (List UInt8))
    (hne : chunks.flatten ≠ []) :
    parseAscii 0 0 (asciiRun w start 0 chunks)
      = expectCells w 0 (List.replicate start ' ' ++ chunks.flatten.map safeAscii) := by
  have hc : chunks ≠ [] := by intro h; rw [h] at hne; exact hne rfl
  rw [(ascii_chunk_indep w start hw chunks hc).1]
  have := parseAscii_pad w hw chunks.flatten hne start 0 (by simpa using hs)
  simpa [asciiSpec] using this

example : asciiRun 4 2 0 [[65], [66, 0, 200, 67]] = "  AB\n..C".toList := by decide
example : ∃ w start, 1 ≤ w ∧ start < w ∧ ([[65], [66]] : List (List UInt8)).flatten ≠ [] := ⟨4, 2, by decide⟩

/-! ### numbers -/

/-- `strconv.FormatUint` read back: digits of `n` in base `b` denote `n`, and there is no leading
    zero (the zeros `PadFormatInt` adds are the only ones). -/
theorem formatBase_roundtrip (b n : Nat) (hb : 2 ≤ b) (hb36 : b ≤ 36) :
    parseBase b (formatBase b n) = some n ∧ (n ≠ 0 → (formatBase b n).head? ≠ some '0') :=
  ⟨parseBase_formatBase b n hb hb36, formatBase_no_leading_zero b n hb hb36⟩

example : formatBase 36 46655 = "zzz".toList ∧ formatBase 2 5 = "101".toList := by decide

/-- a printed (prefixed, zero padded) address reads back to the address -/
theorem address_roundtrip (b n width : Nat) (hb : 2 ≤ b) (hb36 : b ≤ 36) :
    parseAddr b (padFormat n b true width) = some n := parseAddr_padFormat b n width hb hb36

example : padFormat 21 2 true 9 = "0b0010101".toList := by decide

/-- the verbose `start-stop (size)` notation (bytes`.`bits in the chosen base) reads back to the
    value's actual range and size -/
theorem verbose_range_true (b start len : Nat) (hb : 2 ≤ b) (hb36 : b ≤ 36) :
    parseRangeByteBits b (rangeByteBits b start len) = some (start, start + len)
      ∧ parseByteBits b (stringByteBits b len) = some len :=
  ⟨parseRange_string b start len hb hb36, parseByteBits_string b len hb hb36⟩

example : rangeByteBits 2 11 139 = "0b1.11-0b10010.110".toList := by decide

/-! ### JSON -/

/-- integers of any magnitude are printed exactly -/
theorem json_int_exact (indent : Nat) (n : Int) :
    parseJson (encodeJson indent (JV.int n)) = some (JV.int n) := by
  simpa [encodeJson, normalize, encode] using parseJson_encInt n

example : encodeJson 0 (JV.int (-(2 ^ 64 + 1))) = "-18446744073709551617".toList := by decide

/-- strings (any code points: quotes, backslashes, control characters, DEL, non-ASCII) survive -/
theorem json_string_roundtrip (indent : Nat) (s : List Char) :
    parseJson (encodeJson indent (JV.str s)) = some (JV.str s) := by
  simpa [encodeJson, normalize, encode] using parseJson_encString s

example : encodeJson 0 (JV.str ['a', '"', '\n', '\x7f', 'é']) = "\"a\\\"\\n\\u007fé\"".toList := by decide

/-! ### dump.go: addresses, completeness, truncation (the model of dumpEx) -/

/-- Every hex cell of a dumped value is the root buffer's byte at the address printed for its row
    plus its column.  For a value `[start, start+len)` (bits) inside a root buffer of `rootBits` bits:
    the hex column starts with the hexpair layout of `bytes`; byte `j` of it is `root[startByte + j]`,
    is shown (once, by `hexpair_parse_back`) at row `r`, column `c`; the address line `r` exists, reads
    back to `startLineByte + r*lineBytes`, and that address plus `c` is `startByte + j`; and there are
    exactly as many hex rows as address lines. -/
theorem dump_addresses (o : Opts) (W : Nat) (indent : List Char) (root : List UInt8) (rootBits start len : Nat)
    (hlb : 1 ≤ o.lineBytes) (hab : 2 ≤ o.addrbase ∧ o.addrbase ≤ 36)
    (hlen : 0 < len) (hin : start + len ≤ rootBits) (hroot : (rootBits + 7) / 8 ≤ root.length) :
    let g := geom o rootBits start len
    let bytes := dataBytes root g.startByte g.displaySizeBits
    let off := g.startLineByteOffset
    (∃ tail, (dataColumns o W indent root rootBits start len).2.1 = hexRun o.lineBytes off 0 [bytes] ++ tail)
    ∧ bytes.length = g.lastDisplayByte - g.startByte + 1
    ∧ (off + (bytes.length - 1)) / o.lineBytes + 1 = g.addrLines
    ∧ ∀ j, j < bytes.length → ∃ b,
        root[g.startByte + j]? = some b
        ∧ (parseHex 0 0 (hexRun o.lineBytes off 0 [bytes]))[off + j]?
            = some ((off + j) / o.lineBytes, (off + j) % o.lineBytes, Cell.byte b)
        ∧ (off + j) / o.lineBytes < g.addrLines
        ∧ parseAddr o.addrbase (padFormat (g.startLineByte + (off + j) / o.lineBytes * o.lineBytes) o.addrbase true W)
            = some (g.startLineByte + (off + j) / o.lineBytes * o.lineBytes)
        ∧ g.startLineByte + (off + j) / o.lineBytes * o.lineBytes + (off + j) % o.lineBytes = g.startByte + j := by
  intro g bytes off
  obtain ⟨h1, h2, h3⟩ := cells_explicit o root rootBits start len hlb hlen hin hroot
  refine ⟨hexCol_prefix o W indent root rootBits start len, h1, h2, ?_⟩
  intro j hj
  obtain ⟨b, c1, c2, c3, c4⟩ := h3 j hj
  exact ⟨b, c1, c2, c3, parseAddr_padFormat _ _ _ hab.1 hab.2, c4⟩

/-- ascii twin: the ascii column starts with the ascii layout of the same bytes, whose characters
    sit at the same (row, column) as the hex cells and are `SafeASCII` of the bytes. -/
theorem dump_ascii (o : Opts) (W : Nat) (indent : List Char) (root : List UInt8) (rootBits start len : Nat)
    (hlb : 1 ≤ o.lineBytes) (hlen : 0 < len) (hin : start + len ≤ rootBits)
    (hroot : (rootBits + 7) / 8 ≤ root.length) :
    let g := geom o rootBits start len
    let bytes := dataBytes root g.startByte g.displaySizeBits
    (∃ tail, (dataColumns o W indent root rootBits start len).2.2
        = asciiRun o.lineBytes g.startLineByteOffset 0 [bytes] ++ tail)
    ∧ parseAscii 0 0 (asciiRun o.lineBytes g.startLineByteOffset 0 [bytes])
        = expectCells o.lineBytes 0 (List.replicate g.startLineByteOffset ' ' ++ bytes.map safeAscii) := by
  intro g bytes
  refine ⟨asciiCol_prefix o W indent root rootBits start len, ?_⟩
  have hl := dataBytes_length o root rootBits start len hlen hin hroot
  have hne : [bytes].flatten ≠ [] := by
    intro h
    have : bytes = [] := by simpa using h
    have h0 : bytes.length = 0 := by rw [this]; rfl
    have : bytes.length = g.lastDisplayByte - g.startByte + 1 := hl
    omega
  have hoff : g.startLineByteOffset < o.lineBytes := Nat.mod_lt _ hlb
  simpa using ascii_parse_back o.lineBytes g.startLineByteOffset hlb hoff [bytes] hne

/-- FULL statement (design `addr_width_enough`): every address line of a dump fits the address
    column, i.e. `DigitsInBase(BitsByteCount(stop), true, addrbase) ≥ digitsNeeded addrbase A` for
    every printed address `A`, so that `FlushLine` never cuts an address.
    PROVED part: a printed address is exactly as wide as the column whenever the column is at least
    `digitsNeeded` wide.  MISSING: `mathx.DigitsInBase` itself (float `math.Log`, not modelled) and
    the monotonicity of `digitsNeeded`; both are covered by the correspondence run only (`digits`
    cases for all n < 300 and around every power of 9 bases up to 2^40, and every dump case compares
    the observed column width with `digitsNeeded` and reads every printed address back). -/
theorem addr_width_enough_partial (n b W : Nat) (h : digitsNeeded b n ≤ W) :
    (padFormat n b true W).length = W := by
  rw [padFormat_length]; omega

example : digitsNeeded 16 255 ≤ 4 := by decide

example : ∃ (o : Opts) (root : List UInt8) (rootBits start len : Nat), 1 ≤ o.lineBytes ∧ 0 < len
    ∧ start + len ≤ rootBits ∧ (rootBits + 7) / 8 ≤ root.length :=
  ⟨⟨4, 16, 10, 0⟩, [1, 2, 3, 4, 5, 6, 7, 8, 9], 70, 11, 40, by decide⟩

/-- A value that `display_bytes` does not truncate is shown completely: the displayed bytes are
    exactly the bytes `startByte … stopByte` of the root buffer (each once, by `dump_addresses`), and
    no truncation marker is written. -/
theorem dump_complete (o : Opts) (root : List UInt8) (rootBits start len : Nat)
    (hlen : 0 < len) (hin : start + len ≤ rootBits) (hroot : (rootBits + 7) / 8 ≤ root.length)
    (hfit : o.displayBytes = 0 ∨ len ≤ o.displayBytes * 8) :
    let g := geom o rootBits start len
    g.lastDisplayByte = g.stopByte
      ∧ (dataBytes root g.startByte g.displaySizeBits).length = g.stopByte - g.startByte + 1 := by
  intro g
  have hlenB := dataBytes_length o root rootBits start len hlen hin hroot
  obtain ⟨_, _, f3, f4, _, _, _, _, _⟩ := geom_fields o rootBits start len
  obtain ⟨_, _, b3, _⟩ := lastDisplayBit_bounds o start len hlen
  have e : g.lastDisplayByte = g.stopByte := by
    show (geom o rootBits start len).lastDisplayByte = (geom o rootBits start len).stopByte
    rw [f3, f4, b3 hfit]
  refine ⟨e, ?_⟩
  rw [← e]; exact hlenB

/-- Truncation happens only when `display_bytes` asks for it, shows at least `display_bytes` bytes,
    and is announced: the hex column then ends with a new line holding the "until" marker, whose
    stop token reads back to the value's true last bit. -/
theorem truncation_marker (o : Opts) (W : Nat) (indent : List Char) (root : List UInt8) (rootBits start len : Nat)
    (hab : 2 ≤ o.addrbase ∧ o.addrbase ≤ 36) (hlen : 0 < len) :
    let g := geom o rootBits start len
    g.stopByte ≠ g.lastDisplayByte →
      (0 < o.displayBytes ∧ o.displayBytes * 8 < len ∧ g.startByte + o.displayBytes ≤ g.lastDisplayByte + 1)
      ∧ (∃ pre, (dataColumns o W indent root rootBits start len).2.1 = pre ++ ['\n'] ++ untilText o rootBits start len)
      ∧ (∃ post, untilText o rootBits start len
            = untilWord ++ stringByteBits o.addrbase (start + len - 1) ++ post)
      ∧ parseByteBits o.addrbase (stringByteBits o.addrbase (start + len - 1)) = some (start + len - 1) := by
  intro g htr
  obtain ⟨_, f2, f3, f4, _, _, _, _, _⟩ := geom_fields o rootBits start len
  obtain ⟨_, _, _, b4⟩ := lastDisplayBit_bounds o start len hlen
  have hne : lastDisplayBitOf o start len ≠ start + len - 1 := by
    intro e; apply htr
    show (geom o rootBits start len).stopByte = (geom o rootBits start len).lastDisplayByte
    rw [f3, f4, e]
  obtain ⟨c1, c2, c3⟩ := b4 hne
  refine ⟨⟨c1, c2, ?_⟩, ?_, ?_, parseByteBits_string _ _ hab.1 hab.2⟩
  · show (geom o rootBits start len).startByte + o.displayBytes ≤ (geom o rootBits start len).lastDisplayByte + 1
    rw [f2, f4]; omega
  · exact hexCol_until o W indent root rootBits start len htr
  · exact untilText_shape o rootBits start len

example : (geom ⟨8, 16, 10, 3⟩ 208 11 139).stopByte ≠ (geom ⟨8, 16, 10, 3⟩ 208 11 139).lastDisplayByte := by decide

/-! ### known finding `nested-root-address-truncated` -/

/-- Exactly when the printed address of a row differs from the address dumpEx wrote: `colW` is the
    address column width (`maxAddrIndentWidth`, at least `2*rootDepth + digits` for every value by
    its definition as a maximum — the hypothesis).  The text written is `colW + rootDepth` characters
    long, what is printed is its first `colW` characters, and the two differ iff the row belongs to a
    nested root buffer (`rootDepth ≥ 1`): then the last `rootDepth` digits of the address are lost,
    for EVERY row of that buffer. -/
theorem nested_addr_truncated_iff (o : Opts) (colW rootDepth a : Nat)
    (h : 2 * rootDepth + digitsNeeded o.addrbase a ≤ colW) :
    (addrText o colW rootDepth a).length = colW + rootDepth
      ∧ addrCell o colW rootDepth a = (addrText o colW rootDepth a).take colW
      ∧ (addrCell o colW rootDepth a ≠ addrText o colW rootDepth a ↔ 1 ≤ rootDepth) := by
  have hl := addrText_length o colW rootDepth a h
  have hc := addrCell_eq o colW rootDepth a h
  refine ⟨hl, hc, ?_⟩
  rw [hc]
  constructor
  · intro hne
    rcases Nat.eq_zero_or_pos rootDepth with h0 | h0
    · exfalso; apply hne
      exact List.take_of_length_le (by omega)
    · exact h0
  · intro hd heq
    have : ((addrText o colW rootDepth a).take colW).length = colW := by
      rw [List.length_take]; omega
    rw [heq] at this
    omega

/-- witness (the `uncompressed` rows of `fq -d gzip dd`): column width 7, root depth 1, byte offset
    0x10 is written as `  0x0010` and printed as `  0x001` -/
theorem nested_addr_truncated_witness :
    addrText ⟨16, 16, 10, 0⟩ 7 1 16 = "  0x0010".toList ∧ addrCell ⟨16, 16, 10, 0⟩ 7 1 16 = "  0x001".toList
      ∧ 2 * 1 + digitsNeeded 16 16 ≤ 7 := by
  decide

/-! ### known finding `header-overflow` -/

/-- Known finding `header-overflow`: with addrbase 2 and five bytes per line the label printed
    above column 4 reads `10` (the header is `00 01 10 11 100`, cut at the column width 14). -/
theorem header_overflow_witness :
    ((flush (mkCols ⟨5, 2, 10, 0⟩ 0 [] (hexHeader ⟨5, 2, 10, 0⟩) (asciiHeader ⟨5, 2, 10, 0⟩) [])).head?
      = some "|00 01 10 11 10|01010|".toList) := by
  decide

end Props.C10
