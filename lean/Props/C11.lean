import Proofs.C11Rewrite
import Proofs.C11Slurp
import Proofs.C11Print
import Proofs.C11FullConv
import Proofs.C11Dir
import Proofs.C11Lex
/-!
  C11 — "the internal query rewrite preserves the meaning of the user's program": property theorems.

  Model: FqModel/Query.lean (`_query_*`, `_eval_query_rewrite` as functions on the JSON AST, transliterated from
  query.jq / eval.jq) and FqModel/C11Print.lean (printer and precedence-climbing parser of the operator core,
  precedence table of the fork's parser.go.y:41-52).  All statements are for ALL ASTs `q` (any JSON object) and
  all option records; nothing is bounded.

  What is NOT proved here and is covered by the correspondence run only: that the fork's printer/parser round-trips
  the constructs outside the operator core (string interpolation, object keys, patterns, index/slice suffixes,
  directives) — case kind `rt`; that the Lean parser agrees with the fork's yacc parser on the core — case kind `pp`.
-/
namespace Props.C11
open FqModel.C11 FqModel.C11.JV Proofs.C11

/-! ### the wrapper keeps the user's query, in parentheses -/

/-- Not slurp mode, a catch query is set (every caller of fq sets one: init.jq:159, repl.jq:233): the user's query
    `q` — with the identity term added when it has no main expression (eval.jq:47) — is, unchanged, the content of a
    parenthesis (`TermTypeQuery`) inside the rewritten query.  Precedence cannot leak: whatever stands around a
    parenthesis cannot re-associate with what is inside. -/
theorem rewrite_keeps_subtree (opts q : JV)
    (hs : (slurpOf opts q).truthy = false) (hc : (opts.get "catch_query").truthy = true) :
    Sub (queryQuery (if hasMain q then q else q.merge queryIdent)) (rewriteBody opts q) := by
  rw [rewriteBody_noslurp opts q hs]
  exact keeps_noslurp opts q hc

/-- Slurp mode (`… | repl`, `… | slurp("x")`, `… | help`): the user's query is handed to the slurp function as DATA —
    the literal of its AST (`orig`) and the literal of the wrapped pipeline without the slurp call (`rewrite`). -/
theorem rewrite_keeps_subtree_slurp (opts q : JV) (s : String) (hs : slurpOf opts q = .str s) :
    Sub (toquery q) (rewriteBody opts q) ∧
    Sub (toquery (wrapInput opts (wrapCatch opts (transformPipeLast (fun _ => queryIdent) (fuelOf q) q))))
      (rewriteBody opts q) :=
  slurp_keeps opts q s hs

/-- The literal encoding is faithful: the AST-of-the-literal that `_query_toquery` builds evaluates back to exactly
    the value it was built from, for every canonical JSON value without numbers (every AST `_query_fromstring`
    yields is one).  So in slurp mode `orig` and `rewrite` ARE the user's query and the wrapped pipeline. -/
theorem slurp_literal_faithful (x : JV) (fuel : Nat) (hc : Canon x) (hf : x.size + 1 ≤ fuel) :
    evalLit fuel (toquery x) = some x :=
  evalLit_toquery x fuel hc hf

/-! ### no binder is introduced -/

/-- The binders (`as` patterns, reduce/foreach, labels, function definitions with their parameters) of the rewritten
    query are exactly those of the user's query, in the same order: the wrapper adds none, so no variable, label
    or function of the user's program is captured and none of the wrapper's is visible to it. -/
theorem rewrite_no_new_binders (opts : JV) (kvs : List (String × JV))
    (hs : (slurpOf opts (.obj kvs)).truthy = false)
    (hi : binders (opts.get "input_query") = []) (hc : binders (opts.get "catch_query") = [])
    (ho : binders (opts.get "output_query") = []) :
    binders (rewriteBody opts (.obj kvs)) = binders (.obj kvs) := by
  rw [rewriteBody_noslurp opts _ hs]
  exact binders_noslurp opts kvs hi hc ho

/-- Slurp mode: the rewritten query is one function call on literals — no binder at all. -/
theorem rewrite_no_new_binders_slurp (opts q : JV) (s : String) (hs : slurpOf opts q = .str s) :
    binders (rewriteBody opts q) = [] :=
  slurp_binders opts q s hs

/-! ### the identifiers the wrapper introduces -/

/-- Every function or variable name in the rewritten query is one of the user's or one of the option queries'. -/
theorem wrapper_names_from_options (opts : JV) (kvs : List (String × JV)) (n : String)
    (hs : (slurpOf opts (.obj kvs)).truthy = false)
    (hn : n ∈ funcNames (rewriteBody opts (.obj kvs))) :
    n ∈ funcNames (.obj kvs) ∨ n ∈ funcNames (opts.get "input_query") ∨ n ∈ funcNames (opts.get "catch_query")
      ∨ n ∈ funcNames (opts.get "output_query") := by
  rw [rewriteBody_noslurp opts _ hs] at hn
  exact funcNames_noslurp opts kvs n hn

/-- Slurp mode: the only names are the slurp function itself and `empty` (from `_query_commas` of no arguments). -/
theorem wrapper_names_slurp (opts q : JV) (s : String) (hs : slurpOf opts q = .str s) :
    ∀ n ∈ funcNames (rewriteBody opts q), n = s ∨ n = "empty" :=
  slurp_names opts q s hs

/-- The option records fq really passes (command line with null / inputs / slurped inputs, `-i`, REPL, plain
    `eval`): their queries contain no binder and only names from the fixed list `wrapperNames`
    (`_`-prefixed internals, `inputs`), and their slurp functions are in that list too. -/
theorem real_options_internal :
    ∀ name ∈ realOptNames, ∀ o, optsOf name = some o →
      binders (o.get "input_query") = [] ∧ binders (o.get "catch_query") = [] ∧ binders (o.get "output_query") = [] ∧
      (∀ n ∈ funcNames (o.get "input_query") ++ funcNames (o.get "catch_query") ++ funcNames (o.get "output_query"),
        n ∈ wrapperNames) := by
  intro name hname o ho
  simp only [realOptNames, List.mem_cons, List.not_mem_nil, or_false] at hname
  rcases hname with h | h | h | h | h | h <;> subst h <;> simp only [optsOf, Option.some.injEq] at ho <;> subst ho <;> decide

/-- ⇒ with fq's own options every name of the rewritten query is the user's or internal -/
theorem wrapper_names_internal (name : String) (o : JV) (kvs : List (String × JV)) (n : String)
    (hname : name ∈ realOptNames) (ho : optsOf name = some o)
    (hs : (slurpOf o (.obj kvs)).truthy = false)
    (hn : n ∈ funcNames (rewriteBody o (.obj kvs))) :
    n ∈ funcNames (.obj kvs) ∨ n ∈ wrapperNames := by
  have h := (real_options_internal name hname o ho).2.2.2
  rcases wrapper_names_from_options o kvs n hs hn with h1 | h1 | h1 | h1
  · exact Or.inl h1
  · exact Or.inr (h n (by simp [h1]))
  · exact Or.inr (h n (by simp [h1]))
  · exact Or.inr (h n (by simp [h1]))

/-! ### directives -/

/-- `module` meta data and `import`/`include` directives of the user's program are those of the rewritten query's
    root, and every other member of the root is that of the rewritten body (query.jq:282-292). -/
theorem directives_preserved (opts : JV) (kvs : List (String × JV)) :
    (rewrite opts (.obj kvs)).get "meta" = (JV.obj kvs).get "meta" ∧
    (rewrite opts (.obj kvs)).get "imports" = (JV.obj kvs).get "imports" ∧
    ∀ k, k ≠ "meta" → k ≠ "imports" →
      (rewrite opts (.obj kvs)).get k = (rewriteBody opts (((JV.obj kvs).del "meta").del "imports")).get k :=
  directives opts kvs

/-! ### meaning -/

/-- The rewritten query IS `(input | try (q) catch c) | output` (absent parts left out) and MEANS that: for a user
    query with a main expression, not in slurp mode, the JSON rewrite equals the typed one, whose denotation is the
    composition of the denotations — the user's denotation `ρ.user kvs` occurs once, under `try`, unchanged.
    NB: errors of the OUTPUT query are not caught (the comment eval.jq:27 shows a different nesting). -/
theorem rewrite_sem (ρ : Env) (opts : JV) (o : WOpts) (kvs : List (String × JV))
    (hs : (slurpOf opts (.obj kvs)).truthy = false)
    (hi : opts.get "input_query" = optJ o.input) (hc : opts.get "catch_query" = optJ o.catch_)
    (ho : opts.get "output_query" = optJ o.output) (hm : hasMain (.obj kvs) = true) :
    rewriteBody opts (.obj kvs) = (rewriteQ o (.user kvs)).toJson ∧
    (rewriteQ o (.user kvs)).sem ρ =
      optPipeR (optPipeL (o.input.map (Q.sem ρ)) (optTry (ρ.user kvs) (o.catch_.map (Q.sem ρ)))) (o.output.map (Q.sem ρ)) := by
  constructor
  · rw [rewriteBody_noslurp opts _ hs]
    exact rewrite_typed opts o kvs hi hc ho hm
  · rw [rewriteQ_sem]; rfl

/-- Printing the left-nested pipe flat and parsing it back nests it to the right (`|` is %right): same meaning. -/
theorem reparse_sem (ρ : Env) (a b c : Q) :
    (Q.pipe (Q.pipe a b) c).sem ρ = (Q.pipe a (Q.pipe b c)).sem ρ := by
  simp only [Q.sem]
  exact semPipe_assoc _ _ _

/-! ### print / parse of the operator core -/

/-- For every well-formed operator tree — one the grammar derives without the help of parentheses; parentheses are
    nodes of the tree — the printed token sequence parses back to the same tree: all operators with the fork's
    precedences and associativities, non-associative levels, unary minus, postfix `?`, `as` bindings and labels
    extending to the right, bracketed constructs. -/
theorem print_parse (e : Print.E) (hw : Print.wf e = true) : Print.parse (Print.print e) = some e :=
  Proofs.C11.Print.print_parse e hw

/-- Conversely, whatever token sequence the parser accepts yields a well-formed tree whose printed form is that
    very sequence: `print` is the inverse of `parse` on everything the grammar accepts. -/
theorem parse_sound (ts : List Print.Tok) (e : Print.E) (h : Print.parse ts = some e) :
    Print.wf e = true ∧ Print.print e = ts :=
  Proofs.C11.Print.parse_sound ts e h

/-- ⇒ the property's round trip for the operator core: for every syntactically valid token sequence, the printed
    form of its tree parses to the same tree (nothing to normalise: the printer neither adds nor drops a
    parenthesis, they are nodes of the tree). -/
theorem print_parse_idem (ts : List Print.Tok) (e : Print.E) (h : Print.parse ts = some e) :
    Print.parse (Print.print e) = some e :=
  Proofs.C11.Print.parse_print_parse ts e h

/-! ### print / parse of the whole term and query grammar (FqModel/C11Full.lean)

  Tokens are the lexer's token classes; the grammar covers every production of the fork's parser.go.y for query, expr,
  term, string (with interpolation), suffix, args, patterns (destructuring, `?//`), object construction (all key
  forms, objectval), if/elif/else, try/catch, reduce, foreach (2 and 3 parts), label/break, def with parameters, unary
  plus/minus, postfix chains — see the header of FqModel/C11Full.lean for the four productions left out.  The Lean
  parser is tied to the fork's yacc parser by the `pp` cases (both directions, rejections included). -/

/-- The printed token sequence of every well-formed query tree parses back to that tree.  (Parentheses are nodes of
    the tree: there is nothing to normalise, the printer neither adds nor drops one.) -/
theorem print_parse_full (e : Full.E) (hw : Full.wf e = true) (hq : Full.cat e = .query) :
    Full.parse (Full.print e) = some e :=
  Proofs.C11.Full.print_parse e hw hq

/-- Whatever token sequence the parser accepts yields a well-formed query tree whose printed form is that very
    sequence: on the accepted language `print` is the inverse of `parse`. -/
theorem parse_sound_full (ts : List Full.Tok) (e : Full.E) (h : Full.parse ts = some e) :
    Full.wf e = true ∧ Full.cat e = .query ∧ Full.print e = ts :=
  Proofs.C11.Full.parse_sound ts e h

/-- ⇒ the property's round trip over the widened grammar: for every syntactically valid token sequence, the printed
    form of its tree parses to the same tree. -/
theorem print_parse_idem_full (ts : List Full.Tok) (e : Full.E) (h : Full.parse ts = some e) :
    Full.parse (Full.print e) = some e :=
  Proofs.C11.Full.parse_print_parse ts e h

/-- Programs with directives (`module {…};`, `import "p" as name {…};`, `include "p" {…};` in front of the query,
    FqModel/C11Dir.lean): the printed form of a well-formed program parses back to it. -/
theorem print_parse_prog (p : Dir.Prog) (hw : Dir.wfProg p = true) : Dir.parseProg (Dir.printProg p) = some p :=
  Proofs.C11.Dir.print_parse_prog p hw

/-- …and whatever the program parser accepts is well formed and prints to the input. -/
theorem parse_sound_prog (ts : List Full.Tok) (p : Dir.Prog) (h : Dir.parseProg ts = some p) :
    Dir.wfProg p = true ∧ Dir.printProg p = ts :=
  Proofs.C11.Dir.parse_sound_prog ts p h

/-- ⇒ round trip of every accepted program, directives included -/
theorem print_parse_idem_prog (ts : List Full.Tok) (p : Dir.Prog) (h : Dir.parseProg ts = some p) :
    Dir.parseProg (Dir.printProg p) = some p :=
  Proofs.C11.Dir.parse_print_parse_prog ts p h

/-! ### the lexical layer: text → tokens → text (FqModel/C11Lex.lean)

  fq's round trip is on TEXT: `_query_tostring` = the fork's `Query.String()`, then the fork's lexer and parser again.
  The fork keeps literals as follows: a number is stored as its source TEXT (`Term.Number string`), so the spelling
  (`0x10`, `0b1_0`, `1.`, `.5e+3`) survives, not only the value; a string is stored DECODED and printed by
  `jsonEncodeString`. -/

open FqModel.C11.Lex in
/-- For ALL strings (any sequence of Unicode scalar values: control characters, quotes, backslashes, DEL, non-ASCII):
    the literal the printer writes (`jsonEncodeString`) is read back by the lexer (scanString + unquote/json.Unmarshal)
    as exactly that string, whatever text follows the closing quote, after any white space. -/
theorem string_literal_roundtrip (s rest : Text) :
    lexOne false (Lex.encodeString s ++ rest) = .tok (.tok (.str (String.ofList s))) rest :=
  Proofs.C11.Lex.lexOne_encodeString s rest

open FqModel.C11.Lex Proofs.C11.Lex in
/-- Number literals keep their SPELLING: whenever the scanner accepts `s` as (the rest of) one number — decimal,
    fraction, exponent in any state of scanNumber; or the digits and `_` separators after `0x`/`0o`/`0b` — it reads
    exactly `s` again in front of any text that does not start with a digit, `.` or an identifier character
    (resp. a digit of the base or `_`), and the token payload, which the AST stores, is that text. -/
theorem number_literal_roundtrip (st : NS) (s rest : Text) (h : scanNumber st s = some (s, [])) (hr : stopsNum rest = true) :
    scanNumber st (s ++ rest) = some (s, rest) :=
  scanNumber_append s st rest h hr

open FqModel.C11.Lex Proofs.C11.Lex in
theorem number_literal_roundtrip_prefixed (b : Char) (s rest : Text) (h : s.all (isBaseDigit b) = true)
    (hr : (match rest with | [] => true | c :: _ => !isBaseDigit b c) = true) :
    scanBase b (s ++ rest) = (s, rest) :=
  scanBase_append b s rest h hr

open FqModel.C11.Lex Proofs.C11.Lex in
/-- identifiers, keywords, variables, fields, formats: the word scanner stops exactly where the word ends when the next
    character is not a letter, digit or `_` -/
theorem word_roundtrip (w rest : Text) (hw : w.all isIdTail = true) (hr : stopsId rest = true) :
    scanId (w ++ rest) = (w, rest) :=
  scanId_append w rest hw hr

/- FULL statement (not proved — `lex_print_tokens`, `text_roundtrip`):
     ∀ e lt, wf e → cat e = .query → lt.map cls = print e → every payload of `lt` is a spelling the lexer accepts →
       every interpolated string of `e` is in the lexer's normal form (at least one `\(`, no empty and no adjacent
       literal pieces) → lex (printText e lt) = some lt   ∧   parseText (printText e lt) = some e.
   Proved below: the composition with `print_parse_full` GIVEN the lexing equation for the tree at hand
   (`text_roundtrip_partial`); the lexing equation itself is proved for the literal classes above and is otherwise
   validated by enumeration only: the driver evaluates `lex (printText e lt) = some lt` on every accepted `lx` case and
   compares `printText e lt` character by character with the text `_query_tostring` returns. -/
open FqModel.C11.Lex in
theorem text_roundtrip_partial (e : Full.E) (lt : List LTok) (hw : Full.wf e = true) (hq : Full.cat e = .query)
    (hsp : lt.map LTok.cls = Full.print e) (hlex : lex (printText e lt) = some lt) :
    parseText (printText e lt) = some e := by
  simp only [parseText, hlex, hsp]
  exact print_parse_full e hw hq

open FqModel.C11.Lex Full in
/-- the hypotheses of `text_roundtrip_partial` hold for a tree with numbers in every spelling, an interpolated
    string with an escape, adjacent `-`, `..` before a field, a field after a digit:
    `-0x1_f - -.5e+3 | .a1 .b | .. .c | "p\n\(1 .e)"` -/
example :
    let e : E := .bin .pipe (.bin .sub (.neg (.num "0x1_f")) (.neg (.num ".5e+3")))
      (.bin .pipe (.sfxField (.field "a1") "b") (.bin .pipe (.sfxField .dotdot "c")
        (.istr [.piece "p\n", .interp (.sfxField (.num "1") "e")])))
    let lt := (print e).map spell
    wf e = true ∧ cat e = .query ∧ lt.map LTok.cls = print e ∧ lex (printText e lt) = some lt ∧
      String.ofList (printText e lt) = "-0x1_f - -.5e+3 | .a1 .b | .. .c | \"p\\n\\(1 .e)\"" := by
  decide +kernel

open FqModel.C11.Lex Full in
/-- without the lexer's normal form for interpolated strings the TEXT round trip fails although the token round trip
    holds: the token list `"` `a` `"` (start, piece, end — accepted by the grammar, never produced by the lexer)
    prints as the plain string `"a"` -/
example : (parse [.strStart, .str "a", .strEnd]).map print = some (print (.istr [.piece "a"])) ∧
    lex (printText (.istr [.piece "a"]) [.tok .strStart, .tok (.str "a"), .tok .strEnd]) = some [.tok (.str "a")] := by
  decide +kernel

open FqModel.C11.Lex in
/-- quirks of the fork's lexer, modelled as they are: a NUL character ends the program (Lex returns 0 = yacc's end
    marker), also inside a comment; `0x` without digits and `1.` are numbers; `1_000` is not -/
example : lex "1\x00 | junk".toList = some [.tok (.num "1")] ∧ lex "1 # c\x00\n| 2".toList = some [.tok (.num "1")] ∧
    lex "0x 1. 0b_".toList = some [.tok (.num "0x"), .tok (.num "1."), .tok (.num "0b_")] ∧ lex "1_000".toList = none := by
  decide +kernel

open FqModel.C11.Lex in
/-- surrogate escapes as Go's json.Unmarshal handles them: a pair is one code point, a lone one is U+FFFD -/
example : lex "\"\\ud83d\\ude00\\ud800x\\udc00\"".toList = some [.tok (.str "😀\uFFFDx\uFFFD")] := by
  decide +kernel

/-! ### non-vacuity and witnesses -/

open Full Dir in
/-- a program with all three directives parses -/
example : (parseProg [.kw .module, .lbrace, .ident "a", .colon, .lbrack, .num "1", .op .comma, .str "x", .op .comma, .kw .null,
    .rbrack, .rbrace, .semi, .kw .import_, .str "p", .kw .as_, .var "$d", .lbrace, .ident "search", .colon, .str "./", .rbrace, .semi,
    .kw .include, .str "q", .semi, .var "$d", .op .pipe, .ident "f"]).isSome = true := by decide

open Full in
/-- the hypotheses of the widened theorems are satisfiable by a tree with every kind of construct:
    `def f($x; g): reduce .a[1:] as [$y, {k: $z}] (0; . + $y) ; label $l | .b as $v ?// [$v] | try -f(1; "s\(.)") catch {a: 1 | 2, "b", (.c): @base64 "x"} | if . then .[0]? elif .. then break $l else foreach .[] as $i (0; .; [.]) end` -/
example : (parse [.kw .def_, .ident "f", .lparen, .var "$x", .semi, .ident "g", .rparen, .colon,
    .kw .reduce, .field "a", .lbrack, .num "1", .colon, .rbrack, .kw .as_, .lbrack, .var "$y", .op .comma, .lbrace, .ident "k", .colon,
    .var "$z", .rbrace, .rbrack, .lparen, .num "0", .semi, .dot, .op .add, .var "$y", .rparen, .semi,
    .kw .label, .var "$l", .op .pipe, .field "b", .kw .as_, .var "$v", .destalt, .lbrack, .var "$v", .rbrack, .op .pipe,
    .kw .try_, .op .sub, .ident "f", .lparen, .num "1", .semi, .strStart, .str "s", .strQuery, .dot, .rparen, .strEnd, .rparen,
    .kw .catch_, .lbrace, .ident "a", .colon, .num "1", .op .pipe, .num "2", .op .comma, .str "b", .op .comma, .lparen, .field "c",
    .rparen, .colon, .fmt "@base64", .str "x", .rbrace, .op .pipe,
    .kw .if_, .dot, .kw .then_, .dot, .lbrack, .num "0", .rbrack, .quest, .kw .elif_, .dotdot, .kw .then_, .kw .break_, .var "$l",
    .kw .else_, .kw .foreach, .dot, .lbrack, .rbrack, .kw .as_, .var "$i", .lparen, .num "0", .semi, .dot, .semi, .lbrack, .dot,
    .rbrack, .rparen, .kw .end_]).isSome = true := by decide


open Print in
/-- a tree with every construct satisfies the hypothesis of `print_parse` -/
example : wf (.bin .pipe (.bin .comma (.atom "a") (.bin .sub (.bin .sub (.neg (.opt (.atom "b"))) (.atom "c")) (.bin .mul (.atom "d") (.paren (.bin .comma (.atom "e") (.atom "f"))))))
    (.bind (.atom "g") "$x" (.bin .alt (.atom "h") (.bin .alt (.brack "if" (.atom "i") (.label "$l" (.atom "j"))) (.bin .cmp (.atom "k") (.atom "l")))))) = true := by decide

open Print in
/-- `parse_sound` / `print_parse_idem` are not vacuous: a token sequence with binding, chains and postfix parses -/
example : (parse [.atom "a", .op .sub, .atom "b", .op .sub, .op .sub, .atom "c", .quest, .op .comma, .atom "d", .as_ "$x",
    .atom "e", .op .alt, .atom "f", .op .alt, .lparen, .atom "g", .op .pipe, .atom "h", .rparen]).isSome = true := by decide

open Print in
/-- without well-formedness the round trip re-associates: `a - (b - c)` built as a tree prints `a - b - c` -/
example : parse (print (.bin .sub (.atom "a") (.bin .sub (.atom "b") (.atom "c")))) =
    some (.bin .sub (.bin .sub (.atom "a") (.atom "b")) (.atom "c")) := by decide

open Print in
/-- the wrapper's chain `(I | try (Q) catch C) | O` is NOT well formed (`|` is right-associative): its printed form
    parses to `I | (try (Q) catch C | O)` — what `reparseWrapper` models and `reparse_sem` shows harmless -/
example : parse (print (.bin .pipe (.bin .pipe (.atom "I") (.brack "try" (.paren (.atom "Q")) (.atom "C"))) (.atom "O"))) =
    some (.bin .pipe (.atom "I") (.bin .pipe (.brack "try" (.paren (.atom "Q")) (.atom "C")) (.atom "O"))) := by decide

open Print in
/-- a second operator of a non-associative level is a syntax error, as in the fork's grammar -/
example : parse (print (.bin .cmp (.bin .cmp (.atom "a") (.atom "b")) (.atom "c"))) = none := by decide

/-- the hypotheses of the rewrite theorems hold for `1, 2` under the command-line options -/
def q12 : List (String × JV) :=
  [("left", .obj [("term", .obj [("number", .str "1"), ("type", .str "TermTypeNumber")])]), ("op", .str ","),
   ("right", .obj [("term", .obj [("number", .str "2"), ("type", .str "TermTypeNumber")])])]

/-- `Canon` holds for ASTs as they come out of the parser -/
example : Canon (.obj q12) := by
  simp [q12, Canon, CanonKV, List.pairwise_cons]

example : (slurpOf (cliOpts (queryFunc0 (.str "inputs"))) (.obj q12)).truthy = false ∧
    ((cliOpts (queryFunc0 (.str "inputs"))).get "catch_query").truthy = true ∧ hasMain (.obj q12) = true := by decide

/-- the rewritten `1, 2`: `inputs | try (1, 2) catch _cli_eval_on_expr_error | _cli_display`, precedence kept by the
    parenthesis -/
example : (rewriteBody (cliOpts (queryFunc0 (.str "inputs"))) (.obj q12) ==
    queryPipe (queryPipe (queryFunc0 (.str "inputs")) (queryTry (queryQuery (.obj q12)) (queryFunc0 (.str "_cli_eval_on_expr_error"))))
      (queryFunc0 (.str "_cli_display"))) = true := by decide

/-- slurp mode is reachable: `1 | repl` under the REPL options calls `_repl_slurp` -/
example : (slurpOf ((optsOf "repl").getD .null)
    (queryPipe (.obj [("term", .obj [("number", .str "1"), ("type", .str "TermTypeNumber")])]) (queryFunc0 (.str "repl")) |> dropEmpty)
    == .str "_repl_slurp") = true := by decide

/-- the nesting matters: with an output query that raises, `(i | try q catch c) | out` lets the error escape while
    `try (i | q | out) catch c` (the comment eval.jq:27) would catch it -/
example :
    let raise : Den := fun v => ⟨[], some v⟩
    let c : Den := fun _ => ⟨[.str "caught"], none⟩
    (semPipe (semPipe semIdent (semTry semIdent c)) raise .null).err.isSome = true ∧
    (semTry (semPipe semIdent (semPipe semIdent raise)) c .null).err.isSome = false := by
  decide

end Props.C11
