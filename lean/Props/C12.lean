import FqModel.Nav
import Proofs.C12Nav
import Proofs.C12Expr
/-!
  C12 — paths and tree navigation are mutually consistent (model: FqModel/Nav.lean; lemmas: Proofs/C12Nav.lean,
  Proofs/C12Expr.lean).

  A node of a tree `t` is a pointer `n : Ptr` (child positions, nearest first) with `deref t n = some v`;
  pointer equality is node identity (`Value.Parent` is `List.tail`, the top of the tree is `[]`).

  Full statement of the property, and where each part is:
    (a) for every value v of every well-formed decode tree, `root | getpath(v | topath)` is v itself   — `path_resolves`
    (a′) … at every depth d, and the path has exactly d components (one per ancestor)                   — `path_length_is_depth`,
        `path_resolves_at_depth`, `dropped_component_impossible`; trees of every depth exist            — `deep_trees_exist`
    (b) the parent contains v under its reported name (struct) or index (array), and that name/index
        is the last element of the reported path                                                       — `parent_contains`
    (c) `root` of every value is the top of the tree, which has no parent                               — `root_of_all`
    (d) `buffer_root` is the nearest enclosing value (or the value itself) flagged IsRoot, else the top  — `bufferRoot_isRoot`
        (+ `bufferRoot_isRoot_of_top` when the top carries the flag, as every tree made by `decode` does)
    (e) `format_root` is the nearest enclosing value that has a format or is a buffer root, else the top — `formatRoot_hasFormat_or_isRoot`
    (f) `parents` is the chain parent, parent of parent, …, ending at the root                           — `parents_chain_ends_at_root`
    (g) for every path p of strings and integers, `p | path_to_expr | expr_to_path` = p                 — `expr_roundtrip`
        (no side condition: empty path, leading index, negative and arbitrarily large integers, empty keys,
         quotes, backslashes, control characters, any code point)
  `WF` (unique struct names, array Index = position, leaves have no children) is what AddChild/postProcess
  establish (C03); `wf_needed_*` show that it cannot be dropped — they are the shapes of the two defects
  that were found and fixed (nested root not post-processed; see DESIGN §1.8).
-/
namespace Props.C12
open FqModel.Nav Proofs.C12Nav Proofs.C12Expr

def exInfo (name : String) (index : Int) (kind : Kind) (isRoot hasFormat : Bool := false) : Info :=
  { name := name, index := index, isRoot := isRoot, hasFormat := hasFormat, kind := kind }

/-! ### (a) -/

/-- the path fq reports for a value resolves from the root back to that same value -/
theorem path_resolves (t : Tree) (h : WF t) (n : Ptr) (v : Tree) (hv : deref t n = some v) :
    resolve t (pathOf t n) = some n :=
  Proofs.C12Nav.path_resolves h n hv

/-! ### (a′) depth: the path has exactly one component per level, at every depth -/

/-- the path of a value has exactly as many components as the value has ancestors (`depth` = number of
    `.Parent` steps to the top, counted on the pointer). There is no bound on the depth: an implementation
    that drops (or adds) a component for some value — at depth 33 or anywhere else — contradicts this. -/
theorem path_length_is_depth (t : Tree) (h : WF t) (n : Ptr) (v : Tree) (hv : deref t n = some v) :
    (pathOf t n).length = depth n :=
  Proofs.C12Nav.pathOf_length h n hv

/-- `depth` is the number of parents (`parents | length` in jq) and the length of the pointer -/
theorem depth_is_parents_length (n : Ptr) : depth n = (parents n).length ∧ depth n = n.length :=
  ⟨depth_eq_parents_length n, depth_eq_length n⟩

/-- a child's path is its parent's path plus exactly one component -/
theorem path_grows_by_one (t : Tree) (h : WF t) (k : Nat) (up : Ptr) (v : Tree)
    (hv : deref t (k :: up) = some v) : (pathOf t (k :: up)).length = (pathOf t up).length + 1 :=
  Proofs.C12Nav.pathOf_child_length h hv

/-- (a) and (a′) at every depth `d` (a corollary of `path_resolves`, stated with the depth explicit): every value
    `d` levels below the top of a well-formed tree has a path of exactly `d` components which resolves to it -/
theorem path_resolves_at_depth (d : Nat) (t : Tree) (h : WF t) (n : Ptr) (v : Tree)
    (hv : deref t n = some v) (hd : depth n = d) :
    (pathOf t n).length = d ∧ resolve t (pathOf t n) = some n :=
  ⟨hd ▸ path_length_is_depth t h n v hv, path_resolves t h n v hv⟩

/-- so no list with fewer (or more) components than the depth is the path of the value: "a component is
    missing" is a contradiction, at every depth -/
theorem dropped_component_impossible (t : Tree) (h : WF t) (n : Ptr) (v : Tree) (hv : deref t n = some v)
    (p : Path) (hp : p.length ≠ depth n) : p ≠ pathOf t n := by
  intro e; exact hp (e ▸ path_length_is_depth t h n v hv)

/-- non-vacuity for ALL depths: for every `d` there is a well-formed tree (alternating structs and arrays, keys
    that need quoting, the nested compound at the non-zero array index 1) with a value at depth exactly `d`,
    and the two statements above hold of it -/
theorem deep_trees_exist (d : Nat) :
    ∃ t n v, WF t ∧ deref t n = some v ∧ depth n = d ∧
      (pathOf t n).length = d ∧ resolve t (pathOf t n) = some n := by
  obtain ⟨v, hv, _⟩ := chain_deep "" (-1) d false
  have hwf : WF (chain "" (-1) d false) := chain_wf "" (-1) d false
  have hd : depth (List.replicate d 1) = d := by rw [depth_eq_length]; simp
  exact ⟨_, _, v, hwf, hv, hd, path_resolves_at_depth d _ hwf _ v hv hd⟩

example : pathOf (chain "" (-1) 5 false) [1, 1, 1, 1, 1] = [.inl "a b", .inr 1, .inl "a b", .inr 1, .inl "a b"] := by
  decide
example : depth (List.replicate 40 1) = 40 ∧ (pathOf (chain "" (-1) 40 false) (List.replicate 40 1)).length = 40 ∧
    resolve (chain "" (-1) 40 false) (pathOf (chain "" (-1) 40 false) (List.replicate 40 1)) = some (List.replicate 40 1) := by
  decide

/-- `WF` cannot be dropped from `path_length_is_depth`: below a value that the decoder marked as a leaf
    (`Parent.V` is not a `*decode.Compound`, interp.go:207 has no default case) nothing is collected -/
theorem wf_needed_depth :
    let t : Tree := .mk (exInfo "" (-1) .struct true true)
      [ .mk (exInfo "l" (-1) .leaf) [ .mk (exInfo "x" (-1) .leaf) [] ] ]
    ¬ WF t ∧ (deref t [0, 0]).isSome = true ∧ depth [0, 0] = 2 ∧ (pathOf t [0, 0]).length = 1 := by
  decide

/-! ### (b) -/

/-- the parent contains the value under its reported name (struct: the name is unique, so looking it up
    gives exactly this child) or at its reported index (array: Index = position), and that name/index is the
    last element of the value's path -/
theorem parent_contains (t : Tree) (h : WF t) (k : Nat) (up : Ptr) (v : Tree)
    (hv : deref t (k :: up) = some v) :
    parent (k :: up) = some up ∧
    ∃ p, deref t up = some p ∧ p.kids[k]? = some v ∧
      ((p.info.kind = .struct ∧ lookupName v.info.name p.kids = some k ∧
          (pathOf t (k :: up)).getLast? = some (.inl v.info.name)) ∨
       (p.info.kind = .array ∧ v.info.index = (k : Int) ∧
          (pathOf t (k :: up)).getLast? = some (.inr (k : Int)))) :=
  ⟨rfl, Proofs.C12Nav.parent_contains h hv⟩

/-- keys ↔ children: in a struct no name occurs twice among the children (so `keys` has no duplicates and as
    many elements as there are children), and indexing the compound with a child's own key — its name in a
    struct, its position in an array — gives exactly that child. (What a partial tree must also satisfy: a
    decode error after fields were added, e.g. `"x" already exist in struct`, must not leave a second child
    with the same name behind.) -/
theorem children_by_key (t : Tree) (h : WF t) (n : Ptr) (v : Tree) (hv : deref t n = some v) :
    (v.info.kind = .struct → (v.kids.map (fun c => c.info.name)).Nodup) ∧
    (childKeys v).length = v.kids.length ∧
    ∀ k c, v.kids[k]? = some c →
      (v.info.kind = .struct → step t n (.inl c.info.name) = some (k :: n)) ∧
      (v.info.kind = .array → step t n (.inr (k : Int)) = some (k :: n)) := by
  refine ⟨?_, ?_, ?_⟩
  · intro hkind
    have hl := (wf_local (wf_deref h hv)).1
    unfold localOK at hl
    rw [hkind] at hl
    exact names_nodup_of hl
  · have hl := (wf_local (wf_deref h hv)).1
    unfold localOK at hl
    unfold childKeys
    cases hkind : v.info.kind with
    | leaf => rw [hkind] at hl; simp at hl; simp [hl]
    | struct => simp
    | array => simp
  · intro k c hk
    exact ⟨fun hkind => step_struct_child h hv hk hkind, fun hkind => step_array_child h hv hk hkind⟩

/-- the shape the seeded AddChild reorder leaves behind (two children named `b`): not well-formed, and the
    second child is unreachable by its key — `.b` gives the first -/
theorem wf_needed_keys :
    let t : Tree := .mk (exInfo "" (-1) .struct true true)
      [ .mk (exInfo "b" (-1) .leaf) [], .mk (exInfo "b" (-1) .leaf) [] ]
    ¬ WF t ∧ step t [] (.inl "b") = some [0] ∧ ¬ ((t.kids.map (fun c => c.info.name)).Nodup) := by
  decide

/-! ### (c)–(e) roots -/

/-- `root` of every value is the top of the tree, and the top has no parent -/
theorem root_of_all (t : Tree) (n : Ptr) (v : Tree) (hv : deref t n = some v) :
    root t n = [] ∧ parent (root t n) = none := by
  have := root_eq_nil t n hv
  rw [this]; exact ⟨rfl, rfl⟩

/-- `buffer_root` is the value itself or one of its ancestors; it carries IsRoot or is the top; and no
    value strictly between (the value itself included) carries IsRoot — it is the NEAREST buffer root -/
theorem bufferRoot_isRoot (t : Tree) (n : Ptr) (v : Tree) (hv : deref t n = some v) :
    IsAnc (bufferRoot t n) n ∧
    (bufferRoot t n = [] ∨ ∃ w, deref t (bufferRoot t n) = some w ∧ w.info.isRoot = true) ∧
    (∀ q, IsAnc q n → IsAnc (bufferRoot t n) q → q ≠ bufferRoot t n →
        ∀ w, deref t q = some w → w.info.isRoot = false) := by
  obtain ⟨h1, h2, h3⟩ := rootGo_spec t true false n hv
  refine ⟨h1, ?_, ?_⟩
  · rcases h2 with h2 | ⟨w, hw, hf⟩
    · exact Or.inl h2
    · rcases hf with ⟨_, hr⟩ | ⟨hc, _⟩
      · exact Or.inr ⟨w, hw, hr⟩
      · cases hc
  · intro q hq hrq hne w hw
    have := h3 q hq hrq hne w hw
    cases hr : w.info.isRoot with
    | false => rfl
    | true => exact absurd (Or.inl ⟨rfl, hr⟩) this

/-- every tree produced by `decode` has IsRoot on its top value (interp/decode.go:237): then `buffer_root`
    always carries the flag -/
theorem bufferRoot_isRoot_of_top (t : Tree) (htop : t.info.isRoot = true) (n : Ptr) (v : Tree)
    (hv : deref t n = some v) : ∃ w, deref t (bufferRoot t n) = some w ∧ w.info.isRoot = true := by
  rcases (bufferRoot_isRoot t n v hv).2.1 with h | h
  · rw [h]; exact ⟨t, rfl, htop⟩
  · exact h

/-- `format_root` is the value itself or an ancestor; it has a format or is a buffer root, or is the top;
    and it is the nearest such -/
theorem formatRoot_hasFormat_or_isRoot (t : Tree) (n : Ptr) (v : Tree) (hv : deref t n = some v) :
    IsAnc (formatRoot t n) n ∧
    (formatRoot t n = [] ∨
      ∃ w, deref t (formatRoot t n) = some w ∧ (w.info.isRoot = true ∨ w.info.hasFormat = true)) ∧
    (∀ q, IsAnc q n → IsAnc (formatRoot t n) q → q ≠ formatRoot t n →
        ∀ w, deref t q = some w → w.info.isRoot = false ∧ w.info.hasFormat = false) := by
  obtain ⟨h1, h2, h3⟩ := rootGo_spec t true true n hv
  refine ⟨h1, ?_, ?_⟩
  · rcases h2 with h2 | ⟨w, hw, hf⟩
    · exact Or.inl h2
    · rcases hf with ⟨_, hr⟩ | ⟨_, hr⟩
      · exact Or.inr ⟨w, hw, Or.inl hr⟩
      · exact Or.inr ⟨w, hw, Or.inr hr⟩
  · intro q hq hrq hne w hw
    have := h3 q hq hrq hne w hw
    constructor
    · cases hr : w.info.isRoot with
      | false => rfl
      | true => exact absurd (Or.inl ⟨rfl, hr⟩) this
    · cases hr : w.info.hasFormat with
      | false => rfl
      | true => exact absurd (Or.inr ⟨rfl, hr⟩) this

/-- the format root lies between the value and its buffer root (a buffer root stops the search too) -/
theorem formatRoot_within_bufferRoot (t : Tree) (n : Ptr) (v : Tree) (hv : deref t n = some v) :
    IsAnc (bufferRoot t n) (formatRoot t n) := by
  -- induction on the pointer: both searches stop at the same IsRoot value at the latest
  induction n generalizing v with
  | nil => exact ⟨[], rfl⟩
  | cons k up ih =>
    obtain ⟨p, hp, _⟩ := deref_cons_some hv
    unfold bufferRoot formatRoot at ih ⊢
    rw [rootGo_cons true false hv, rootGo_cons true true hv]
    by_cases h1 : (true && v.info.isRoot) = true
    · rw [if_pos h1, if_pos h1]; exact ⟨[], rfl⟩
    · rw [if_neg h1, if_neg h1]
      have hfalse : (false && v.info.hasFormat) = false := rfl
      simp only [hfalse, Bool.false_eq_true, if_false]
      by_cases h2 : (true && v.info.hasFormat) = true
      · rw [if_pos h2]
        obtain ⟨pre, hpre⟩ := (rootGo_spec t true false up hp).1
        exact ⟨k :: pre, by rw [List.cons_append, ← hpre]⟩
      · rw [if_neg h2]; exact ih p hp

/-! ### (f) parents -/

/-- `parents` of the top is empty; otherwise it starts with the parent, every next element is the parent of
    the previous one, it has as many elements as the value is deep, and it ends at the root -/
theorem parents_chain_ends_at_root (t : Tree) (n : Ptr) :
    (n = [] → parents n = []) ∧
    (∀ k up, n = k :: up →
        (parents n)[0]? = parent n ∧
        (parents n).length = n.length ∧
        (parents n).getLast? = some (root t []) ∧
        (∀ i a b, (parents n)[i]? = some a → (parents n)[i + 1]? = some b → parent a = some b)) := by
  constructor
  · intro h; subst h; rfl
  · intro k up h; subst h
    refine ⟨?_, ?_, ?_, ?_⟩
    · simp [parents, parent, recurseBreak_head]
    · simp [parents, parent, recurseBreak_length]
    · simp [parents, parent, recurseBreak_getLast, root, rootGo]
    · intro i a b ha hb
      exact recurseBreak_chain up i a b ha hb

/-! ### (g) path expressions -/

/-- `path_to_expr | expr_to_path` is the identity on every path of strings and integers -/
theorem expr_roundtrip (p : List (String ⊕ Int)) : exprToPath (pathToExpr p) = some p := by
  unfold exprToPath pathToExpr
  rw [String.toList_ofList, exprToPathL_pathToExprL]
  simp only [Option.map_some, List.map_map]
  congr 1
  have : (ofL ∘ toL) = id := by
    funext it
    cases it with
    | inl s => simp [ofL, toL, String.ofList_toList]
    | inr i => rfl
  rw [this, List.map_id]

/-- `_is_ident` accepts ASCII only: a key that `path_to_expr` prints unquoted consists of characters below
    U+0080 (in fact of [A-Za-z0-9_]). A predicate that also accepts code points which merely case-fold to
    ASCII letters (U+212A KELVIN SIGN, U+017F LONG S — what a case-insensitive regexp does) is a different
    function: the model prints such keys quoted and `expr_roundtrip` covers them. -/
theorem ident_is_ascii (s : String) (h : isIdent s = true) : ∀ c ∈ s.toList, c.toNat < 128 :=
  fun c hc => identChar_ascii (isIdentL_ascii h c hc)

/-- … and more precisely every character is one of [A-Za-z0-9_], the first not a digit -/
theorem ident_chars (s : String) (h : isIdent s = true) :
    (∀ c ∈ s.toList, isIdentChar c = true) ∧ ∃ c cs, s.toList = c :: cs ∧ isIdentStart c = true := by
  refine ⟨isIdentL_ascii h, ?_⟩
  unfold isIdent at h
  cases hs : s.toList with
  | nil => rw [hs] at h; simp [isIdentL] at h
  | cons c cs =>
    rw [hs] at h
    simp only [isIdentL, Bool.and_eq_true] at h
    exact ⟨c, cs, rfl, h.1⟩

/-- the look-alikes are not identifiers (pinned): KELVIN SIGN, LONG S, dotless i, fullwidth A, Arabic-Indic 1 -/
theorem ident_lookalikes_rejected :
    isIdentL [Char.ofNat 0x212A] = false ∧ isIdentL ['a', Char.ofNat 0x017F, 'b'] = false ∧
    isIdentL [Char.ofNat 0x0131] = false ∧ isIdentL [Char.ofNat 0xFF21] = false ∧
    isIdentL ['a', Char.ofNat 0x0661] = false ∧ isIdentL ['K'] = true ∧
    pathToExprL [.inl [Char.ofNat 0x212A]] = ['.', '"', Char.ofNat 0x212A, '"'] := by
  decide

/-- consequence: `path_to_expr` is injective — two different paths never print the same -/
theorem pathToExpr_injective (p q : List (String ⊕ Int)) (h : pathToExpr p = pathToExpr q) : p = q := by
  have hp := expr_roundtrip p
  rw [h, expr_roundtrip q] at hp
  exact (Option.some.inj hp).symm

/-! ### pinned renderings (the cases of the fixed defect §1.8 #11 and the leading-index rule) -/

theorem expr_examples :
    pathToExprL [] = ".".toList ∧
    pathToExprL [.inl []] = ".\"\"".toList ∧
    pathToExprL [.inl ['a'], .inl [], .inl ['b']] = ".a.\"\".b".toList ∧
    pathToExprL [.inr (-1), .inl ['a']] = ".[-1].a".toList ∧
    pathToExprL [.inl ['1', 'a']] = ".\"1a\"".toList ∧
    pathToExprL [.inl ['a', '"', '\\']] = ".\"a\\\"\\\\\"".toList ∧
    pathToExprL [.inl ['a'], .inr 100000000000000000000000] = ".a[100000000000000000000000]".toList := by
  decide

/-! ### non-vacuity, and the hypotheses that cannot be dropped -/

/-- a gzip-like tree: struct root with a nested buffer that has its own format, an array with a gap field
    appended, non-identifier names -/
def exTree : Tree :=
  .mk (exInfo "" (-1) .struct true true)
    [ .mk (exInfo "header" (-1) .struct) [ .mk (exInfo "a b" (-1) .leaf) [], .mk (exInfo "" (-1) .leaf) [] ]
    , .mk (exInfo "members" (-1) .array)
        [ .mk (exInfo "member" 0 .struct false true) [ .mk (exInfo "x" (-1) .leaf) [] ]
        , .mk (exInfo "member" 1 .struct) []
        , .mk (exInfo "gap0" 2 .leaf) [] ]
    , .mk (exInfo "uncompressed" (-1) .struct true true)
        [ .mk (exInfo "files" (-1) .array) [ .mk (exInfo "file" 0 .leaf) [] ] ] ]

example : WF exTree := by decide
example : (deref exTree [0, 0, 2]).map (·.info.name) = some "file" := by decide
example : pathOf exTree [0, 0, 2] = [.inl "uncompressed", .inl "files", .inr 0] := by decide
example : resolve exTree (pathOf exTree [0, 0, 2]) = some [0, 0, 2] := by decide
example : bufferRoot exTree [0, 0, 2] = [2] ∧ formatRoot exTree [0, 0, 1] = [0, 1] ∧ bufferRoot exTree [0, 0, 1] = [] := by
  decide
example : parents [0, 0, 2] = [[0, 2], [2], []] := by decide
example : exTree.info.isRoot = true := by decide

/-- `WF` cannot be dropped from `path_resolves` (1): array children whose Index was never assigned
    (all 0) — the shape a nested root had when its decode failed before the fix -/
theorem wf_needed_index :
    let t : Tree := .mk (exInfo "" (-1) .array true true)
      [ .mk (exInfo "e" 0 .leaf) [], .mk (exInfo "e" 0 .leaf) [] ]
    ¬ WF t ∧ (deref t [1]).isSome = true ∧ resolve t (pathOf t [1]) = some [0] := by
  decide

/-- `WF` cannot be dropped from `path_resolves` (2): two struct fields with the same name -/
theorem wf_needed_names :
    let t : Tree := .mk (exInfo "" (-1) .struct true true)
      [ .mk (exInfo "f" (-1) .leaf) [], .mk (exInfo "f" (-1) .leaf) [] ]
    ¬ WF t ∧ resolve t (pathOf t [1]) = some [0] := by
  decide

end Props.C12
