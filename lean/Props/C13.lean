import FqModel.Total
import FqModel.Total2
import Proofs.C13
import Proofs.C13b
import Proofs.C13c
/-!
  C13 — "every function fq adds is total over jq values": property theorems about the models
  of FqModel/Total.lean.  Helper lemmas: Proofs/C13.lean.

  Full statement of the property:  for EVERY function f that fq registers (Go) or defines publicly
  (bundled jq), every input value c and all argument values as:  `c | f(as)` produces results or
  a catchable error; it never ends the process (Go panic, fatal error, memory exhaustion).

  What is PROVED here (for all values: unbounded integers, floats as nan / ±inf / exact rationals,
  arbitrary arrays / objects / decode values) is the statement for the functions whose argument
  handling is fq's own arithmetic, each as `<f>_total : (f args).noFault = true` where `noFault`
  excludes both `panic` and `resource`:
     bnot bsl bsr band bor bxor · shift-count validators · CastFn / FuncN wrappers ·
     to_toml / to_xml / tojson / to_yaml indent · OptionsFromValue clamps + dump.go arithmetic ·
     Binary index / slice ranges · _intdiv / to_radix / from_radix ·
     (second batch, FqModel/Total2.lean) from_hex · to_hex / _to_base64 / _to_hash / _from_strencoding /
     nal_unescape over ToBitReader · _to_strencoding · from_urlencode / from_urlpath / from_urlquery ·
     to_urlquery / to_url · _to_csv · _query_fromstring's error position · _stdio_read / _stdio_write /
     _stdio_info ·
     (third part, FqModel/Total3.lean: Go's int is 64 bit and wraps) `_tobits` to its end — pad product,
     zero-pad reader, the int64 sum of NewMultiReader — for EVERY unit / pad_to_units / length; Binary
     index / slice with the range start for every int64 length; the display_bytes·8 / line_bytes·8
     arithmetic of dump.go for every display_bytes up to 2^63-1.
  Found by this check and since fixed in /repo (`decide` witnesses about the old code kept):
     `_tobits({unit:0})` divided by zero; `tojson({indent:-(2^62+1)})` wrapped around to a huge
     depth; display options with a huge line_bytes never finished / exhausted memory;
     `_stdio_read(fd; -1)` was a makeslice panic; `to_radix(1)` never terminated.
  (see known_findings.json)
  What is NOT proved (validated by enumeration only, see lib/props/C13.json): the statement for
  every other registered function, and for the third-party encoders behind to_toml/to_xml/to_yaml.
-/
namespace Props.C13
open FqModel.Total FqModel.Total.Outcome Proofs.C13

/-! ## bit operations over gojq's BinopTypeSwitch -/

/-- bsl never faults: every accepted shift count is ≤ 2^31-1, so `<<` is never negative and
    big.Int.Lsh allocates at most 256 MiB + |l| -/
theorem bsl_total (a b : JV) : (bsl a b).noFault = true := by
  unfold bsl
  apply binop_noFault
  · intro l r
    apply bind_noFault _ _ (intShiftCount_noFault _ _)
    intro n hn
    have hb := intShiftCount_bound _ _ _ hn
    simp only
    split
    · rfl
    · exact bigLsh_noFault l n hb
  · intro l r
    apply bind_noFault _ _ (floatShiftCount_noFault _ _)
    intro n _
    rfl
  · intro l r
    apply bind_noFault _ _ (bigShiftCount_noFault _ _)
    intro n hn
    exact bigLsh_noFault l n (bigShiftCount_bound _ _ _ hn)

theorem bsr_total (a b : JV) : (bsr a b).noFault = true := by
  unfold bsr
  apply binop_noFault
  · intro l r; exact bind_noFault _ _ (intShiftCount_noFault _ _) (fun _ _ => rfl)
  · intro l r; exact bind_noFault _ _ (floatShiftCount_noFault _ _) (fun _ _ => rfl)
  · intro l r; exact bind_noFault _ _ (bigShiftCount_noFault _ _) (fun _ _ => rfl)

theorem band_total (a b : JV) : (bandF a b).noFault = true := by
  unfold bandF; apply binop_noFault <;> intros <;> rfl
theorem bor_total (a b : JV) : (borF a b).noFault = true := by
  unfold borF; apply binop_noFault <;> intros <;> rfl
theorem bxor_total (a b : JV) : (bxorF a b).noFault = true := by
  unfold bxorF; apply binop_noFault <;> intros <;> rfl
theorem bnot_total (c : JV) : (bnot c).noFault = true := by
  unfold bnot; split <;> rfl

/-- the three validators only let counts up to 2^31-1 through -/
theorem shift_count_bounded (name : String) :
    (∀ r n, intShiftCount name r = .ok n → n ≤ 2147483647) ∧
    (∀ r n, floatShiftCount name r = .ok n → n ≤ 2147483647) ∧
    (∀ r n, bigShiftCount name r = .ok n → n ≤ 2147483647) :=
  ⟨intShiftCount_bound name, floatShiftCount_bound name, bigShiftCount_bound name⟩

/-- a float count is accepted exactly when it is a finite number in 0..2^31-1: NaN, ±inf,
    negative and huge floats are errors -/
theorem float_shift_count_rejects :
    floatShiftCount "bsl" .nan = .err "bsl:shift-count" ∧
    floatShiftCount "bsl" (.inf false) = .err "bsl:shift-count" ∧
    floatShiftCount "bsl" (.fin (-1) 2) = .err "bsl:shift-count" ∧
    floatShiftCount "bsl" (.fin 100000000000000000000000000000000000000 1) = .err "bsl:shift-count" ∧
    floatShiftCount "bsl" (.fin 7 2) = .ok 3 := by
  decide

/-! ### why the fix was needed: the code before `fix: bsl, bsr: error on negative or absurdly
    large shift counts` faults (DESIGN §1.8 #3) -/

/-- `bsl(1;-1)`: Go's `negative shift amount` panic -/
theorem bsl_old_panics : bslOld (.int 1) (.int (-1)) = .panic "runtime error: negative shift amount" := by
  rfl
/-- `bsr(1;-1)` -/
theorem bsr_old_panics : bsrOld (.int 1) (.int (-1)) = .panic "runtime error: negative shift amount" := by
  rfl
/-- `bsl(1;9223372036854775808)`: `uint(r.Uint64())` = 2^63 bits: makeslice panic -/
theorem bsl_old_makeslice_panics :
    bslOld (.int 1) (.big 9223372036854775808) = .panic "makeslice: len out of range" := by
  rfl
/-- `bsl(1;100000000000)`: a 12.5 GB allocation -/
theorem bsl_old_exhausts_memory : (bslOld (.int 1) (.int 100000000000)).isResource = true := by
  decide
/-- `bsl(1.5;nan)`: `int(nan)` is the most negative int: negative shift panic -/
theorem bsl_old_nan_panics : (bslOld (.flt (.fin 3 2)) (.flt .nan)).isPanic = true := by
  decide
/-- `bsr(1;1e308)` likewise -/
theorem bsr_old_huge_float_panics :
    (bsrOld (.int 1) (.flt (.fin 100000000000000000000000000000000000000 1))).isPanic = true := by
  decide

theorem bsl_old_not_total : ¬ ∀ a b, (bslOld a b).noFault = true := by
  intro h
  have := h (.int 1) (.int (-1))
  revert this
  decide

/-! ## argument casts: gojqx.CastFn and the FuncN / IterN wrappers -/

/-- a registered function whose body is fault-free on well-typed arguments is fault-free on ALL
    inputs and arguments: a mismatch is a typed error value (makefn_gen.go) -/
theorem castwrap_total {α β γ} (castC : JV → Option α) (castA : JV → Option β) (body : α → β → Outcome γ)
    (hbody : ∀ c a, (body c a).noFault = true) (c a : JV) :
    (castwrap1 castC castA body c a).noFault = true := by
  unfold castwrap1
  split
  · rfl
  · split
    · rfl
    · exact hbody _ _

theorem castwrap0_total {α γ} (castC : JV → Option α) (body : α → Outcome γ)
    (hbody : ∀ c, (body c).noFault = true) (c : JV) : (castwrap0 castC body c).noFault = true := by
  unfold castwrap0
  split
  · rfl
  · exact hbody _

theorem castwrap2_total {α β δ γ} (castC : JV → Option α) (castA : JV → Option β) (castB : JV → Option δ)
    (body : α → β → δ → Outcome γ) (hbody : ∀ c a b, (body c a b).noFault = true) (c a b : JV) :
    (castwrap2 castC castA castB body c a b).noFault = true := by
  unfold castwrap2
  split
  · rfl
  · split
    · rfl
    · split
      · rfl
      · exact hbody _ _ _

/-- the wrapper really is what makes a partial body total: `bsl` registered through Func2 with
    `any` casts (what bitops.go does) is total -/
theorem bsl_registered_total (c a b : JV) :
    (castwrap2 (fun v => some v) (fun v => some v) (fun v => some v) (fun _ x y => bsl x y) c a b).noFault = true :=
  castwrap2_total _ _ _ _ (fun _ x y => bsl_total x y) c a b

/-- CastFn[int] of a float saturates into the int range (never an out-of-range conversion) -/
theorem castInt_float_in_range (f : Flt) (i : Int) (h : castInt (.flt f) = some i) : inInt64 i = true := by
  have hg : inInt64 (goIntOfFloat f) = true := by
    unfold goIntOfFloat
    split
    · decide
    · decide
    · simp only; split
      · assumption
      · decide
  unfold castInt toGoJQ at h
  simp only at h
  split at h
  · injection h with h; subst h; exact hg
  · cases f with
    | nan => simp only at h; injection h with h; subst h; decide
    | inf neg => cases neg <;> (simp only at h; injection h with h; subst h; decide)
    | fin n d =>
      simp only at h
      split at h <;> (injection h with h; subst h; decide)

/-! ## indent options -/

/-- to_toml: with an encoder that is fault-free for indent strings of up to 1024 bytes, the
    function is fault-free for EVERY indent value -/
theorem toml_indent_total (cIsNull : Bool) (indent : Int) (enc : Nat → Outcome Unit)
    (henc : ∀ n, n ≤ 1024 → (enc n).noFault = true) : (toTOML cIsNull indent enc).noFault = true := by
  unfold toTOML
  split
  · rfl
  · split
    · rfl
    · rename_i hr
      simp only [maxIndent, Bool.or_eq_true, decide_eq_true_eq, not_or, Int.not_lt, gt_iff_lt] at hr
      unfold stringsRepeat1 resourceBits
      have h1 : ¬ indent < 0 := by omega
      have h2 : ¬ indent.toNat > 2 ^ 36 / 8 := by
        have : (2 : Nat) ^ 36 / 8 = 8589934592 := by decide
        omega
      simp only [h1, h2, if_false]
      exact henc _ (by omega)

theorem xml_indent_total (valid : Bool) (indent : Int) (enc : Nat → Outcome Unit)
    (henc : ∀ n, n ≤ 1024 → (enc n).noFault = true) : (toXML valid indent enc).noFault = true := by
  unfold toXML
  split
  · rfl
  · split
    · rfl
    · rename_i hr
      simp only [maxIndent, Bool.or_eq_true, decide_eq_true_eq, not_or, Int.not_lt, gt_iff_lt] at hr
      unfold stringsRepeat1 resourceBits
      have h1 : ¬ indent < 0 := by omega
      have h2 : ¬ indent.toNat > 2 ^ 36 / 8 := by
        have : (2 : Nat) ^ 36 / 8 = 8589934592 := by decide
        omega
      simp only [h1, h2, if_false]
      exact henc _ (by omega)

/-- tojson never panics for any indent and nesting (negative indents write nothing) -/
theorem json_indent_no_panic (indent : Int) (nesting : Nat) : (toJSON indent nesting).isPanic = false := by
  unfold toJSON jsonWriteIndent
  split
  · rfl
  · split
    · rfl
    · split <;> rfl

/-- … and stays within memory for inputs nested up to 2^23 levels (each level costs at most
    1024 bytes of indentation), for EVERY indent value -/
theorem json_indent_total (indent : Int) (nesting : Nat) (hn : nesting ≤ 8388608) :
    (toJSON indent nesting).noFault = true := by
  unfold toJSON jsonWriteIndent resourceBits
  split
  · rfl
  · rename_i hr
    simp only [maxIndent, Bool.or_eq_true, decide_eq_true_eq, not_or, Int.not_lt, gt_iff_lt] at hr
    have hle : indent * (nesting : Int) ≤ 1024 * 8388608 := by
      have h1 : indent * (nesting : Int) ≤ 1024 * (nesting : Int) :=
        Int.mul_le_mul_of_nonneg_right hr.2 (by omega)
      omega
    have hge : 0 ≤ indent * (nesting : Int) := Int.mul_nonneg hr.1 (by omega)
    have hw : wrap64 (indent * (nesting : Int)) = indent * (nesting : Int) := by
      unfold wrap64 minInt64 two64; omega
    rw [hw]
    split
    · rfl
    · have : ¬ (indent * (nesting : Int)).toNat > 2 ^ 36 / 8 := by
        have : (2 : Nat) ^ 36 / 8 = 8589934592 := by decide
        omega
      simp only [this, if_false]
      rfl

/-- FOUND BY THIS PROOF OBLIGATION (finding tojson-negative-indent-wrap, replayed on the real
    binary, since fixed): with only `indent > 1024` rejected (first fix 92d73a3f),
    `{a:[[1]]} | tojson({indent:-4611686018427387905})` — three nesting levels times the indent
    wrap around to 2^62-3 bytes of indentation: `fatal error: out of memory` -/
theorem json_fix1_negative_indent_wraps : (toJSONFix1 (-4611686018427387905) 3).isResource = true := by
  decide

theorem json_fix1_not_total : ¬ ∀ indent nesting, nesting ≤ 8388608 → (toJSONFix1 indent nesting).noFault = true := by
  intro h
  have := h (-4611686018427387905) 3 (by decide)
  revert this
  decide

theorem yaml_indent_total (indent : Int) : (toYAML indent).noFault = true := by
  unfold toYAML yamlSetIndent
  split
  · rename_i h
    have : ¬ indent < 0 := by omega
    simp only [this, if_false]
    rfl
  · rfl

/-! ### why the fixes were needed (DESIGN §1.8 #4) -/

/-- `to_toml({indent:-1})`: strings.Repeat panics -/
theorem toml_old_panics (enc : Nat → Outcome Unit) :
    toTOMLOld false (-1) enc = .panic "strings: negative Repeat count" := by
  rfl
/-- `to_xml({indent:-3})` -/
theorem xml_old_panics (enc : Nat → Outcome Unit) :
    toXMLOld true (-3) enc = .panic "strings: negative Repeat count" := by
  rfl
/-- `to_toml({indent:1e12})`: a terabyte of indentation -/
theorem toml_old_exhausts_memory (enc : Nat → Outcome Unit) :
    (toTOMLOld false 1000000000000 enc).isResource = true := by
  rfl
/-- `{a:[[1]]} | tojson({indent:1000000000000})` -/
theorem json_old_exhausts_memory : (toJSONOld 1000000000000 2).isResource = true := by
  decide
/-- yaml.Encoder.SetIndent would panic on a negative value; toYAML guards it (yaml.go:78) -/
theorem yaml_unguarded_panics : (yamlSetIndent (-1)).isPanic = true := by decide

/-! ## OptionsFromValue clamps and the arithmetic of dump.go -/

/-- whatever the option object holds (negative, huge, mistyped members), after the clamps:
    depth, truncations and display_bytes are ≥ 0, line_bytes in 1..4096, both bases in 2..36 -/
theorem options_clamped (v : JV) :
    let o := optionsFromValue v
    0 ≤ o.depth ∧ 0 ≤ o.arrayTruncate ∧ 0 ≤ o.stringTruncate ∧ 0 ≤ o.displayBytes ∧ 1 ≤ o.lineBytes ∧
    o.lineBytes ≤ 4096 ∧ 2 ≤ o.addrbase ∧ o.addrbase ≤ 36 ∧ 2 ≤ o.sizebase ∧ o.sizebase ≤ 36 := by
  simp only [optionsFromValue, clampOpts, clamp]
  omega

/-- dump is fault-free on the options of EVERY option object: no division by zero, no illegal
    FormatInt base, no unbounded header -/
theorem dump_total (v : JV) (startByte : Int) : (dump (optionsFromValue v) startByte).noFault = true := by
  have hc := options_clamped v
  simp only at hc
  obtain ⟨_, _, _, _, hl, hl2, ha1, ha2, hs1, hs2⟩ := hc
  generalize optionsFromValue v = o at *
  unfold dump dumpHeader maxSaneLineBytes
  have : ¬ o.lineBytes > 1048576 := by omega
  simp only [this, if_false, Outcome.bind]
  unfold dumpArith
  have hw : wrap64 (o.lineBytes * 8) = o.lineBytes * 8 := by
    unfold wrap64 minInt64 two64; omega
  have hz1 : (o.lineBytes * 8 == 0) = false := by simp; omega
  have hz2 : (o.lineBytes == 0) = false := by simp; omega
  have hb1 : (decide (o.addrbase < 2) || decide (o.addrbase > 36)) = false := by simp; omega
  have hb2 : (decide (o.sizebase < 2) || decide (o.sizebase > 36)) = false := by simp; omega
  simp [hw, goMod, goDiv, formatBase, hz1, hz2, hb1, hb2, Outcome.bind, noFault, isPanic, isResource]

/-! ### every consumer of the options sees the clamped ones — also the bits format closure -/

/-- the closure OptionsFromValue returns was made from the CLAMPED options: its sizebase is the
    clamped one, in 2..36 -/
theorem bits_format_sees_clamped (format : String) (v : JV) (x : Options)
    (h : optionsFromValueFmt format v = .ok x) :
    x.o = optionsFromValue v ∧ x.fn.sizebase = (optionsFromValue v).sizebase ∧
    2 ≤ x.fn.sizebase ∧ x.fn.sizebase ≤ 36 := by
  unfold optionsFromValueFmt bitsFormatFnFromOptions at h
  simp only at h
  split at h
  · simp only [Outcome.bind] at h
    injection h with h; subst h
    have hc := options_clamped v
    simp only at hc
    exact ⟨rfl, rfl, hc.2.2.2.2.2.2.2.2.1, hc.2.2.2.2.2.2.2.2.2⟩
  · simp [Outcome.bind] at h

theorem formatUint_total (n : Nat) (base : Int) (h1 : 2 ≤ base) (h2 : base ≤ 36) :
    (formatUint n base).noFault = true := by
  unfold formatUint
  have : ¬ ((decide (base < 2) || decide (base > 36)) = true) := by simp; omega
  simp only [this]
  rfl

/-- the bits format renderer (tovalue / tojson / display of a binary or raw decode value) is
    fault-free for EVERY option object, every format and every length -/
theorem bits_format_render_total (format : String) (v : JV) (x : Options) (bits : Nat)
    (h : optionsFromValueFmt format v = .ok x) : (x.fn.render bits).noFault = true := by
  obtain ⟨_, _, h1, h2⟩ := bits_format_sees_clamped format v x h
  unfold BitsFormatFn.render stringByteBits
  split
  · apply bind_noFault _ _ (formatUint_total _ _ h1 h2)
    intro b _
    split
    · apply bind_noFault _ _ (formatUint_total _ _ h1 h2)
      intro r _; rfl
    · rfl
  · rfl

/-- OptionsFromValue itself: an error (unknown bits_format) or options; never a fault -/
theorem options_from_value_total (format : String) (v : JV) : (optionsFromValueFmt format v).noFault = true := by
  unfold optionsFromValueFmt bitsFormatFnFromOptions
  simp only
  split <;> rfl

/-- seeded change S-C13-2 (closure made before the clamps): the renderer keeps the raw sizebase —
    `"abc" | tobytes | tovalue({bits_format:"snippet", sizebase:-1})` panics in FormatUint -/
theorem bits_format_swapped_order_panics :
    (optionsFromValueFmtSwapped "snippet" (.obj [("sizebase", .int (-1))])).bind (fun x => x.fn.render 24)
      = .panic "strconv: illegal AppendInt/FormatInt base" ∧
    (optionsFromValueFmt "snippet" (.obj [("sizebase", .int (-1))])).bind (fun x => x.fn.render 24) = .ok "0b11" := by
  decide

/-- FOUND BY THIS CHECK (finding line-bytes-unbounded, replayed on the real binary, since fixed):
    with only `max(1, LineBytes)`, `d({line_bytes: 2305843009213693952, display_bytes: 1})` was not
    rejected and not honoured — the header loop never finishes and exhausts memory -/
theorem dump_old_huge_line_bytes :
    (dump (optionsFromValueOld (.obj [("line_bytes", .int 2305843009213693952), ("display_bytes", .int 1)])) 0).isResource = true := by
  decide

/-- … and behind it `int64(LineBytes)*8` wrapped to 0: the division at dump.go:240 would be by zero -/
theorem dump_old_arith_wraps_to_zero :
    (dumpArith (optionsFromValueOld (.obj [("line_bytes", .int 2305843009213693952)])) 0).isPanic = true := by
  decide

theorem dump_old_not_total : ¬ ∀ v s, (dump (optionsFromValueOld v) s).noFault = true := by
  intro h
  have := h (.obj [("line_bytes", .int 2305843009213693952)]) 0
  revert this
  decide

/-- without any clamp `{line_bytes: 0}` divides by zero and `{addrbase: 99}` is an illegal base -/
theorem dump_unclamped_panics :
    (dump (rawOpts (.obj [("line_bytes", .int 0)])) 0).isPanic = true ∧
    (dump (rawOpts (.obj [("addrbase", .int 99)])) 0).isPanic = true ∧
    (dump (rawOpts .null) 0).isPanic = true := by
  decide

/-! ## previewValue: the truncation of a string preview (preview.go:31-37) -/

/-- `runes[0:StringTruncate]` is never out of range: for EVERY string (any rune count) and every
    non-negative limit — 0 (off), 1, the rune count itself, one more, one less, 2^31 -/
theorem preview_truncate_total (runeLen : Nat) (st : Int) (h : 0 ≤ st) :
    (previewTruncate runeLen st).noFault = true := by
  unfold previewTruncate goSlicePrefix
  split
  · rename_i hc
    simp only [Bool.and_eq_true, bne_iff_ne, ne_eq, decide_eq_true_eq, gt_iff_lt] at hc
    have : ¬ ((decide (st < 0) || decide (st > (runeLen : Int))) = true) := by simp; omega
    simp only [this]
    rfl
  · rfl

/-- … in particular with the string_truncate of ANY option object (the clamp makes it ≥ 0) -/
theorem preview_truncate_total_options (v : JV) (runeLen : Nat) :
    (previewTruncate runeLen (optionsFromValue v).stringTruncate).noFault = true :=
  preview_truncate_total runeLen _ (options_clamped v).2.2.1

/-- what the preview keeps: all runes, or exactly the limit -/
theorem preview_truncate_value (runeLen : Nat) (st : Int) (h : 0 ≤ st) :
    previewTruncate runeLen st = .ok (if st != 0 && (runeLen : Int) > st then st.toNat else runeLen) := by
  unfold previewTruncate goSlicePrefix
  by_cases hraw : (st != 0 && decide ((runeLen : Int) > st)) = true
  · have hc := hraw
    simp only [Bool.and_eq_true, bne_iff_ne, ne_eq, decide_eq_true_eq, gt_iff_lt] at hc
    have : (decide (st < 0) || decide (st > (runeLen : Int))) = false := by simp; omega
    simp [hraw, this]
  · simp [hraw]

/-- the rune / byte distinction: with the test on the BYTE length (seeded change S2-C13-1) the
    slice IS out of range as soon as runes < limit < bytes — 30 x "å" (60 bytes, 30 runes) with
    the default string_truncate 50; and the byte test is total only for strings whose byte and
    rune counts coincide below the limit (ASCII) -/
theorem preview_byte_test_panics :
    previewTruncateByteTest 60 30 50 = .panic "runtime error: slice bounds out of range" ∧
    previewTruncate 30 50 = .ok 30 ∧
    runeCount (List.replicate 30 [195, 165]).flatten = 30 ∧ (List.replicate 30 [195, 165]).flatten.length = 60 := by
  decide

theorem preview_byte_test_not_total :
    ¬ ∀ byteLen runeLen st, runeLen ≤ byteLen → 0 ≤ st → (previewTruncateByteTest byteLen runeLen st).noFault = true := by
  intro h
  have := h 60 30 50 (by decide) (by decide)
  revert this
  decide

/-- a negative limit would be out of range as well: the `max(0, StringTruncate)` clamp is needed -/
theorem preview_unclamped_negative_panics : (previewTruncate 3 (-1)).isPanic = true := by decide

/-! ## the column writers of the hex dump (internal/asciiwriter, internal/hexpairwriter)

    The length of a formatted byte is user controlled: `byte_colors` values are `+`-joined lists
    of colour names of any length (ansi.FromString), each adding to the escape sequence. -/

/-- asciiwriter: for EVERY line width ≥ 1, start offset, split of the data into Write calls and
    EVERY length of every formatted byte, no index or slice is out of range -/
theorem ascii_writer_total (width start : Nat) (hw : 1 ≤ width) (chunks : List (List Nat)) :
    (writeAll asciiWrite (asciiNew width start) 0 chunks).noFault = true := by
  have hg := writeAll_ascii_good chunks (asciiNew width start) 0 hw
    ⟨by show 0 ≤ width * 11 + 2; omega, by show 1 ≤ width * 11 + 2; omega⟩
  revert hg
  cases writeAll asciiWrite (asciiNew width start) 0 chunks with
  | ok r => intro _; rfl
  | err k => intro _; rfl
  | panic w => intro h; exact h.elim
  | resource w => intro h; exact h.elim

/-- seeded change S3-C13-1 (the +1 for the newline moved out of the capacity test): a line whose
    formatted bytes fill the buffer exactly — line_bytes 2 with three 12-byte characters
    (bgbright* colours), or 16 with fourteen 11-byte and two 12-byte ones — indexes one past the end -/
theorem ascii_writer_seeded_panics :
    (writeAll asciiWriteSeeded (asciiNew 2 0) 0 [[12, 12, 12]]).isPanic = true ∧
    (writeAll asciiWriteSeeded (asciiNew 16 0) 0
      [[12, 12, 11, 11, 11, 11, 11, 11, 11, 11, 11, 11, 11, 11, 11, 11, 11]]).isPanic = true ∧
    writeAll asciiWrite (asciiNew 2 0) 0 [[12, 12, 12]] = .ok (⟨2, 0, 3, 50, 0⟩, 37) := by
  decide

/-- hexpairwriter (with the grow check of `fix: hexpairwriter: grow line buffer …`): for EVERY
    width ≥ 1, start offset, split into Write calls and formatted-byte length, no index or slice
    is out of range -/
theorem hexpair_writer_total (width start : Nat) (hw : 1 ≤ width) (chunks : List (List Nat)) :
    (writeAll hexpairWrite (hexpairNew width start) 0 chunks).noFault = true := by
  have hg := writeAll_hexpair_good chunks (hexpairNew width start) 0 hw
    ⟨by show 0 ≤ width * 200 + 1; omega, by show 1 ≤ width * 200 + 1; omega⟩
  revert hg
  cases writeAll hexpairWrite (hexpairNew width start) 0 chunks with
  | ok r => intro _; rfl
  | err k => intro _; rfl
  | panic w => intro h; exact h.elim
  | resource w => intro h; exact h.elim

/-- FOUND BY THIS CHECK (finding hexpairwriter-fixed-buffer, found while widening the byte_colors
    dimension, replayed on the real binary, since fixed): with the fixed buffer of width*200+1
    bytes a colour value of 40 `+`-joined names (285 bytes per formatted byte) indexed out of range -/
theorem hexpair_writer_old_long_colour_panics :
    (hexpairWriteOld (hexpairNew 2 0) [285, 285, 285, 285, 285, 285]).isPanic = true ∧
    hexpairWriteOld (hexpairNew 2 0) [12, 12, 12] = .ok (⟨2, 0, 3, 401, 0⟩, 38) ∧
    (hexpairWrite (hexpairNew 2 0) [285, 285, 285, 285, 285, 285]).noFault = true := by
  decide

theorem hexpair_writer_old_not_total :
    ¬ ∀ width start p, 1 ≤ width → (hexpairWriteOld (hexpairNew width start) p).noFault = true := by
  intro h
  have := h 2 0 [285, 285, 285, 285, 285, 285] (by decide)
  revert this
  decide

/-- the old code was fault-free exactly as far as its sizing assumption went: formatted bytes of at
    most 199 bytes (invariant bufOffset ≤ 1 + 200·(offset mod width)) -/
theorem hexpair_writer_old_total_partial (width start : Nat) (hw : 1 ≤ width) (p : List Nat) (hp : ∀ c ∈ p, c ≤ 199) :
    (hexpairWriteOld (hexpairNew width start) p).noFault = true := by
  unfold hexpairWriteOld hexpairWriteWith hexpairNew
  have hw0 : (width == 0) = false := by simp; omega
  simp only [hw0]
  have key : ∀ h : LineWriter, HpInv h → (hexpairLoopWith false h ((start - 0) * 3) p).noFault = true := by
    intro h hinv
    have hg := hexpairLoop_good p hp h ((start - 0) * 3) hinv
    revert hg
    cases hexpairLoopWith false h ((start - 0) * 3) p with
    | ok r => intro _; rfl
    | err k => intro _; rfl
    | panic w => intro h; exact h.elim
    | resource w => intro h; exact h.elim
  have hm : max 0 start = start := Nat.max_eq_right (Nat.zero_le _)
  simp only [hm, gt_iff_lt, Nat.lt_irrefl, Bool.false_eq_true, if_false, Outcome.bind]
  exact key ⟨width, start, start, width * 200 + 1, 0⟩ ⟨hw, rfl, Nat.zero_le _⟩

/-! ## byte_colors ranges (decorator.go) -/

/-- the loop over a range runs at most 256 times whatever the range ends are (negative, huge,
    reversed) — and is modelled without a fault -/
theorem byte_color_range_bounded (lo hi : Int) :
    byteColorIters lo hi ≤ 256 ∧ (byteColorLoop lo hi).noFault = true := by
  refine ⟨?_, rfl⟩
  unfold byteColorIters
  omega

/-- only byte values are coloured: a range colours b exactly when max(lo,0) ≤ b ≤ min(hi,255) -/
theorem byte_in_range_iff (lo hi : Int) (b : Nat) :
    byteInRange lo hi b = true ↔ (lo ≤ b ∧ (b : Int) ≤ hi ∧ b ≤ 255) := by
  unfold byteInRange
  simp only [Bool.and_eq_true, decide_eq_true_eq]
  omega

/-- FOUND BY THIS CHECK (finding byte-colors-huge-range-hang, since fixed): the old loop
    `for i := r[0]; i <= r[1]; i++` never ended for `[[0, 9223372036854775807]]` -/
theorem byte_color_old_huge_range_hangs :
    (byteColorLoopOld 0 9223372036854775807).isResource = true ∧
    (byteColorLoopOld (-9223372036854775808) 66).isResource = true ∧
    byteColorLoop 0 9223372036854775807 = .ok 256 ∧ byteColorLoop (-9223372036854775808) 66 = .ok 67 ∧
    byteColorLoop 255 0 = .ok 0 ∧ byteColorLoop 256 300 = .ok 0 := by
  decide

/-! ## _stdio_read -/

/-- `_stdio_read(fd; l)` is fault-free for every fd name and every length -/
theorem stdio_read_total (fd : Bool) (l : Int) : (stdioRead fd l).noFault = true := by
  unfold stdioRead makeBytes resourceBits maxReadLength
  split
  · rfl
  · split
    · rfl
    · rename_i h
      simp only [Bool.or_eq_true, decide_eq_true_eq, not_or, Int.not_lt, gt_iff_lt] at h
      have e1 : ¬ ((decide (l < 0) || decide (l > 281474976710656)) = true) := by simp; omega
      have e2 : ¬ l.toNat > 2 ^ 36 / 8 := by
        have : (2 : Nat) ^ 36 / 8 = 8589934592 := by decide
        omega
      simp only [e1, e2, if_false]
      rfl

/-- FOUND while checking which strings the pool lacked (finding stdio-read-length, replayed on the
    real binary, since fixed): `_stdio_read("stdin"; -1)` — `make([]byte, -1)` panics;
    `_stdio_read("stdin"; 100000000000)` cannot be allocated -/
theorem stdio_read_old_panics :
    stdioReadOld true (-1) = .panic "runtime error: makeslice: len out of range" ∧
    stdioReadOld true 9223372036854775807 = .panic "runtime error: makeslice: len out of range" ∧
    (stdioReadOld true 100000000000).isResource = true := by
  decide

theorem stdio_read_old_not_total : ¬ ∀ fd l, (stdioReadOld fd l).noFault = true := by
  intro h
  have := h true (-1)
  revert this
  decide

/-! ## _tobits -/

/-- `_tobits` is fault-free for every option object: unit 0, negative units, negative / huge /
    overflowing pad_to_units -/
theorem tobits_total (len : Int) (o : ToBitsOpts) : (toBits len o).noFault = true := by
  unfold toBits
  split
  · rfl
  · rename_i h
    have hu : o.unit = 1 ∨ o.unit = 8 := by
      simp only [bne_iff_ne, ne_eq, Bool.and_eq_true, not_and, Decidable.not_not] at h
      by_cases h1 : o.unit = 1
      · exact Or.inl h1
      · exact Or.inr (h h1)
    unfold tobitsPad
    simp only
    have hp : ((if wrap64 (o.unit * o.padToUnits) == 0 then o.unit else wrap64 (o.unit * o.padToUnits)) == 0) = false := by
      split
      · rcases hu with h | h <;> simp [h]
      · rename_i hz; simpa using hz
    simp only [goMod, hp, Outcome.bind]
    rfl

/-- FOUND BY THIS CHECK (finding tobits-unit-zero, replayed on the real binary, since fixed):
    before the unit check `"abc" | _tobits({unit:0})` divided by zero (binary.go:172); a missing
    unit and a null option object cast to unit 0 as well -/
theorem tobits_old_unit0_panics :
    toBitsOld 24 ⟨0, 0⟩ = .panic "runtime error: integer divide by zero" ∧
    castToBitsOpts (.obj [("unit", .int 0)]) = some ⟨0, 0⟩ ∧
    (castToBitsOpts .null).map (·.unit) = some 0 := by
  decide

theorem tobits_old_not_total : ¬ ∀ len o, (toBitsOld len o).noFault = true := by
  intro h
  have := h 24 ⟨0, 0⟩
  revert this
  decide

/-! ## Binary index / slice behind gojq's clamping -/

theorem clampIndex_range (i lo hi : Int) (h : lo ≤ hi) :
    lo ≤ clampIndex i lo hi ∧ clampIndex i lo hi ≤ hi := by
  unfold clampIndex
  simp only
  split <;> (try split) <;> omega

/-- `.[i]` on a binary never faults and never even asks for bits outside the binary: for every
    index (negative, huge, saturated) the result is null or a range inside 0..len -/
theorem bin_index_in_range (len unit i : Int) (hu : 0 < unit) (hl : 0 ≤ len) (hsz : len ≤ 9223372036854775807) :
    binIndex len unit i = .ok none ∨
    ∃ s, binIndex len unit i = .ok (some (s, unit)) ∧ 0 ≤ s ∧ s + unit ≤ len := by
  unfold binIndex
  simp only
  have hl0 : 0 ≤ len.tdiv unit := Int.tdiv_nonneg hl (by omega)
  have hmul : len.tdiv unit * unit ≤ len := by
    have := Int.tdiv_mul_le len (show unit ≠ 0 by omega)
    rw [Int.tdiv_eq_ediv_of_nonneg hl] at *
    exact Int.ediv_mul_le len (by omega)
  generalize hc : clampIndex i (-1) (len.tdiv unit) = c
  have hcr := clampIndex_range i (-1) (len.tdiv unit) (by omega)
  rw [hc] at hcr
  by_cases hneg : c < 0
  · left; simp [hneg]
  · by_cases hge : c ≥ len.tdiv unit
    · left; simp [hneg, hge]
    · right
      have hc0 : 0 ≤ c := by omega
      have hc1 : c + 1 ≤ len.tdiv unit := by omega
      have hcu : (c + 1) * unit ≤ len.tdiv unit * unit := Int.mul_le_mul_of_nonneg_right hc1 (by omega)
      have hcu' : c * unit + unit ≤ len := by
        have : (c + 1) * unit = c * unit + unit := by rw [Int.add_mul, Int.one_mul]
        omega
      have hcn : 0 ≤ c * unit := Int.mul_nonneg hc0 (by omega)
      have hw : wrap64 (c * unit) = c * unit := by unfold wrap64 minInt64 two64; omega
      refine ⟨c * unit, ?_, hcn, hcu'⟩
      have hr : ¬ (c * unit < 0 || unit < 0 || c * unit + unit > len) = true := by
        simp; omega
      simp [hneg, hge, hw, rangeReq, hr, Outcome.bind]

theorem bin_index_total (len unit i : Int) (hu : 0 < unit) (hl : 0 ≤ len) (hsz : len ≤ 9223372036854775807) :
    (binIndex len unit i).noFault = true := by
  rcases bin_index_in_range len unit i hu hl hsz with h | ⟨s, h, _⟩ <;> rw [h] <;> rfl

/-- `.[s:e]` on a binary: every pair of bounds yields a range inside the binary -/
theorem bin_slice_in_range (len unit s e : Int) (hu : 0 < unit) (hl : 0 ≤ len) (hsz : len ≤ 9223372036854775807) :
    ∃ st n, binSlice len unit s e = .ok (st, n) ∧ 0 ≤ st ∧ 0 ≤ n ∧ st + n ≤ len := by
  unfold binSlice
  simp only
  have hl0 : 0 ≤ len.tdiv unit := Int.tdiv_nonneg hl (by omega)
  have hmul : len.tdiv unit * unit ≤ len := by
    rw [Int.tdiv_eq_ediv_of_nonneg hl]
    exact Int.ediv_mul_le len (by omega)
  generalize hs : clampIndex s 0 (len.tdiv unit) = a
  have har := clampIndex_range s 0 (len.tdiv unit) hl0
  rw [hs] at har
  generalize he : clampIndex e a (len.tdiv unit) = b
  have hbr := clampIndex_range e a (len.tdiv unit) har.2
  rw [he] at hbr
  have h1 : 0 ≤ a * unit := Int.mul_nonneg har.1 (by omega)
  have h2 : 0 ≤ (b - a) * unit := Int.mul_nonneg (by omega) (by omega)
  have h3 : b * unit ≤ len.tdiv unit * unit := Int.mul_le_mul_of_nonneg_right hbr.2 (by omega)
  have h4 : a * unit + (b - a) * unit = b * unit := by rw [← Int.add_mul]; congr 1; omega
  have hw1 : wrap64 (a * unit) = a * unit := by unfold wrap64 minInt64 two64; omega
  have hw2 : wrap64 ((b - a) * unit) = (b - a) * unit := by unfold wrap64 minInt64 two64; omega
  refine ⟨a * unit, (b - a) * unit, ?_, h1, h2, by omega⟩
  have hr : ¬ (a * unit < 0 || (b - a) * unit < 0 || a * unit + (b - a) * unit > len) = true := by
    simp; omega
  simp [hw1, hw2, rangeReq, hr]

/-! ## _intdiv, to_radix, from_radix: only jq errors, never a fault -/

theorem jqMod_total (a b : Int) : (jqMod a b).noFault = true := by
  unfold jqMod; split <;> rfl

theorem jqDivExact_total (a b : Int) : (jqDivExact a b).noFault = true := by
  unfold jqDivExact; split <;> rfl

theorem intdiv_total (a b : Int) : (intdiv a b).noFault = true := by
  unfold intdiv toIntJq
  apply bind_noFault _ _ (jqMod_total _ _)
  intro a' _
  apply bind_noFault _ _ (jqMod_total _ _)
  intro b' _
  apply bind_noFault _ _ (jqMod_total _ _)
  intro r _
  exact jqDivExact_total _ _

theorem radixChain_total (fuel : Nat) (n base : Int) : (radixChain fuel n base).noFault = true := by
  induction fuel generalizing n with
  | zero => rfl
  | succ fuel ih =>
    unfold radixChain
    split
    · apply bind_noFault _ _ (intdiv_total n base)
      intro q _
      apply bind_noFault _ _ (ih q)
      intro rest _
      rfl
    · rfl

theorem mapOutcome_total {α β} (f : α → Outcome β) (hf : ∀ a, (f a).noFault = true) (l : List α) :
    (mapOutcome f l).noFault = true := by
  induction l with
  | nil => rfl
  | cons a as ih =>
    unfold mapOutcome
    apply bind_noFault _ _ (hf a)
    intro b _
    apply bind_noFault _ _ ih
    intro bs _
    rfl

/-- to_radix on integers: base 0, 1, negative, above 64 — a jq error or a result; never a fault -/
theorem to_radix_total (fuel : Nat) (n base : Int) : (toRadix fuel n base).noFault = true := by
  unfold toRadix
  split
  · rfl
  · split
    · rfl
    · apply bind_noFault _ _ (radixChain_total fuel n base)
      intro chain _
      split
      · rfl
      · apply bind_noFault _ _ (mapOutcome_total _ (fun x => jqMod_total x base) _)
        intro ds _
        split <;> rfl

/-- before `fix: radix: …` `to_radix(1)` of a positive number never terminated: whatever the
    fuel, the chain of quotients does not end (observed as resource:timeout) -/
theorem to_radix_base1_diverges (fuel : Nat) (n : Int) (hn : 0 < n) : radixChain fuel n 1 = .ok none := by
  induction fuel with
  | zero => rfl
  | succ fuel ih =>
    unfold radixChain
    have h1 : intdiv n 1 = .ok n := by
      unfold intdiv toIntJq jqMod jqDivExact
      have e1 : ¬ ((n + 1 == 0) = true) := by simp; omega
      have e2 : n.tmod (n + 1) = n := Int.tmod_eq_of_lt (by omega) (by omega)
      simp [e1, e2, Outcome.bind]
    simp [hn, h1, Outcome.bind, ih]

theorem to_radix_old_base1_diverges (fuel : Nat) (n : Int) (hn : 0 < n) : toRadixOld fuel n 1 = .ok none := by
  unfold toRadixOld
  have h0 : ¬ (n == 0) = true := by simp; omega
  simp [h0, to_radix_base1_diverges fuel n hn, Outcome.bind]

/-- … and now it is an error -/
theorem to_radix_small_base_err (fuel : Nat) (n base : Int) (hb : base < 2) :
    toRadix fuel n base = .err "base too small" := by
  unfold toRadix; simp [hb]

theorem from_radix_total (cs : List Char) (base : Int) : (fromRadix cs base).noFault = true := by
  unfold fromRadix
  split
  · rfl
  · apply bind_noFault
    · apply mapOutcome_total
      intro c
      split
      · rfl
      · split <;> rfl
    · intro ds _; rfl

/-! ## non-vacuity: the hypotheses are satisfiable by non-trivial values and the conclusions are
    exercised on them -/

/-- toml/xml: an encoder that satisfies the hypothesis, with in-range and out-of-range indents -/
example : let enc : Nat → Outcome Unit := fun n => if n ≤ 1024 then .ok () else .panic "never"
    (∀ n, n ≤ 1024 → (enc n).noFault = true) ∧ toTOML false 1024 enc = .ok () ∧
    toTOML false 1025 enc = .err "indent-range" ∧ toTOML false (-1) enc = .err "indent-range" ∧
    toXML true (-3) enc = .err "indent-range" := by
  refine ⟨?_, by decide, by decide, by decide, by decide⟩
  intro n hn; simp [hn]; rfl

/-- castwrap_total: a body that faults on ill-typed data is never given any -/
example : castwrap1 castInt castInt (fun l r => (intShiftCount "bsl" r).bind fun n => .ok (goShl64 l n))
    (.str [97]) (.int 1) = .err "func-type" ∧
    castwrap1 castInt castInt (fun l r => (intShiftCount "bsl" r).bind fun n => .ok (goShl64 l n))
    (.int 1) (.int 4) = .ok 16 := by decide

/-- bsl on all type combinations, including promotion to big and the error cases -/
example : bsl (.int 1) (.int 63) = .ok (.shl 1 63) ∧ bsl (.int 1) (.int 62) = .ok (.int 4611686018427387904)
    ∧ bsl (.int 1) (.int (-1)) = .err "bsl:shift-count" ∧ bsl (.big 18446744073709551616) (.int 3) = .ok (.shl 18446744073709551616 3)
    ∧ bsl (.flt (.fin 3 2)) (.flt .nan) = .err "bsl:shift-count" ∧ bsl (.str []) (.int 1) = .err "bsl:type"
    ∧ bsl (.dv (.int 3)) (.flt (.fin 5 2)) = .ok (.int 12) := ⟨rfl, rfl, rfl, rfl, rfl, rfl, rfl⟩

/-- json_indent_total / bin_index_in_range hypotheses; tobits and the option clamps on odd options -/
example : (8 : Nat) ≤ 8388608 ∧ toJSON (-1) 8 = .err "indent-range" ∧ toJSON 1024 8 = .ok 8192
    ∧ toBits 24 ⟨8, -1⟩ = .ok 0 ∧ toBits 3 ⟨8, -1⟩ = .ok (-3) ∧ toBits 3 ⟨0, 0⟩ = .err "unit-not-supported"
    ∧ binIndex 24 8 (-1) = .ok (some (16, 8)) ∧ binIndex 24 8 9223372036854775807 = .ok none
    ∧ binSlice 5 1 4 2 = .ok (4, 0)
    ∧ optionsFromValue (.obj [("line_bytes", .int (-5)), ("addrbase", .flt .nan), ("depth", .str [])])
        = ⟨0, 0, 0, 1, 0, 2, 2⟩
    ∧ (optionsFromValue (.obj [("line_bytes", .int 2305843009213693952)])).lineBytes = 4096 := by
  decide

/-- bits_format_sees_clamped: the hypothesis holds for every known format; the rendered size -/
example : (optionsFromValueFmt "snippet" (.obj [("sizebase", .int 37), ("line_bytes", .int 0)])).bind
    (fun x => x.fn.render 8000) = .ok "rs" ∧
    (optionsFromValueFmt "snippet" (.obj [("sizebase", .int 16)])).bind (fun x => x.fn.render 8004) = .ok "0x3e8.4" ∧
    optionsFromValueFmt "nonsense" .null = .err "invalid bits format" := by decide

/-- to_radix / from_radix / intdiv on boundary bases -/
example : toRadix 20 255 16 = .ok (some "ff") := by decide
example : toRadix 20 255 0 = .err "base too small" ∧ toRadix 20 255 65 = .err "base too large"
    ∧ toRadix 20 255 1 = .err "base too small" ∧ toRadixOld 20 255 1 = .ok none
    ∧ toRadixOld 20 255 (-1) = .err "zero-modulo" := by decide
example : fromRadix "ff".toList 16 = .ok 255 ∧ fromRadix "-1".toList 10 = .err "invalid char"
    ∧ fromRadix "9".toList 2 = .err "invalid char" ∧ fromRadix [] 10 = .err "empty string" := by decide
example : intdiv 7 0 = .err "zero-modulo" ∧ intdiv 7 (-1) = .err "zero-modulo" ∧ intdiv (-7) 2 = .ok 0
    ∧ intdiv 7 2 = .ok 3 := by decide

/-! ## second batch (FqModel/Total2.lean): more Go-registered functions

    Each function below is modelled with its argument casts and every fault-capable Go operation
    (index, slice, explicit `panic(...)`, make) as a `panic` outcome. -/

/-- from_hex: hex.DecodeString never indexes `src` or `dst` out of range and `dst[:n]` is in
    range on every path (n ≤ len/2), for every byte string -/
theorem hex_decode_total (src : List Nat) : (hexDecodeString src).noFault = true := by
  unfold hexDecodeString
  obtain ⟨n, out, e, h, hn⟩ := hexLoop_good (src.length + 1) src 0 1 [] (by omega) (by omega)
  simp only [h, Outcome.bind]
  have : ¬ n > src.length / 2 := by omega
  simp only [goSliceTo, this, if_false]
  cases e <;> rfl

theorem from_hex_total (c : JV) : (fromHex c).noFault = true :=
  castwrap0_total castStr hexDecodeString hex_decode_total c

/-- the decoded length: an even-length string of hex digits decodes; the loop had enough fuel -/
theorem hex_decode_fuel_suffices : hexDecodeString [52, 49, 54, 50] = .ok [65, 98] ∧
    hexDecodeString [52, 49, 54] = .err "odd length" ∧ hexDecodeString [52, 120] = .err "invalid byte" ∧
    hexDecodeString [] = .ok [] := by decide

/-- ToBitReader never faults, whatever the value (nested arrays included); a number's range
    request `Range(bytes, padBefore, bitLen)` is inside its own bytes -/
theorem to_bit_reader_total (dvBits : Nat) (inArr : Bool) (v : JV) : (toBitReader dvBits inArr v).noFault = true :=
  toBitReader_noFault dvBits inArr v

/-- …and outside an array a number always converts: the error branches of bitiox.Range are dead -/
theorem to_bit_reader_number_ok (i : Int) : numBitReader false i = .ok (max 1 (bitLen i)) := by
  unfold numBitReader bitioxRange
  simp only [Bool.false_eq_true, if_false]
  by_cases h0 : bitLen i = 0
  · simp [h0]
  · have h1 : ¬ ((bitLen i : Nat) : Int) < 0 := by omega
    have h2 : ¬ (((8 - bitLen i % 8) % 8 : Nat) : Int) + ((bitLen i : Nat) : Int) > ((8 * ((bitLen i + 7) / 8) : Nat) : Int) := by
      omega
    have h3 : (bitLen i == 0) = false := by simpa using h0
    simp only [h3, h1, h2, if_false, Bool.false_eq_true]
    congr 1
    simp only [Int.toNat_natCast]
    omega

theorem to_hex_total (dvBits : Nat) (c : JV) : (toHex dvBits c).noFault = true := by
  unfold toHex
  exact noFault_bind_ok _ _ (toBitReader_noFault _ _ _) (fun _ _ => rfl)

theorem to_base64_total (dvBits : Nat) (c opts : JV) : (toBase64 dvBits c opts).noFault = true := by
  unfold toBase64
  split
  · rfl
  · exact noFault_bind_ok _ _ (toBitReader_noFault _ _ _) (fun _ _ => rfl)

theorem to_hash_total (dvBits : Nat) (c opts : JV) : (toHash dvBits c opts).noFault = true := by
  unfold toHash
  split
  · rfl
  · apply noFault_bind_ok _ _ (toBitReader_noFault _ _ _)
    intro _ _; split <;> rfl

/-- the x/text encoder / decoder is abstract: if it does not fault, the function does not -/
theorem to_strencoding_total (c opts : JV) (enc : Outcome Unit) (henc : enc.noFault = true) :
    (toStrEncoding c opts enc).noFault = true := by
  unfold toStrEncoding
  split
  · rfl
  · split
    · rfl
    · split
      · exact henc
      · rfl

theorem from_strencoding_total (dvBits : Nat) (c opts : JV) (dec : Outcome Unit) (hdec : dec.noFault = true) :
    (fromStrEncoding dvBits c opts dec).noFault = true := by
  unfold fromStrEncoding
  split
  · rfl
  · apply noFault_bind_ok _ _ (toBitReader_noFault _ _ _)
    intro _ _; split
    · exact hdec
    · rfl

/-- nalUnescapeReader.Read: for every buffer length, every data the inner reader delivered
    (n ≤ len p, the io.Reader contract) and every state: no index out of range, and the returned
    count is the number of bytes kept — in particular never negative, never above len p -/
theorem nal_read_count (plen : Nat) (bs : List Nat) (st : NalState) (h : bs.length ≤ plen) :
    ∃ n ni st' out, nalRead plen bs st = .ok (n, ni, st', out) ∧ n = (out.length : Int) ∧ out.length ≤ plen := by
  unfold nalRead
  have hs : ¬ bs.length > plen := by omega
  simp only [goSliceTo, hs, if_false, Outcome.bind]
  obtain ⟨n', ni', st', out', h1, h2, h3, h4⟩ := nalLoop_good plen bs 0 0 bs.length st [] (by omega) (by omega) (by simp) rfl
  exact ⟨n', ni', st', out', h1, by omega, by omega⟩

theorem nal_unescape_total (dvBits : Nat) (c : JV) (bs : List Nat) : (nalUnescape dvBits c bs).noFault = true := by
  unfold nalUnescape
  apply noFault_bind_ok _ _ (toBitReader_noFault _ _ _)
  intro _ _
  obtain ⟨n, ni, st', out, h1, h2, _⟩ := nal_read_count (max bs.length 512) bs ⟨false, false⟩ (by omega)
  simp only [h1, Outcome.bind]
  have : ¬ n < 0 := by omega
  simp only [this, if_false]; rfl

/-- offsetToLineColumn: `s[co:]` is always in range and the loop ends, for every string and every
    offset (negative and beyond the end included) -/
theorem line_column_total (s : List Nat) (offset : Int) : ∃ r, offsetToLineColumn s offset = .ok (some r) :=
  lineColLoop_good s offset (s.length + 1) 0 1 (by omega) (by omega)

theorem query_fromstring_total (c : JV) (parseErr : Option Int) : (queryFromString c parseErr).noFault = true := by
  unfold queryFromString
  split
  · rfl
  · split
    · rfl
    · rename_i s _ _ off
      obtain ⟨r, hr⟩ := line_column_total s off
      split
      · simp only [hr, Outcome.bind]; rfl
      · rfl

/-- url unescape: the second loop (which indexes s[i+1], s[i+2] without a test) is only run on
    strings the first loop accepted -/
theorem url_unescape_total (plusSpace : Bool) (s : List Nat) : (unescape plusSpace s).noFault = true :=
  unescape_noFault plusSpace s

/-- …and it is not safe by itself: on a string the first loop rejects it indexes past the end -/
theorem url_unescape_build_alone_panics : (unescapeBuild true [97, 37, 52]).isPanic = true := by decide

theorem from_urlencode_total (c : JV) : (fromUrlEncode c).noFault = true :=
  castwrap0_total castStr (unescape true) (unescape_noFault true) c
theorem from_urlpath_total (c : JV) : (fromUrlPath c).noFault = true :=
  castwrap0_total castStr (unescape false) (unescape_noFault false) c

/-- from_urlquery: every key ParseQuery stores holds at least one value, so `v[0]` is in range -/
theorem from_urlquery_str_total (s : List Nat) : (fromUrlQueryStr s).noFault = true := by
  unfold fromUrlQueryStr
  obtain ⟨m, e, h, hm⟩ := parseQueryPieces_good (splitAmp (s.length + 1) s) [] false (by intro p hp; simp at hp)
  simp only [h, Outcome.bind]
  split
  · rfl
  · exact fromURLValues_noFault m hm

theorem from_urlquery_total (c : JV) : (fromUrlQuery c).noFault = true :=
  castwrap0_total castStr fromUrlQueryStr from_urlquery_str_total c

/-- `v[0]` IS a fault on a key without values: the invariant is what keeps it away -/
theorem from_url_values_empty_panics : (fromURLValues [([97], [])]).isPanic = true := by decide

/-- to_urlquery / to_url: NormalizeToStrings of a map is a map — `panic("not map")` is dead code -/
theorem to_urlquery_total (c : JV) : (toUrlQuery c).noFault = true := by
  unfold toUrlQuery
  split
  · rfl
  · simp only [normStr_obj]; rfl

theorem to_url_total (c : JV) : (toUrl c).noFault = true := by
  unfold toUrl
  split
  · rfl
  · simp only [normStr_obj]; rfl

/-- _to_csv: `opts.Comma[0]` is guarded, `panic("not array")` is dead code, for all rows / options -/
theorem csv_row_total (delim : Nat) (row : JV) : (csvRow delim row).noFault = true := by
  unfold csvRow
  split
  · rfl
  · simp only [normStr_arr]
    split
    · rfl
    · split <;> rfl

theorem csv_rows_total (delim : Nat) (rows : List JV) : (csvRows delim rows).noFault = true := by
  induction rows with
  | nil => rfl
  | cons r rest ih =>
    unfold csvRows
    exact noFault_bind_ok _ _ (csv_row_total delim r) (fun _ _ => ih)

theorem to_csv_total (c opts : JV) : (toCSV c opts).noFault = true := by
  unfold toCSV toCSVWith
  split
  · rfl
  · split
    · rfl
    · rename_i comma _
      apply noFault_bind_ok
      · unfold csvComma
        by_cases h : comma.isEmpty = true
        · simp [h, noFault, isPanic, isResource]
        · simp only [h, Bool.and_false, Bool.false_eq_true, if_false]
          apply goGet_noFault
          cases comma with
          | nil => simp at h
          | cons _ _ => simp
      · intro d _; exact csv_rows_total d _

/-- without the `!= ""` test the empty comma of `{comma: ""}` is an index out of range -/
theorem to_csv_unguarded_panics :
    (toCSVUnguarded (.arr []) (.obj [("comma", .str [])])).isPanic = true := by decide

/-- _stdio_write / _stdio_info: the fd switch and the comma-ok assertions -/
theorem stdio_fd_op_total (fd : JV) (hasIface : Bool) : (stdioFdOp fd hasIface).noFault = true := by
  unfold stdioFdOp
  split
  · rfl
  · split
    · rfl
    · split <;> rfl

/-- _stdio_read with its casts: the allocation is bounded (stdio_read_total) and `buf[0:n]` is in
    range for whatever the reader delivered -/
theorem stdio_read_call_total (fd l : JV) (isReader : Bool) (avail : Nat) :
    (stdioReadCall fd l isReader avail).noFault = true := by
  unfold stdioReadCall
  split
  · rfl
  · split
    · rfl
    · split
      · rfl
      · apply noFault_bind_ok _ _ (stdio_read_total _ _)
        intro len _
        apply noFault_bind_ok _ _ (goSliceTo_noFault _ _ (Nat.min_le_right _ _))
        intro _ _; rfl

/-! non-vacuity of the second batch -/

example : fromHex (.str [52, 49]) = .ok [65] ∧ fromHex (.int 1) = .err "func-type" ∧
    fromHex (.dv (.str [102, 70])) = .ok [255] := by decide
example : toBitReader 0 false (.arr [.int 255, .str [97, 98], .arr [.flt (.fin 1 2)]]) = .ok 32 ∧
    toBitReader 0 false (.arr [.int 256]) = .err "byte range" ∧ toBitReader 0 false (.int 256) = .ok 9 ∧
    toBitReader 0 false (.int 0) = .ok 1 ∧ toBitReader 0 false (.flt .nan) = .ok 64 ∧
    toBitReader 0 false (.obj []) = .err "value can't be a binary" := by decide
example : (512 : Nat) ≥ 5 ∧ nalRead 512 [0, 0, 3, 1, 0, 0, 3] ⟨false, false⟩ = .ok (5, 5, ⟨false, false⟩, [0, 0, 1, 0, 0]) ∧
    nalRead 512 [3, 3] ⟨true, true⟩ = .ok (1, 1, ⟨false, false⟩, [3]) := by decide
example : offsetToLineColumn [97, 10, 98, 99, 10, 100] 3 = .ok (some (2, 1)) ∧
    offsetToLineColumn [97, 10, 98] 100 = .ok (some (2, 98)) ∧ offsetToLineColumn [] (-1) = .ok (some (1, -1)) := by decide
example : unescape true [97, 43, 37, 52, 49] = .ok [97, 32, 65] ∧ unescape false [43] = .ok [43] ∧
    unescape true [37, 52] = .err "invalid URL escape" ∧ unescape true [37, 120, 49] = .err "invalid URL escape" := by decide
example : fromUrlQueryStr [97, 61, 49, 38, 97, 61, 50, 38, 98] = .ok 2 ∧ fromUrlQueryStr [97, 59, 98] = .err "parse query" ∧
    fromUrlQueryStr [38, 38] = .ok 0 := by decide
example : toCSV (.arr [.arr [.int 1, .str [97]], .null]) (.obj [("comma", .str [59])]) = .ok () ∧
    toCSV (.arr [.arr [.arr []]]) .null = .err "expected row record to be scalars" ∧
    toCSV (.arr [.arr []]) (.obj [("comma", .str [34])]) = .err "csv: invalid field or comment delimiter" ∧
    toCSV (.arr []) (.obj [("comma", .str [])]) = .ok () ∧ toCSV (.arr [.int 1]) .null = .err "expected row to be an array" := by decide
example : toUrlQuery (.obj [("a", .arr [.int 1, .null])]) = .ok () ∧ toUrlQuery (.arr []) = .err "func-type" := by decide
example : toStrEncoding (.str [97]) (.obj [("encoding", .str [85, 84, 70, 56])]) (.ok ()) = .ok () ∧
    toStrEncoding (.str [97]) (.obj [("encoding", .str [120])]) (.ok ()) = .err "unknown string encoding" ∧
    toHash 0 (.str [97]) (.obj [("name", .str [109, 100, 53])]) = .ok () ∧
    toHash 0 (.str [97]) .null = .err "unknown hash function" := by decide
example : stdioReadCall (.str [115, 116, 100, 105, 110]) (.int 16) true 3 = .ok 3 ∧
    stdioReadCall (.str [115, 116, 100, 105, 110]) (.int (-1)) true 3 = .err "read-length" ∧
    stdioReadCall (.str [120]) (.int 1) true 0 = .err "unknown-fd" := by decide

/-! ## third part (FqModel/Total3.lean): Go's `int` is 64 bit and wraps

    Every product, sum and difference of user-supplied integers below is the Go operation reduced
    into [-2^63, 2^63) — the theorems quantify over ALL integers, so in particular over the values
    at which a product wraps to 0 (k·2^61 for a factor 8), to MinInt64 (2^60) or changes sign. -/

/-- `wrap64` really is reduction modulo 2^64 into the int64 range -/
theorem wrap64_spec (x : Int) :
    -9223372036854775808 ≤ wrap64 x ∧ wrap64 x ≤ 9223372036854775807 ∧ (wrap64 x - x) % 18446744073709551616 = 0 ∧
    (-9223372036854775808 ≤ x → x ≤ 9223372036854775807 → wrap64 x = x) := by
  refine ⟨(wrap64_range x).1, (wrap64_range x).2, ?_, wrap64_id x⟩
  unfold wrap64 minInt64 two64; omega

/-- which pad_to_units make `8 * pad_to_units` vanish in a Go int: exactly the multiples of 2^61 -/
theorem mul8_wraps_to_zero_iff (p : Int) : goMul 8 p = 0 ↔ p % 2305843009213693952 = 0 :=
  wrap64_mul8_eq_zero_iff p

/-- `_tobits` from the unit check to the returned binary (pad product, both `%`, the zero-pad
    reader, NewMultiReader's int64 sum, bitiox.Len) never faults: for every unit, every
    pad_to_units (negative, huge, k·2^61, k·2^60), every input length, with and without keep_range -/
theorem tobits_full_total (len : Int) (o : ToBitsOpts) (keep : Bool) : (toBitsFull len o keep).noFault = true :=
  toBitsFullWith_noFault tobitsPad tobitsPad_noFault len o keep

/-- when `_tobits` answers with a binary its length is the input length plus a NON-NEGATIVE pad and
    nothing has wrapped (a pad that wrapped negative, or a sum beyond 2^63-1, is an error value) -/
theorem tobits_result_length (len : Int) (o : ToBitsOpts) (res : BinRes) (hl0 : 0 ≤ len) (hl : len ≤ 9223372036854775807)
    (h : toBitsFull len o false = .ok res) :
    ∃ pad, 0 ≤ pad ∧ res = ⟨len + pad, o.unit, 0⟩ ∧ len + pad ≤ 9223372036854775807 ∧ (o.unit = 1 ∨ o.unit = 8) :=
  toBitsFull_len_spec len o res hl0 hl h

/-- a pad that does not overflow is HONOURED: the result is the input padded up to the next multiple
    of unit·pad_to_units -/
theorem tobits_pad_honoured (len unit p : Int) (hu : unit = 1 ∨ unit = 8) (hp : 0 < p)
    (hP : unit * p ≤ 9223372036854775807) (hl0 : 0 ≤ len) (hl : len + unit * p ≤ 9223372036854775807) :
    ∃ L, toBitsFull len ⟨unit, p⟩ false = .ok ⟨L, unit, 0⟩ ∧ L % (unit * p) = 0 ∧ len ≤ L ∧ L < len + unit * p :=
  toBitsFull_honoured len unit p hu hp hP hl0 hl

/-- seeded change S5-C13-1 ("pad = unit; if pad_to_units > 0 { pad *= pad_to_units }"): for unit 8
    it ends fq with `integer divide by zero` for EXACTLY the positive multiples of 2^61 — and for
    no other pad_to_units, which is why neither the suite nor the old boundary pool saw it -/
theorem tobits_seeded_panics_iff (len p : Int) (keep : Bool) :
    (toBitsFullSeeded len ⟨8, p⟩ keep).isPanic = true ↔ (0 < p ∧ p % 2305843009213693952 = 0) :=
  toBitsFullSeeded_panics_iff len p keep

/-- `"abc" | tobytes(2305843009213693952)` (2^61), 2^62, 3·2^61: divide by zero in the seeded
    variant; the code as it is pads to whole bytes (pad 0 for 24 bits) -/
theorem tobits_seeded_witness :
    toBitsFullSeeded 24 ⟨8, 2305843009213693952⟩ false = .panic "runtime error: integer divide by zero" ∧
    toBitsFullSeeded 24 ⟨8, 4611686018427387904⟩ false = .panic "runtime error: integer divide by zero" ∧
    toBitsFullSeeded 24 ⟨8, 6917529027641081856⟩ true = .panic "runtime error: integer divide by zero" ∧
    toBitsFull 24 ⟨8, 2305843009213693952⟩ false = .ok ⟨24, 8, 0⟩ ∧
    toBitsFull 21 ⟨8, 4611686018427387904⟩ false = .ok ⟨24, 8, 0⟩ ∧
    toBitsFullSeeded 24 ⟨8, 1152921504606846976⟩ false = toBitsFull 24 ⟨8, 1152921504606846976⟩ false ∧
    toBitsFullSeeded 24 ⟨8, 5⟩ false = .ok ⟨40, 8, 0⟩ := by
  decide

theorem tobits_seeded_not_total : ¬ ∀ len o keep, (toBitsFullSeeded len o keep).noFault = true := by
  intro h
  have := h 24 ⟨8, 2305843009213693952⟩ false
  revert this
  decide

/-- with unit 1 (tobits/1) no Go int makes the product vanish: the seeded pad arithmetic is
    fault-free there, for every pad_to_units -/
theorem tobits_seeded_unit1_total (p len : Int) (h1 : -9223372036854775808 ≤ p) (h2 : p ≤ 9223372036854775807) :
    (tobitsPadSeeded 1 p len).noFault = true :=
  tobitsPadSeeded_unit1_noFault p len h1 h2

/-- a second variant of the same mechanism (zero test BEFORE the multiplication) dies for the
    negative multiples of 2^61 too -/
theorem tobits_test_first_panics_iff (len p : Int) (keep : Bool) :
    (toBitsFullTestFirst len ⟨8, p⟩ keep).isPanic = true ↔ (p ≠ 0 ∧ p % 2305843009213693952 = 0) :=
  toBitsFullTestFirst_panics_iff len p keep

/-- what the wrap-around does to pads that do NOT fit, on the code as it is: 2^60 units of 8 bits
    are 2^63 bits = MinInt64 — the pad comes out as 2^63-24, the reader sum wraps negative, the
    result is an error value ("invalid seek offset" on the real binary); a negative pad_to_units
    gives a negative pad, which the zero reader rejects; keep_range returns the pad unused -/
theorem tobits_wrapped_pads_are_errors :
    tobitsPad 8 1152921504606846976 24 = .ok 9223372036854775784 ∧
    toBitsFull 24 ⟨8, 1152921504606846976⟩ false = .err "offset" ∧
    toBitsFull 24 ⟨8, 1152921504606846977⟩ false = .err "offset" ∧
    toBitsFull 3 ⟨8, -1⟩ false = .err "offset" ∧ toBitsFull 3 ⟨8, -1⟩ true = .ok ⟨3, 8, -3⟩ ∧
    toBitsFull 24 ⟨8, 9223372036854775807⟩ false = .ok ⟨24, 8, 0⟩ ∧
    toBitsFull 5 ⟨1, 9223372036854775807⟩ false = .ok ⟨9223372036854775807, 1, 0⟩ ∧
    toBitsFull 5 ⟨1, 4611686018427387904⟩ false = .ok ⟨4611686018427387904, 1, 0⟩ := by
  decide

/-- the same mechanism in another function: a `_stdio_read` length check made on `l * 8` that
    rejects a product that wrapped NEGATIVE still lets 2^61 (product 0) and 2^61+1 (product 8)
    through to `make([]byte, l)`; the check as it is compares `l` itself (stdio_read_total) -/
theorem stdio_read_bits_guard_wraps :
    (stdioReadBitsGuard true 2305843009213693952).isPanic = true ∧
    (stdioReadBitsGuard true 2305843009213693953).isPanic = true ∧
    (stdioReadBitsGuard true 6917529027641081856).isPanic = true ∧
    stdioReadBitsGuard true 9223372036854775807 = .err "read-length" ∧
    stdioReadBitsGuard true 1152921504606846976 = .err "read-length" ∧
    stdioReadBitsGuard true 16 = .ok 16 ∧ stdioRead true 2305843009213693952 = .err "read-length" := by
  decide

/-- `.[i]` on a binary that is the range start..start+len of a reader: `b.r.Start + int64(index*b.unit)`
    never wraps and the range read lies inside the binary's own range — for every int64 length -/
theorem bin_index_at_in_range (bufLen start len unit i : Int) (hu : 0 < unit) (hs : 0 ≤ start) (hl : 0 ≤ len)
    (hb : start + len ≤ bufLen) (hmax : bufLen ≤ 9223372036854775807) :
    binIndexAt bufLen start len unit i = .ok none ∨
    ∃ s, binIndexAt bufLen start len unit i = .ok (some (s, unit)) ∧ start ≤ s ∧ s + unit ≤ start + len :=
  binIndexAt_in_range bufLen start len unit i hu hs hl hb hmax

/-- `.[s:e]` likewise: `int64(start*b.unit)` and `int64((end-start)*b.unit)` never wrap -/
theorem bin_slice_at_in_range (bufLen start len unit s e : Int) (hu : 0 < unit) (hs : 0 ≤ start) (hl : 0 ≤ len)
    (hb : start + len ≤ bufLen) (hmax : bufLen ≤ 9223372036854775807) :
    ∃ st n, binSliceAt bufLen start len unit s e = .ok (st, n) ∧ start ≤ st ∧ 0 ≤ n ∧ st + n ≤ start + len :=
  binSliceAt_in_range bufLen start len unit s e hu hs hl hb hmax

/-- the index / slice products DO wrap once the clamp is gone: 2^61 units of 8 bits are 0 bits -/
theorem bin_index_unclamped_product_wraps :
    goMul 2305843009213693952 8 = 0 ∧ goMul 1152921504606846976 8 = -9223372036854775808 ∧
    goMul 2305843009213693953 8 = 8 := by decide

/-- the display range of dump.go for EVERY display_bytes (it has no upper clamp; display_bytes·8
    wraps from 2^60 on), every line_bytes the clamp lets through and every value inside a buffer:
    no division by zero, the range that is read lies inside the buffer, the number of address lines
    is bounded by the buffer size, the column writers get a start offset inside a line -/
theorem dump_range_total (rootBitLen startBit sizeBits displayBytes lineBytes : Int)
    (hlb1 : 1 ≤ lineBytes) (hlb2 : lineBytes ≤ 4096) (hs : 0 ≤ startBit) (hz : 0 ≤ sizeBits)
    (hb : startBit + sizeBits ≤ rootBitLen) (hmax : rootBitLen ≤ 9223372036854775807) :
    (dumpRange rootBitLen startBit sizeBits displayBytes lineBytes).noFault = true ∧
    ∀ r, dumpRange rootBitLen startBit sizeBits displayBytes lineBytes = .ok r →
      0 ≤ r.reqStart ∧ 0 ≤ r.reqBits ∧ r.reqStart + r.reqBits ≤ rootBitLen ∧
      r.addrLines ≤ rootBitLen / 8 + 1 ∧ 0 ≤ r.startLineByteOffset ∧ r.startLineByteOffset < lineBytes := by
  obtain ⟨x, hx, hx1, hx2⟩ := dumpLastDisplayBit_spec startBit sizeBits displayBytes lineBytes hlb1 hlb2 hs hz (by omega)
  unfold dumpRange
  simp only [hx, Outcome.bind]
  exact dumpRangeFrom_spec rootBitLen startBit sizeBits lineBytes x hlb1 hlb2 hs hz hb hmax hx1 hx2

/-- … in particular with the options of ANY option object -/
theorem dump_range_total_options (v : JV) (rootBitLen startBit sizeBits : Int) (hs : 0 ≤ startBit) (hz : 0 ≤ sizeBits)
    (hb : startBit + sizeBits ≤ rootBitLen) (hmax : rootBitLen ≤ 9223372036854775807) :
    (dumpRange rootBitLen startBit sizeBits (optionsFromValue v).displayBytes (optionsFromValue v).lineBytes).noFault = true :=
  (dump_range_total rootBitLen startBit sizeBits _ _ (options_clamped v).2.2.2.2.1 (options_clamped v).2.2.2.2.2.1
    hs hz hb hmax).1

/-- without the line_bytes clamp the same arithmetic divides by zero: line_bytes 0, and line_bytes
    2^61 (·8 wraps to 0) -/
theorem dump_range_unclamped_line_bytes_panics :
    (dumpRange 800 0 800 1 0).isPanic = true ∧ (dumpRange 800 0 800 1 2305843009213693952).isPanic = true := by
  decide

/-- FOUND WHILE MODELLING (minor; no fault, so not a violation of the totality statement, replayed on
    the real binary): display_bytes ≥ 2^60 is neither honoured nor rejected. `display_bytes: 2^61`
    (·8 = 0) shows ONE line of a 100-byte binary where every honest reading shows all of it; with
    display_bytes 2^60 (·8 = MinInt64) a 19-byte value that starts at byte 1 is an error
    ("negative nBits") instead of a dump. An unbounded-integer model sees neither. -/
theorem dump_display_bytes_wrap_not_honoured :
    dumpRange 800 0 800 2305843009213693952 16 = .ok ⟨0, 128, 1, 0⟩ ∧
    dumpRangeNoWrap 800 0 800 2305843009213693952 16 = .ok ⟨0, 800, 7, 0⟩ ∧
    dumpRange 160 8 152 1152921504606846976 16 = .err "range" ∧
    dumpRangeNoWrap 160 8 152 1152921504606846976 16 = .ok ⟨8, 152, 2, 1⟩ ∧
    dumpRange 800 0 800 20 16 = dumpRangeNoWrap 800 0 800 20 16 := by
  decide

/-! non-vacuity of the third part -/

example : (toBitsFull 21 ⟨8, 3⟩ false = .ok ⟨24, 8, 0⟩) ∧ (8 * 3 : Int) ≤ 9223372036854775807 ∧
    toBitsFull 21 ⟨1, 16⟩ false = .ok ⟨32, 1, 0⟩ ∧ toBitsFull 21 ⟨8, 0⟩ true = .ok ⟨21, 8, 3⟩ ∧
    toBitsFull 21 ⟨2, 0⟩ false = .err "unit-not-supported" := by decide
example : binIndexAt 48 8 24 8 (-1) = .ok (some (24, 8)) ∧ binIndexAt 48 8 24 8 3 = .ok none ∧
    binSliceAt 48 8 24 8 1 9223372036854775807 = .ok (16, 16) ∧ binSliceAt 48 8 29 1 (-3) 100 = .ok (34, 3) := by decide
example : dumpRange 536 0 536 1 16 = .ok ⟨0, 128, 1, 0⟩ ∧ dumpRange 536 64 472 17 16 = .ok ⟨64, 192, 2, 8⟩ ∧
    dumpRange 24 0 24 9223372036854775807 4096 = .ok ⟨0, 24, 1, 0⟩ ∧ dumpRange 0 0 0 0 1 = .ok ⟨0, 0, 1, 0⟩ := by decide

end Props.C13
