import FqModel.Codec
import Proofs.C14Codec
import Proofs.C14Text
import Proofs.C14Url
import Proofs.C14Xml
import Proofs.C14Csv
import FqModel.C14Hash
import FqModel.C14Json
import Proofs.C14Json
import Proofs.C14Large
/-!
  C14 — property theorems about the models of fq's conversion functions (FqModel/Codec.lean).
  Every theorem quantifies over ALL inputs (no length bound).  Helper lemmas: Proofs/C14*.lean.
  The models are tied to /repo by the correspondence run (harness/cmd/c14, Drv/C14.lean).
-/
namespace Props.C14
open FqModel FqModel.Codec Proofs.C14

/-! ## hex -/

/-- `to_hex | from_hex` is the identity on every byte string -/
theorem hex_roundtrip (bs : Bytes) : hexDec (hexEnc bs) = some bs := hexDec_hexEnc bs

/-- … and on a binary that is not byte aligned it returns the bits zero-padded to a byte -/
theorem hex_roundtrip_bits (bits : Bits) : hexDec (toHex bits) = some (bitsToBytesPadR bits) :=
  hexDec_hexEnc _

/-- malformed hex text is an error: odd length, or any byte that is not a hex digit -/
theorem hex_reject (t : Bytes) (h : t.length % 2 = 1 ∨ ∃ c ∈ t, unhex c = none) : hexDec t = none := by
  rcases h with h | h
  · exact hexDec_odd t h
  · exact hexDec_nonhex t h

/-- no wrong value: a text that from_hex accepts is, up to the case of A-F, exactly the hex text
    of the value returned (so `from_hex | to_hex` is case folding, and from_hex is injective up to case) -/
theorem hex_decode_sound (t v : Bytes) (h : hexDec t = some v) : hexEnc v = t.map lowerHex :=
  hexDec_sound t v h

example : hexDec (bytesOfAscii "abc") = none := hex_reject _ (Or.inl (by decide))
example : hexDec (bytesOfAscii "0g") = none := hex_reject _ (Or.inr (by decide))
example : hexDec (bytesOfAscii "0aFf") = some [0x0a, 0xff] := by decide

/-! ## base64: std, url, rawstd, rawurl (encoding.go:48-59) -/

theorem base64_roundtrip_std (bs : Bytes) : b64Std.dec (b64Std.enc bs) = some bs := dec_enc _ wf_std bs
theorem base64_roundtrip_url (bs : Bytes) : b64Url.dec (b64Url.enc bs) = some bs := dec_enc _ wf_url bs
theorem base64_roundtrip_rawstd (bs : Bytes) : b64RawStd.dec (b64RawStd.enc bs) = some bs := dec_enc _ wf_rawstd bs
theorem base64_roundtrip_rawurl (bs : Bytes) : b64RawUrl.dec (b64RawUrl.enc bs) = some bs := dec_enc _ wf_rawurl bs

/-- length of the encoded text: 4·⌈n/3⌉ with padding, ⌈8n/6⌉ without -/
theorem base64_len (e : B64) (bs : Bytes) :
    (e.enc bs).length = if e.padded then 4 * ((bs.length + 2) / 3) else (8 * bs.length + 5) / 6 :=
  enc_length e bs

example : b64Std.enc (bytesOfAscii "fo") = bytesOfAscii "Zm8=" := by decide
example : b64RawUrl.enc [0xfb, 0xff] = bytesOfAscii "-_8" := by decide
/-- padding rules of the padded decoders (Go's decodeQuantum): missing, short and misplaced padding -/
example : b64Std.dec (bytesOfAscii "Zm8") = none ∧ b64Std.dec (bytesOfAscii "Zg=") = none ∧
    b64Std.dec (bytesOfAscii "Zg==Zg==") = none ∧ b64Std.dec (bytesOfAscii "Z===") = none ∧
    b64RawStd.dec (bytesOfAscii "Zg==") = none ∧ b64Std.dec (bytesOfAscii "-_8=") = none ∧
    b64Std.dec (bytesOfAscii "Zm\n8=\r\n") = some (bytesOfAscii "fo") := by decide

/-! ## URL escaping: to/from_urlencode (query component), to/from_urlpath (path segment).
    Holds for every Go string, i.e. every byte sequence, not only valid UTF-8. -/

theorem urlencode_roundtrip (s : Bytes) : urlUnescape true (urlEscape true s) = some s :=
  urlUnescape_urlEscape true s

theorem urlpath_roundtrip (s : Bytes) : urlUnescape false (urlEscape false s) = some s :=
  urlUnescape_urlEscape false s

example : urlEscape true (bytesOfAscii "a b+c/") = bytesOfAscii "a+b%2Bc%2F" := by decide
example : urlEscape false (bytesOfAscii "a b+c/") = bytesOfAscii "a%20b+c%2F" := by decide
example : urlUnescape true (bytesOfAscii "%4") = none ∧ urlUnescape true (bytesOfAscii "%zz") = none := by decide


/-! ## URL query strings (stretch): `to_urlquery | from_urlquery` (format/text/url.go:35-82 over
    net/url Values.Encode / ParseQuery).  A `url.Values` is an association list sorted by key with a
    non-empty value list per key (`QueryWF`); fq shows one value as a string and several as an
    array — so REPEATED KEYS survive, in order.  Holds for arbitrary byte strings as keys/values
    (incl. "", "&", "=", ";", "%", non-UTF-8). -/

theorem urlquery_roundtrip (q : QueryVals) (h : QueryWF q) : parseQuery (encodeQuery q) = some q :=
  parseQuery_encodeQuery q h

example : QueryWF [(bytesOfAscii "a", [bytesOfAscii "1", bytesOfAscii "2"]), (bytesOfAscii "b&=", [[]])] := by
  refine ⟨by simp [ltBytes, bytesOfAscii], ?_⟩
  intro kv hkv; simp at hkv; rcases hkv with rfl | rfl <;> simp
example : encodeQuery [(bytesOfAscii "a", [bytesOfAscii "1", bytesOfAscii "2"]), (bytesOfAscii "b&=", [[]])]
    = bytesOfAscii "a=1&a=2&b%26%3D=" := by decide
/-- malformed query strings are errors (bad escape, semicolon separator); empty pieces are skipped -/
example : parseQuery (bytesOfAscii "a=%zz") = none ∧ parseQuery (bytesOfAscii "a=1;b=2") = none ∧
    parseQuery (bytesOfAscii "&&a=1&&a&") = some [(bytesOfAscii "a", [bytesOfAscii "1", []])] := by decide +kernel


/-! ## XML (stretch): fq's element-tree ⇄ jq-value mapping (format/xml/xml.go) on an abstract element
    tree `Xml.XNode` (name, attributes, optional text, children).  encoding/xml's text layer is an
    ASSUMED bijection for identifier names (modulo `Xml.cleanText`); compared end to end by the
    correspondence run (`xmlarr`, `xmlseq` ops), not proved. -/

/-- array form `["name", {attrs, "#text"} | null, [children]]`: toXMLFromArray reads back exactly the
    tree that fromXMLToArray wrote, for every tree with non-empty names and name-sorted attributes
    other than `#text` / `#comment` (any depth, any number of children, repeated names) -/
theorem xml_array_roundtrip (n : Xml.XNode) (h : Proofs.C14X.WFNode n) : Xml.fromArr (Xml.toArr n) = some n :=
  Proofs.C14X.fromArr_toArr n h

/-- the `#seq` ordering rule: grouping the children of an element by name with their positions as
    `#seq` (from_xml({seq:true})), then flattening the groups and sorting by `#seq` (to_xml), gives
    back the children in document order — for ALL child lists, in particular interleaved repeated
    names where every child sits in an array (the case seeded change S-C14-1 broke) -/
theorem xml_seq_order {α : Type} (cs : List (List Char × α)) : Xml.seqRoundTrip cs = cs :=
  Proofs.C14X.seqRoundTrip_id cs

example : Proofs.C14X.WFNode (.mk "r".toList [("k".toList, "v".toList)] (some "t".toList)
    [.mk "a".toList [] none [], .mk "b".toList [] none [], .mk "a".toList [] (some "x".toList) []]) := by
  simp [Proofs.C14X.WFNode, Proofs.C14X.WFNodes, Json.ltKey, Xml.textKey, Xml.commentKey]
example : Xml.groupChildren [("a".toList, 0), ("b".toList, 1), ("a".toList, 2), ("b".toList, 3)]
    = [("a".toList, [(0, 0), (2, 2)]), ("b".toList, [(1, 1), (3, 3)])] := by decide
/- Without `#seq` to_xml sorts the children by name (`Xml.sortByName`), so the document order of
   interleaved names is lost by design ("otherwise order might be lost", xml.md); the sort is stable
   since /repo 2017971e, so the order of same-named children is kept — required (no excuse) by the
   monitored law `xmlobj`; before, sort.Sort on a random map order scrambled them for more than 12
   children (former known finding xml-object-unstable-name-sort). -/

/-! ## CSV (stretch): `to_csv | from_csv` as fq configures encoding/csv (format/csv/csv.go: Comment '#',
    LazyQuotes, TrimLeadingSpace; Writer quoting).  `TableOK rows`: every row has at least one
    field, is not the single empty field, its first field does not start with '#', no field
    contains CR LF, and all rows have the same length.  Fields may contain commas, quotes, line
    feeds, lone CRs, leading/trailing white space, any unicode. -/

section csv
open FqModel.Csv Proofs.C14Csv

theorem csv_roundtrip (rows : List Row) (h : TableOK rows) : fromCsv (toCsv rows) = some rows :=
  fromCsv_toCsv rows h

/-- malformed: a table whose rows are not all as long as the first one is an error (ErrFieldCount,
    reported by fq since /repo 9e1007fc).  With LazyQuotes an unterminated quote is NOT an error
    in encoding/csv (the field simply ends with the input), see the example below. -/
theorem csv_reject (first : Row) (pre : List Row) (r : Row) (post : List Row)
    (hfields : ∀ x ∈ first :: (pre ++ r :: post), ∀ f ∈ x, FieldOK f)
    (hfirst : RowOK first) (hpre : ∀ x ∈ pre, RowOK x ∧ x.length = first.length)
    (hr : RowOK r) (hlen : r.length ≠ first.length) :
    fromCsv (toCsv (first :: (pre ++ r :: post))) = none :=
  fromCsv_ragged first pre r post hfields hfirst hpre hr hlen

/-- each of the three exclusions of `TableOK` is necessary (the known findings csv-comment-row,
    csv-single-empty-field, csv-crlf-in-field): -/
theorem csv_comment_row_witness :
    fromCsv (toCsv [["#a".toList, "b".toList], ["x".toList, "y".toList]]) = some [["x".toList, "y".toList]] := by
  unfold fromCsv fromCsvWith toCsv
  rw [norm_toCsv ',' delimOK_comma _ (by
    intro r hr f hf
    simp only [List.mem_cons, List.mem_nil_iff, or_false] at hr
    rcases hr with rfl | rfl <;> simp only [List.mem_cons, List.mem_nil_iff, or_false] at hf <;>
      rcases hf with rfl | rfl <;> (unfold FieldOK; decide))]
  decide

theorem csv_single_empty_field_witness :
    fromCsv (toCsv [[[]], ["x".toList]]) = some [["x".toList]] := by
  unfold fromCsv fromCsvWith toCsv
  rw [norm_toCsv ',' delimOK_comma _ (by
    intro r hr f hf
    simp only [List.mem_cons, List.mem_nil_iff, or_false] at hr
    rcases hr with rfl | rfl <;> simp only [List.mem_cons, List.mem_nil_iff, or_false] at hf <;>
      subst hf <;> (unfold FieldOK; decide))]
  decide

theorem csv_crlf_witness :
    fromCsv (toCsv [["a\r\nb".toList]]) = some [["a\nb".toList]] := by
  have h : toCsv [["a\r\nb".toList]] = ['"', 'a', '\r', '\n', 'b', '"', '\n'] := by decide
  unfold fromCsv fromCsvWith
  rw [h, norm_cons_ne '"' _ (by decide), norm_cons_ne 'a' _ (by decide), norm_crlf,
    norm_cons_ne 'b' _ (by decide), norm_cons_ne '"' _ (by decide), norm_cons_ne '\n' _ (by decide), norm_nil]
  decide

example : TableOK [["a,b".toList, " x".toList, []], ["\"q\"".toList, "l1\nl2".toList, "\r".toList]] := by
  refine ⟨?_, ?_⟩
  · intro r hr
    simp only [List.mem_cons, List.mem_nil_iff, or_false] at hr
    rcases hr with rfl | rfl
    · refine ⟨⟨by simp, by simp, ?_⟩, ?_⟩
      · intro f rest c cs e1 e2; cases e1; cases e2; decide
      · intro f hf; simp only [List.mem_cons, List.mem_nil_iff, or_false] at hf
        rcases hf with rfl | rfl | rfl <;> (unfold FieldOK; decide)
    · refine ⟨⟨by simp, by simp, ?_⟩, ?_⟩
      · intro f rest c cs e1 e2; cases e1; cases e2; decide
      · intro f hf; simp only [List.mem_cons, List.mem_nil_iff, or_false] at hf
        rcases hf with rfl | rfl | rfl <;> (unfold FieldOK; decide)
  · intro r hr r' hr'
    simp only [List.mem_cons, List.mem_nil_iff, or_false] at hr hr'
    rcases hr with rfl | rfl <;> rcases hr' with rfl | rfl <;> rfl
example : toCsv [["a,b".toList, " x".toList, []], ["\"q\"".toList, "l1\nl2".toList, "\r".toList]]
    = "\"a,b\",\" x\",\n\"\"\"q\"\"\",\"l1\nl2\",\"\r\"\n".toList := by decide
/-- LazyQuotes: a quote that is never closed ends with the input, a bare quote is literal -/
example : fromCsv "\"ab".toList = some [["ab".toList]] ∧ fromCsv "a\"b,c\n".toList = some [["a\"b".toList, "c".toList]] := by
  unfold fromCsv fromCsvWith
  rw [norm_no_cr _ (by decide), norm_no_cr _ (by decide)]
  decide
/-- … for EVERY delimiter both directions accept (`DelimOK d`: not '"', LF, CR, '#'), in particular
    white-space delimiters (tab, space) with empty cells: fq switches TrimLeadingSpace off for them
    (`trimOf`, /repo 4cd46826) -/
theorem csv_roundtrip_delim (d : Char) (hd : DelimOK d) (rows : List Row) (h : TableOK rows) :
    fromCsvWith d (toCsvWith d rows) = some rows := fromCsvWith_toCsvWith d hd rows h

/-- … hence for every `comma` option string from_csv accepts, with the same option on both sides -/
theorem csv_roundtrip_option (opt : List UInt8) (c : Char) (hc : fromCsvDelim opt = some c) (rows : List Row)
    (h : TableOK rows) : toCsvDelim opt = some c ∧ fromCsvWith c (toCsvWith c rows) = some rows :=
  ⟨delim_agree opt c hc, fromCsvWith_toCsvWith c (delimOK_of_option opt c hc) rows h⟩

example : DelimOK '\t' ∧ DelimOK ' ' ∧ DelimOK ';' := ⟨⟨by decide, by decide, by decide, by decide⟩,
  ⟨by decide, by decide, by decide, by decide⟩, ⟨by decide, by decide, by decide, by decide⟩⟩
example : toCsvWith '\t' [[[], "a".toList], [[], "b c".toList]] = "\ta\n\tb c\n".toList := by decide
/-- the behaviour before /repo 4cd46826 (always trimming): the tab in front of an empty field is
    swallowed and the field is lost (former known finding csv-whitespace-delimiter-loses-empty-fields) -/
example : (readFieldTrimAlways '\t' "\ta\n".toList).field = "a".toList ∧ (readField '\t' "\ta\n".toList).field = [] := by
  decide +kernel

/-- the `comma` option is read the same way by both directions: a delimiter that from_csv accepts is
    the one to_csv writes with, for EVERY option string (ASCII or multi-byte) -/
theorem csv_option_delim_agree (opt : List UInt8) (c : Char) (h : fromCsvDelim opt = some c) :
    toCsvDelim opt = some c := delim_agree opt c h

example : fromCsvDelim [0xC2, 0xA7] = some (Char.ofNat 0xC2) ∧ toCsvDelim [0xC2, 0xA7] = some (Char.ofNat 0xC2) ∧
    fromCsvDelim [59] = some ';' ∧ fromCsvDelim [] = some ',' ∧ fromCsvDelim [35] = none ∧ toCsvDelim [34] = none := by decide
/-- S3-C14-1 (to_csv reads the first rune): the two sides then disagree for "§" -/
example : toCsvDelimRune ['§'] = some '§' ∧ fromCsvDelim [0xC2, 0xA7] ≠ some '§' := by decide
end csv

/-! ## ISO-8859-1 -/

/-- every string of code points < 256 encodes, and decodes back to itself -/
theorem latin1_roundtrip (s : List Char) (h : ∀ c ∈ s, c.toNat < 256) :
    ∃ bs, toLatin1 s = some bs ∧ fromLatin1 bs = s := latin1_rt s h

/-- every byte string decodes, and encodes back to itself -/
theorem latin1_roundtrip_bytes (bs : Bytes) : toLatin1 (fromLatin1 bs) = some bs := toLatin1_fromLatin1 bs

/-- a string with a code point ≥ 256 is rejected (no silent replacement) -/
theorem latin1_reject (s : List Char) (h : ∃ c ∈ s, 256 ≤ c.toNat) : toLatin1 s = none := latin1_rej s h

example : ∀ c ∈ "naïve ÿ".toList, c.toNat < 256 := by decide
example : ∃ c ∈ "a€".toList, 256 ≤ c.toNat := by decide


/-! ## UTF-16 (stretch): `to_utf16le|be` / `from_utf16le|be` (no BOM) and `to_utf16` / `from_utf16`
    (little endian with BOM).  Quantified over every unicode string (a Lean `Char` is a scalar
    value), so surrogate pairs for all astral code points are covered. -/

theorem utf16_roundtrip (le : Bool) (s : List Char) : fromUtf16 le false (toUtf16 le false s) = s :=
  utf16_rt_nobom le s

theorem utf16_bom_roundtrip (s : List Char) : fromUtf16 true true (toUtf16 true true s) = s :=
  utf16_rt_bom s

example : toUtf16 false false "a😀".toList = [0x00, 0x61, 0xD8, 0x3D, 0xDE, 0x00] := by decide
example : toUtf16 true true "a".toList = [0xFF, 0xFE, 0x61, 0x00] := by decide
/-- QUIRK (modelled, confirmed by correspondence): the empty string gets no BOM, because fq writes
    through `Encoder.Writer` and nothing is ever written (format/text/encoding.go:205) -/
example : toUtf16 true true [] = [] := by decide

/-! ## UTF-8 (stretch): `to_utf8 | from_utf8` on every unicode string; the decoder is x/text's
    replacing decoder (ill-formed input becomes U+FFFD per maximal subpart — never an error). -/

theorem utf8_roundtrip (s : List Char) : fromUtf8 (toUtf8 s) = s := fromUtf8_toUtf8 s

example : toUtf8 "é€😀".toList = [0xC3, 0xA9, 0xE2, 0x82, 0xAC, 0xF0, 0x9F, 0x98, 0x80] := by decide


/-! ## JSON text (stretch): `tojson | fromjson` on the null/bool/integer/string/array/object
    fragment.  `Canon v`: no float placeholder, object keys strictly increasing (a Go map has
    neither order nor duplicates; colorjson prints keys sorted).  All integers (big ones too), all
    unicode strings (escaping of quotes, backslash, C0 controls, DEL), any nesting depth. -/

theorem json_roundtrip (v : Json.JV) (h : Proofs.C14J.Canon v) : Json.parse (Json.encode false v) = .ok v [] :=
  Proofs.C14J.parse_encode v h

/-- a string literal is read back exactly whatever follows it (the per-string core of the above) -/
theorem json_string_roundtrip (s rest : List Char) :
    Json.parseStringBody ((s.flatMap Json.escapeChar ++ '"' :: rest).length + 1)
      (s.flatMap Json.escapeChar ++ '"' :: rest) [] = .ok s rest :=
  Proofs.C14J.string_literal s rest

/-- an integer literal is read back exactly when followed by a delimiter -/
theorem json_int_roundtrip (i : Int) (rest : List Char) (h : Proofs.C14J.NumSafe rest) :
    Json.parseNumber (Json.encodeInt i ++ rest) = .ok (some i) rest :=
  Proofs.C14J.parseNumber_encodeInt i rest h

example : Proofs.C14J.Canon
    (.obj [("a".toList, .arr [.num (-1), .str "x\"\n".toList, .null]), ("b".toList, .obj []), ("é".toList, .bool true)]) := by
  simp [Proofs.C14J.Canon, Proofs.C14J.CanonL, Proofs.C14J.CanonM, Json.ltKey]
example : Proofs.C14J.NumSafe ",1]".toList := Proofs.C14J.numSafe_comma _
example : Json.encode false (.obj [("a".toList, .arr [.num (-12), .str "x\"\n\u007f".toList, .null])])
    = "{\"a\":[-12,\"x\\\"\\n\\u007f\",null]}".toList := by decide/-! ## jq literal (stretch): `to_jq | from_jq` (format/json/jq.jq, as repaired by /repo commit fc0fdced:
    empty strings, empty keys and negative numbers now survive).  `encode true` is `to_jq` with
    the default options: JSON text with bare identifier keys; `parseJq` is the fragment of jq's
    grammar that `to_jq` emits.  Same domain as `json_roundtrip`: every canonical value — all
    integers incl. negative and big ones, all strings incl. "", all keys incl. "" and jq keywords. -/

theorem jqlit_roundtrip (v : Json.JV) (h : Proofs.C14J.Canon v) : Json.parseJq (Json.encode true v) = .ok v [] :=
  Proofs.C14J.parseJq_encode v h

example : Json.encode true (.obj [([], .str []), ("a-b".toList, .num (-1)), ("if".toList, .arr [.num (-2)])])
    = "{\"\":\"\",\"a-b\":-1,if:[-2]}".toList := by decide
example : Proofs.C14J.Canon (.obj [([], .str []), ("a-b".toList, .num (-1)), ("if".toList, .arr [.num (-2)])]) := by
  simp [Proofs.C14J.Canon, Proofs.C14J.CanonL, Proofs.C14J.CanonM, Json.ltKey]


/-- indented output (stretch): `tojson({indent:n}) | fromjson` and `to_jq({indent:n}) | from_jq` for
    every n (n = 0 is the compact text) — `encodeI jq n 0` is the colorjson / jq.jq layout: line
    feed + depth·n spaces after `[` `{` `,`, before the closing bracket, one space after `:`. -/
theorem json_indent_roundtrip (n : Nat) (v : Json.JV) (h : Proofs.C14J.Canon v) :
    Json.parse (Json.encodeI false n 0 v) = .ok v [] := Proofs.C14J.parseWith_encodeI false n v h

theorem jqlit_indent_roundtrip (n : Nat) (v : Json.JV) (h : Proofs.C14J.Canon v) :
    Json.parseJq (Json.encodeI true n 0 v) = .ok v [] := Proofs.C14J.parseWith_encodeI true n v h

example : Json.encodeI true 2 0 (.obj [("a".toList, .arr [.num 1, .obj []]), ("b c".toList, .null)])
    = "{\n  a: [\n    1,\n    {}\n  ],\n  \"b c\": null\n}".toList := by decide

/- The parser's behaviour on text the encoder never produces (duplicate keys: last wins; lone `\u`
   surrogates: U+FFFD; trailing data, leading zeros, trailing commas: error) is not stated as
   kernel-evaluated examples (the kernel is too slow on the fuel-driven parser); it is pinned by
   corpus/C14/json.witness.ops against the real `fromjson` on every run. -/

/-! ## hash functions: the references of FqModel/C14Hash.lean (written from RFC 1321 / FIPS 180-4,
    SHA-2 constants computed from the primes) reproduce the published test vectors.  These are
    kernel-checked evaluations (`decide +kernel`), no algebraic claim is made: the model IS the
    specification, and fq's to_md4/to_md5/to_sha1/to_sha256/to_sha512/to_sha3_{224,256,384,512} (all the hash
    functions of format/crypto/hash.go; fq has no SHA-224/384/512-t) are compared with it on every
    generated input by the correspondence run. -/

def asc (s : String) : List UInt8 := s.toList.map (fun c => UInt8.ofNat c.toNat)
def unhexS (s : String) : List UInt8 := (bytesOfHex s).getD []

/-- RFC 1321 A.5 -/
theorem md5_kat :
    Hash.md5 (asc "") = unhexS "d41d8cd98f00b204e9800998ecf8427e" ∧
    Hash.md5 (asc "abc") = unhexS "900150983cd24fb0d6963f7d28e17f72" ∧
    Hash.md5 (asc "message digest") = unhexS "f96b697d7cb7938d525a2f31aaf161d0" ∧
    Hash.md5 (asc "12345678901234567890123456789012345678901234567890123456789012345678901234567890")
      = unhexS "57edf4a22be3c955ac49da2e2107b67a" := by decide +kernel

/-- FIPS 180 examples (one-block and two-block message) -/
theorem sha1_kat :
    Hash.sha1 (asc "abc") = unhexS "a9993e364706816aba3e25717850c26c9cd0d89d" ∧
    Hash.sha1 (asc "abcdbcdecdefdefgefghfghighijhijkijkljklmklmnlmnomnopnopq")
      = unhexS "84983e441c3bd26ebaae4aa1f95129e5e54670f1" := by decide +kernel

theorem sha256_kat :
    Hash.sha256 (asc "abc") = unhexS "ba7816bf8f01cfea414140de5dae2223b00361a396177a9cb410ff61f20015ad" ∧
    Hash.sha256 (asc "abcdbcdecdefdefgefghfghighijhijkijkljklmklmnlmnomnopnopq")
      = unhexS "248d6a61d20638b8e5c026930c3e6039a33ce45964ff2167f6ecedd419db06c1" := by decide +kernel

theorem sha512_kat :
    Hash.sha512 (asc "abc") = unhexS ("ddaf35a193617abacc417349ae20413112e6fa4e89a97ea20a9eeee64b55d39a"
      ++ "2192992a274fc1a836ba3c23a3feebbd454d4423643ce80e2a9ac94fa54ca49f") := by decide +kernel


/-- RFC 1320 A.5 (MD4) -/
theorem md4_kat :
    Hash.md4 (asc "") = unhexS "31d6cfe0d16ae931b73c59d7e0c089c0" ∧
    Hash.md4 (asc "abc") = unhexS "a448017aaf21d8525fc10ae87aa6729d" ∧
    Hash.md4 (asc "12345678901234567890123456789012345678901234567890123456789012345678901234567890")
      = unhexS "e33b4ddc9c38f2199c3e7b164fcc0536" := by decide +kernel

/-- FIPS 202 example values (NIST CSRC "SHA-3 examples": the empty message, and "abc") -/
theorem sha3_224_kat :
    Hash.sha3_224 (asc "") = unhexS "6b4e03423667dbb73b6e15454f0eb1abd4597f9a1b078e3f5b5a6bc7" := by decide +kernel

theorem sha3_256_kat :
    Hash.sha3_256 (asc "abc") = unhexS "3a985da74fe225b2045c172d6bd390bd855f086e3e9d525b46bfe24511431532" := by
  decide +kernel

theorem sha3_384_kat :
    Hash.sha3_384 (asc "") = unhexS ("0c63a75b845e4f7d01107d852e4c2485c51a50aaaa94fc61995e71bbee983a2a"
      ++ "c3713831264adb47fb6bd1e058d5f004") := by decide +kernel

theorem sha3_512_kat :
    Hash.sha3_512 (asc "") = unhexS ("a69f73cca23a9ac5c8b567dc185a756e97c982164fe25859e0d1dcc1475c80a6"
      ++ "15b2123af1f5f94c11e3e9402c3ac558f500199d95b6d3e301758586281dcd26") := by decide +kernel

/-- the computed Keccak round constants and rotation offsets are those tabulated in FIPS 202 / the
    Keccak reference (first, second and last RC; offsets of lanes (1,0), (2,0), (0,1), (4,4)) -/
theorem keccak_constants :
    (Hash.keccakRC 0).toNat = 0x0000000000000001 ∧ (Hash.keccakRC 1).toNat = 0x0000000000008082 ∧
    (Hash.keccakRC 23).toNat = 0x8000000080008008 ∧
    Hash.keccakRho[1]! = 1 ∧ Hash.keccakRho[2]! = 62 ∧ Hash.keccakRho[5]! = 36 ∧ Hash.keccakRho[24]! = 14 := by
  decide +kernel

/-- the computed SHA-256 round constants are the ones printed in FIPS 180-4 §4.2.2 (first/last rows) -/
theorem sha256_constants :
    (Hash.sha256K.toList.take 4).map UInt32.toNat = [0x428a2f98, 0x71374491, 0xb5c0fbcf, 0xe9b5dba5] ∧
    (Hash.sha256K.toList.drop 60).map UInt32.toNat = [0x90befffa, 0xa4506ceb, 0xbef9a3f7, 0xc67178f2] ∧
    Hash.sha256H0.toList.map UInt32.toNat =
      [0x6a09e667, 0xbb67ae85, 0x3c6ef372, 0xa54ff53a, 0x510e527f, 0x9b05688c, 0x1f83d9ab, 0x5be0cd19] := by
  decide +kernel


/-! ## integer representation: gojqx.ToGoJQValue's demotion rule (what Normalize applies before
    to_yaml / to_toml / to_xml / to_csv, and decoders to their fields).  An integer is handed to jq
    as an `int` exactly when it fits one, as a big integer otherwise — whatever Go type carried
    it.  (A big integer that fits an int would be written by yaml.v3 / BurntSushi/toml as a quoted
    string: seeded change S2-C14-2, `toGoJQIntBitLen`, does that to −2^63.) -/

theorem normalize_int_canonical (g : GoInt) (h : g.valid = true) :
    (minInt ≤ g.val ∧ g.val ≤ maxInt → toGoJQInt g = .int g.val) ∧
    (¬ (minInt ≤ g.val ∧ g.val ≤ maxInt) → toGoJQInt g = .big g.val) := toGoJQInt_canonical g h

/-- independent of the input representation -/
theorem normalize_int_repr_independent (a b : GoInt) (ha : a.valid = true) (hb : b.valid = true)
    (h : a.val = b.val) : toGoJQInt a = toGoJQInt b := by
  by_cases hf : minInt ≤ a.val ∧ a.val ≤ maxInt
  · rw [(toGoJQInt_canonical a ha).1 hf, (toGoJQInt_canonical b hb).1 (h ▸ hf), h]
  · rw [(toGoJQInt_canonical a ha).2 hf, (toGoJQInt_canonical b hb).2 (h ▸ hf), h]

example : (GoInt.big (-(2 ^ 63))).valid = true ∧ (GoInt.uint64 (2 ^ 64 - 1)).valid = true := by decide
example : toGoJQInt (.big (-(2 ^ 63))) = .int (-(2 ^ 63)) ∧ toGoJQInt (.big (2 ^ 63)) = .big (2 ^ 63) ∧
    toGoJQInt (.uint64 (2 ^ 63)) = .big (2 ^ 63) ∧ toGoJQInt (.int64 (-(2 ^ 63))) = .int (-(2 ^ 63)) := by decide
/-- the BitLen rule is not canonical: it leaves −2^63 a big integer -/
example : toGoJQIntBitLen (.big (-(2 ^ 63))) = .big (-(2 ^ 63)) ∧
    toGoJQIntBitLen (.big (-(2 ^ 63) + 1)) = .int (-(2 ^ 63) + 1) := by decide

/-! ## radix -/

/-- `to_radix(b) | from_radix(b)` is the identity on every non-negative integer, 2 ≤ b ≤ 64 -/
theorem radix_roundtrip (b n : Nat) (hb : 2 ≤ b ∧ b ≤ 64) :
    ∃ s, toRadix b n = some s ∧ fromRadix b s = some n := fromRadix_toRadix b n hb.1 hb.2

/-- canonical output: never empty, "0" for 0, no leading zero otherwise, only digits of the base -/
theorem to_radix_canonical (b n : Nat) (hb : 2 ≤ b ∧ b ≤ 64) :
    ∃ s, toRadix b n = some s ∧ s ≠ [] ∧ (n = 0 → s = ['0']) ∧ (0 < n → s.head? ≠ some '0') ∧
      ∀ c ∈ s, ∃ d, d < b ∧ c = radixTable.getD d '?' := toRadix_canonical b n hb.1 hb.2

example : toRadix 16 255 = some "ff".toList ∧ toRadix 64 4095 = some "__".toList ∧
    toRadix 2 (2 ^ 70) = some ("1" ++ String.ofList (List.replicate 70 '0')).toList := by decide
/-- malformed input is an error: the empty string, a character outside the 64-symbol table, or a
    digit that is not below the base (radix.jq as repaired by /repo 1a4271bf; `validDigit b c` =
    c is in the table with a value < b) -/
theorem from_radix_reject (b : Nat) (s : List Char) (h : s = [] ∨ ∃ c ∈ s, validDigit b c = false) :
    fromRadix b s = none := fromRadix_reject b s h

/-- … and exactly that: every non-empty string of valid digits is accepted -/
theorem from_radix_accept (b : Nat) (s : List Char) (hne : s ≠ []) (h : ∀ c ∈ s, validDigit b c = true) :
    (fromRadix b s).isSome = true := fromRadix_accept b s hne h

example : fromRadix 2 "9".toList = none ∧ fromRadix 10 "ff".toList = none ∧ fromRadix 16 [] = none ∧
    fromRadix 16 "Z".toList = none ∧ fromRadix 10 "1-".toList = none ∧ fromRadix 16 "00ff".toList = some 255 := by decide
example : ∃ c ∈ "19".toList, validDigit 8 c = false := by decide
example : "7f".toList ≠ [] ∧ ∀ c ∈ "7f".toList, validDigit 16 c = true := by decide
/-- the regression model (behaviour before the repair; former known findings
    radix-digit-not-below-base, radix-empty-string) accepted these -/
example : fromRadixLegacy 2 "9".toList = some 9 ∧ fromRadixLegacy 16 [] = some 0 := by decide
/-- to_radix: base < 2 and base > 64 are errors -/
example : toRadix 1 5 = none ∧ toRadix 0 5 = none ∧ toRadix 65 5 = none := by decide

/-! ## chunk independence (large and composite inputs: ops `lrt`, `lhash`)

  fq feeds its encoders through `io.Copy(encoder, bitio.NewIOReader(br))`: the encoder receives the input
  in pieces (32 KiB copy buffer; reads of an array binary stop at the boundaries of its members).  The
  property makes the result a function of the bit string alone, i.e. independent of that chunking. -/
open FqModel.C14Large in
/-- hex: encoding chunk by chunk, for EVERY chunk size, is the encoding of the whole -/
theorem hex_chunk_independent (k : Nat) (hk : 0 < k) (bs : Bytes) : encChunked hexEnc k bs = hexEnc bs :=
  chunks_flatMap hexEnc k hk rfl (fun a b _ => hexEnc_append a b) _ _ (Nat.lt_succ_self _)

open FqModel.C14Large in
/-- base64 (all four variants): encoding chunk by chunk is the encoding of the whole for every chunk size
    that is a multiple of 3 (what a streaming encoder must buffer up to) -/
theorem b64_chunk_independent (e : B64) (k : Nat) (hk : 0 < k) (h3 : k % 3 = 0) (bs : Bytes) :
    encChunked e.enc k bs = e.enc bs :=
  chunks_flatMap e.enc k hk (b64_enc_nil e)
    (fun a b h => b64_enc_append_aux e (k / 3) a b (by omega)) _ _ (Nat.lt_succ_self _)

/-- base64 of a concatenation, first part a multiple of 3 bytes long -/
theorem b64_enc_append (e : B64) (a b : Bytes) (h : a.length % 3 = 0) : e.enc (a ++ b) = e.enc a ++ e.enc b :=
  b64_enc_append_aux e (a.length / 3) a b (by omega)

open FqModel.C14Large in
/-- … and it is false for other chunk sizes: an encoder applied per chunk (a copy loop that calls
    `EncodeToString` per read — 64 KiB reads, or reads that stop at the member boundaries of an array binary)
    puts padding / partial groups in the middle of the text -/
theorem b64_chunk_not_multiple_of_3_witness :
    encChunked b64Std.enc 1 [97, 98] = bytesOfAscii "YQ==Yg==" ∧ b64Std.enc [97, 98] = bytesOfAscii "YWI=" ∧
    encChunked b64RawUrl.enc 4 [1, 2, 3, 4, 5] ≠ b64RawUrl.enc [1, 2, 3, 4, 5] ∧
    65536 % 3 ≠ 0 ∧ 32768 % 3 ≠ 0 := by decide

/-- the string encoders are homomorphic over concatenation (so chunking at character boundaries is invisible) -/
theorem utf8_append (a b : List Char) : toUtf8 (a ++ b) = toUtf8 a ++ toUtf8 b := by simp [toUtf8]
theorem utf16_body_append (le : Bool) (a b : List Char) : utf16Body le (a ++ b) = utf16Body le a ++ utf16Body le b := by
  simp [utf16Body]

example : (0 : Nat) < 3072 ∧ 3072 % 3 = 0 := by decide

end Props.C14
