import FqModel.Container
import Proofs.C15Crc
import Proofs.C15Struct
import Proofs.C15CrcTable
import Proofs.C15Crc16
import Proofs.C15Crc8
import Proofs.C15Riff
import Proofs.C15Gif
import Proofs.C15Zip
import Proofs.C15Png
import Proofs.C15Gz
import FqModel.ContainerTar
import Proofs.C15Infl
/-!
  C15 — container decoders report what independent writers stored: property theorems.

  Models: `FqModel/Container.lean` (transliterations of pkg/checksum/crc.go, pkg/decode/scalar.go,
  format/tar, format/gzip, format/png, format/ogg page); regenerated facts: `FqModel/Gen/Crc.lean`
  (the tables `checksum.MakeTable` produces, statically evaluated from the AST, and the update
  expressions of `(*CRC).Write`).  inflate / bzip2 / LZW are library code: parameters of the models,
  exercised end to end by the correspondence run only.
-/
namespace Props.C15
open FqModel FqModel.Container Proofs.C15

/-! ## regenerated CRC tables = eight bit-by-bit steps of the index -/

def tableOk (tbl : Array Nat) (poly bits : Nat) : Bool :=
  tbl.size == 256 && (List.range 256).all (fun i => tbl[i]! == makeTableEntry poly bits i)

theorem tableOk_spec {tbl : Array Nat} {poly bits : Nat} (h : tableOk tbl poly bits = true) :
    tbl.size = 256 ∧ ∀ i, i < 256 → tbl[i]! = makeTableEntry poly bits i := by
  simp only [tableOk, Bool.and_eq_true, List.all_eq_true, List.mem_range, beq_iff_eq] at h
  exact h

/-- the table fq uses for the 32 bit CRC of ogg pages (`checksum.Poly04c11db7Table`) -/
theorem crc32_table_ok :
    Gen.Crc.Poly04c11db7Table.size = 256 ∧
    ∀ i, i < 256 → Gen.Crc.Poly04c11db7Table[i]! = makeTableEntry 0x04c11db7 32 i :=
  tableOk_spec (by decide +kernel)

theorem crc16_table_ok :
    Gen.Crc.ANSI16Table.size = 256 ∧ ∀ i, i < 256 → Gen.Crc.ANSI16Table[i]! = makeTableEntry 0x8005 16 i :=
  tableOk_spec (by decide +kernel)

theorem crc8_table_ok :
    Gen.Crc.ATM8Table.size = 256 ∧ ∀ i, i < 256 → Gen.Crc.ATM8Table[i]! = makeTableEntry 0x07 8 i :=
  tableOk_spec (by decide +kernel)

theorem ieeele_table_ok :
    Gen.Crc.IEEELETable.size = 256 ∧ ∀ i, i < 256 → Gen.Crc.IEEELETable[i]! = makeTableEntry 0xedb88320 32 i :=
  tableOk_spec (by decide +kernel)

/-- the polynomial / width arguments found in the source are the textbook ones -/
theorem crc_table_params :
    Gen.Crc.Poly04c11db7TablePoly = 0x04c11db7 ∧ Gen.Crc.Poly04c11db7TableBits = 32 ∧
    Gen.Crc.ANSI16TablePoly = 0x8005 ∧ Gen.Crc.ANSI16TableBits = 16 ∧
    Gen.Crc.ATM8TablePoly = 0x07 ∧ Gen.Crc.ATM8TableBits = 8 := by decide

/-- the update expressions extracted from `(*CRC).Write` are the ones the model `crcWriteByte` has -/
theorem gen_write_matches_model (tbl : Array Nat) (cur : Nat) (b : UInt8) :
    (∀ t, tbl[cur ^^^ b.toNat]? = some t → crcWriteByte 8 tbl cur b = .ok (Gen.Crc.write8 (fun i => tbl[i]!) cur b.toNat)) ∧
    (∀ t, tbl[(cur >>> 8) ^^^ b.toNat]? = some t → crcWriteByte 16 tbl cur b = .ok (Gen.Crc.write16 (fun i => tbl[i]!) cur b.toNat)) ∧
    (∀ t, tbl[(cur >>> 24) ^^^ b.toNat]? = some t → crcWriteByte 32 tbl cur b = .ok (Gen.Crc.write32 (fun i => tbl[i]!) cur b.toNat)) ∧
    Gen.Crc.writeBits = [8, 16, 32] ∧
    Gen.Crc.sumShifts8 = [0] ∧ Gen.Crc.sumShifts16 = [8, 0] ∧ Gen.Crc.sumShifts32 = [24, 16, 8, 0] := by
  refine ⟨?_, ?_, ?_, rfl, rfl, rfl, rfl⟩
  · intro t h
    have hi : cur ^^^ b.toNat < tbl.size := by
      rcases Array.getElem?_eq_some_iff.mp h with ⟨hlt, _⟩; exact hlt
    rcases Array.getElem?_eq_some_iff.mp h with ⟨_, he⟩
    simp [crcWriteByte, Gen.Crc.write8, h, getElem!_pos, hi, he]
  · intro t h
    have hi : (cur >>> 8) ^^^ b.toNat < tbl.size := by
      rcases Array.getElem?_eq_some_iff.mp h with ⟨hlt, _⟩; exact hlt
    rcases Array.getElem?_eq_some_iff.mp h with ⟨_, he⟩
    simp [crcWriteByte, Gen.Crc.write16, h, getElem!_pos, hi, he]
  · intro t h
    have hi : (cur >>> 24) ^^^ b.toNat < tbl.size := by
      rcases Array.getElem?_eq_some_iff.mp h with ⟨hlt, _⟩; exact hlt
    rcases Array.getElem?_eq_some_iff.mp h with ⟨_, he⟩
    simp [crcWriteByte, Gen.Crc.write32, h, getElem!_pos, hi, he]

/-- fq's table driven step over the regenerated table = eight bit-by-bit steps (msb first, polynomial
    0x04C11DB7) of the state xor the byte, for EVERY 32 bit state and byte; never the index panic -/
theorem fqcrc32_step_eq_bitwise (cur : Nat) (hc : cur < 2 ^ 32) (b : UInt8) :
    crcWriteByte 32 Gen.Crc.Poly04c11db7Table cur b = .ok (crcMsbStep 0x04C11DB7 32 cur b) := by
  have hb : b.toNat < 2 ^ 8 := b.toNat_lt
  have hidx : (cur >>> 24) ^^^ b.toNat < 256 :=
    Nat.xor_lt_two_pow (n := 8) (by rw [Nat.shiftRight_eq_div_pow]; omega) hb
  obtain ⟨hsz, htab⟩ := crc32_table_ok
  have hlt : (cur >>> 24) ^^^ b.toNat < Gen.Crc.Poly04c11db7Table.size := by rw [hsz]; exact hidx
  have hget : Gen.Crc.Poly04c11db7Table[(cur >>> 24) ^^^ b.toNat]? = some (makeTableEntry 0x04c11db7 32 ((cur >>> 24) ^^^ b.toNat)) := by
    rw [Array.getElem?_eq_getElem hlt, ← htab _ hidx, getElem!_pos Gen.Crc.Poly04c11db7Table _ hlt]
  simp only [crcWriteByte, hget]
  rw [write32_eq_bitwise cur hc b _ rfl]

/-- … hence for every byte string: `checksum.CRC{Bits: 32, Table: Poly04c11db7Table}` computes the
    bit-by-bit CRC (the one Ogg pages carry) and never panics, from any 32 bit start value -/
theorem fqcrc32_eq_bitwise (bs : Bytes) : ∀ (cur : Nat), cur < 2 ^ 32 →
    crcWrite 32 Gen.Crc.Poly04c11db7Table cur bs = .ok (crcMsb 0x04C11DB7 32 cur bs) := by
  induction bs with
  | nil => intro cur _; rfl
  | cons b bs ih =>
    intro cur hc
    simp only [crcWrite, fqcrc32_step_eq_bitwise cur hc b, crcMsb, List.foldl_cons]
    exact ih _ (crcMsbStep_lt cur hc b)

/-- fq's own 32 bit CRC (Ogg pages): two inputs of the same length that differ in exactly one byte get different
    checksums, from any 32 bit start value -/
theorem fqcrc32_detects_byte (init : Nat) (hinit : init < 2 ^ 32) (a a' : Bytes) (i : Nat) (hlen : a.length = a'.length)
    (hi : i < a.length) (hne : a[i] ≠ a'[i]'(hlen ▸ hi))
    (hrest : ∀ j (hj : j < a.length), j ≠ i → a[j] = a'[j]'(hlen ▸ hj)) :
    crcWrite 32 Gen.Crc.Poly04c11db7Table init a ≠ crcWrite 32 Gen.Crc.Poly04c11db7Table init a' := by
  obtain ⟨p, q, h1, h2⟩ := split_at_diff a a' i hlen hi hrest
  rw [fqcrc32_eq_bitwise a init hinit, fqcrc32_eq_bitwise a' init hinit]
  intro h
  injection h with h
  rw [h1, h2] at h
  exact crcMsb_ne_of_byte init hinit p q hne h

/-- the 16 bit table (`ANSI16Table`, polynomial 0x8005: flac frame footer, mp3 frame crc): table driven step =
    eight bit-by-bit steps, for every 16 bit state and byte -/
theorem fqcrc16_step_eq_bitwise (cur : Nat) (hc : cur < 2 ^ 16) (b : UInt8) :
    crcWriteByte 16 Gen.Crc.ANSI16Table cur b = .ok (crcMsbStep 0x8005 16 cur b) := by
  have hb : b.toNat < 2 ^ 8 := b.toNat_lt
  have hidx : (cur >>> 8) ^^^ b.toNat < 256 :=
    Nat.xor_lt_two_pow (n := 8) (by rw [Nat.shiftRight_eq_div_pow]; omega) hb
  obtain ⟨hsz, htab⟩ := crc16_table_ok
  have hlt : (cur >>> 8) ^^^ b.toNat < Gen.Crc.ANSI16Table.size := by rw [hsz]; exact hidx
  have hget : Gen.Crc.ANSI16Table[(cur >>> 8) ^^^ b.toNat]? = some (makeTableEntry 0x8005 16 ((cur >>> 8) ^^^ b.toNat)) := by
    rw [Array.getElem?_eq_getElem hlt, ← htab _ hidx, getElem!_pos Gen.Crc.ANSI16Table _ hlt]
  simp only [crcWriteByte, hget]
  rw [W16.write32_eq_bitwise cur hc b _ rfl]

theorem fqcrc16_eq_bitwise (bs : Bytes) : ∀ (cur : Nat), cur < 2 ^ 16 →
    crcWrite 16 Gen.Crc.ANSI16Table cur bs = .ok (crcMsb 0x8005 16 cur bs) := by
  induction bs with
  | nil => intro cur _; rfl
  | cons b bs ih =>
    intro cur hc
    simp only [crcWrite, fqcrc16_step_eq_bitwise cur hc b, crcMsb, List.foldl_cons]
    exact ih _ (W16.crcMsbStep_lt cur hc b)

/-- holds for every length and position, from any 16 bit start value (0 for flac, 0xffff for mp3): the
    polynomial is odd, so the bit step is injective -/
theorem fqcrc16_detects_byte (init : Nat) (hinit : init < 2 ^ 16) (a a' : Bytes) (i : Nat) (hlen : a.length = a'.length)
    (hi : i < a.length) (hne : a[i] ≠ a'[i]'(hlen ▸ hi))
    (hrest : ∀ j (hj : j < a.length), j ≠ i → a[j] = a'[j]'(hlen ▸ hj)) :
    crcWrite 16 Gen.Crc.ANSI16Table init a ≠ crcWrite 16 Gen.Crc.ANSI16Table init a' := by
  obtain ⟨p, q, h1, h2⟩ := split_at_diff a a' i hlen hi hrest
  rw [fqcrc16_eq_bitwise a init hinit, fqcrc16_eq_bitwise a' init hinit]
  intro h
  injection h with h
  rw [h1, h2] at h
  exact W16.crcMsb_ne_of_byte init hinit p q hne h

/-- the 8 bit table (`ATM8Table`, polynomial 0x07: flac frame header): the table is indexed by state xor byte -/
theorem fqcrc8_step_eq_bitwise (cur : Nat) (hc : cur < 2 ^ 8) (b : UInt8) :
    crcWriteByte 8 Gen.Crc.ATM8Table cur b = .ok (crcMsbStep 0x07 8 cur b) := by
  have hb : b.toNat < 2 ^ 8 := b.toNat_lt
  have hidx : cur ^^^ b.toNat < 256 := Nat.xor_lt_two_pow (n := 8) hc hb
  obtain ⟨hsz, htab⟩ := crc8_table_ok
  have hlt : cur ^^^ b.toNat < Gen.Crc.ATM8Table.size := by rw [hsz]; exact hidx
  have hget : Gen.Crc.ATM8Table[cur ^^^ b.toNat]? = some (makeTableEntry 0x07 8 (cur ^^^ b.toNat)) := by
    rw [Array.getElem?_eq_getElem hlt, ← htab _ hidx, getElem!_pos Gen.Crc.ATM8Table _ hlt]
  simp only [crcWriteByte, hget]
  rw [W8.makeTableEntry_eq]
  rfl

theorem fqcrc8_eq_bitwise (bs : Bytes) : ∀ (cur : Nat), cur < 2 ^ 8 →
    crcWrite 8 Gen.Crc.ATM8Table cur bs = .ok (crcMsb 0x07 8 cur bs) := by
  induction bs with
  | nil => intro cur _; rfl
  | cons b bs ih =>
    intro cur hc
    simp only [crcWrite, fqcrc8_step_eq_bitwise cur hc b, crcMsb, List.foldl_cons]
    exact ih _ (W8.crcMsbStep_lt cur hc b)

/-- every length and position, from any 8 bit start value -/
theorem fqcrc8_detects_byte (init : Nat) (hinit : init < 2 ^ 8) (a a' : Bytes) (i : Nat) (hlen : a.length = a'.length)
    (hi : i < a.length) (hne : a[i] ≠ a'[i]'(hlen ▸ hi))
    (hrest : ∀ j (hj : j < a.length), j ≠ i → a[j] = a'[j]'(hlen ▸ hj)) :
    crcWrite 8 Gen.Crc.ATM8Table init a ≠ crcWrite 8 Gen.Crc.ATM8Table init a' := by
  obtain ⟨p, q, h1, h2⟩ := split_at_diff a a' i hlen hi hrest
  rw [fqcrc8_eq_bitwise a init hinit, fqcrc8_eq_bitwise a' init hinit]
  intro h
  injection h with h
  rw [h1, h2] at h
  exact W8.crcMsb_ne_of_byte init hinit p q hne h

/-! ## every single altered byte changes the CRC-32 / Adler-32 -/

/-- for a fixed byte the CRC-32 byte step permutes the 2^32 states -/
theorem crc_step_bijective (b : UInt8) :
    Function.Injective (fun s => crc32Step s b) ∧ Function.Surjective (fun s => crc32Step s b) :=
  ⟨crc32Step_inj_state b, crc32Step_surj_state b⟩

/-- from one state, two different bytes lead to two different states -/
theorem crc_step_separates_bytes (s : BitVec 32) : Function.Injective (fun b => crc32Step s b) :=
  crc32Step_inj_byte s

/-- two byte strings of the same (arbitrary) length that differ in exactly one byte have different CRC-32 -/
theorem crc32_detects_byte (a a' : Bytes) (i : Nat) (hlen : a.length = a'.length) (hi : i < a.length)
    (hne : a[i] ≠ a'[i]'(hlen ▸ hi))
    (hrest : ∀ j (hj : j < a.length), j ≠ i → a[j] = a'[j]'(hlen ▸ hj)) :
    crc32 a ≠ crc32 a' := by
  obtain ⟨p, q, h1, h2⟩ := split_at_diff a a' i hlen hi hrest
  rw [h1, h2]
  exact crc32_ne_of_byte p q hne

example : crc32 [1, 2, 3] ≠ crc32 [1, 7, 3] :=
  crc32_detects_byte [1, 2, 3] [1, 7, 3] 1 rfl (by decide) (by decide) (by
    intro j hj hne
    have : j = 0 ∨ j = 2 := by simp at hj; omega
    rcases this with h | h <;> subst h <;> rfl)

/-- the same for Adler-32, for ALL lengths and positions: the low half is 1 + the byte sum modulo 65521 and
    two bytes differ by less than 65521, so no side condition is needed -/
theorem adler32_detects_byte (a a' : Bytes) (i : Nat) (hlen : a.length = a'.length) (hi : i < a.length)
    (hne : a[i] ≠ a'[i]'(hlen ▸ hi))
    (hrest : ∀ j (hj : j < a.length), j ≠ i → a[j] = a'[j]'(hlen ▸ hj)) :
    adler32 a ≠ adler32 a' := by
  obtain ⟨p, q, h1, h2⟩ := split_at_diff a a' i hlen hi hrest
  rw [h1, h2]
  exact adler32_ne_of_byte p q hne

example : adler32 [0x61, 0x62] = 0x012600c4 := by decide

/-! ## `valid` / `invalid` -/

/-- `UintAssertBytes` (scalar.go:105-141), used by `d.UintValidateBytes(hash.Sum(nil))` for the gzip crc32,
    png chunk crc, ogg page crc: the description is `valid` exactly when the stored number equals the
    big endian value of the computed digest -/
theorem validity_flag (stored : Nat) (sum : Bytes) (d : String) (h : uintAssertBytes stored sum = some d) :
    (d = "valid" ↔ stored = beNat sum) ∧ (d = "invalid" ↔ stored ≠ beNat sum) := by
  unfold uintAssertBytes at h
  split at h
  · injection h with h
    subst h
    by_cases e : stored = beNat sum <;> simp [e]
  · cases h

/-- `requireUint("validate", …)` (decode_gen.go:921-938), used by bzip2's crcs -/
theorem validity_flag_uint (stored computed : Nat) :
    (uintValidate stored computed = "valid" ↔ stored = computed) := by
  unfold uintValidate
  by_cases e : stored = computed <;> simp [e]

example : uintAssertBytes 0x3bb935c6 [0x3b, 0xb9, 0x35, 0xc6] = some "valid" := by decide
example : uintAssertBytes 0 [0, 0, 0, 1] = some "invalid" := by decide

/-! ## writers and parsers are inverse: what is written is what fq's parser reports -/

/-- tar: ANY number (>= 1) of members with ANY names/sizes/payloads in the writer's domain (`TarOk`: text
    fields fit their width and have no space/NUL at either end, numbers fit their octal width): the
    decoder reports exactly the entries, the 1024 byte end marker, and no error -/
theorem tar_roundtrip (ms : List TarMember) (hne : ms ≠ []) (hok : ∀ m ∈ ms, TarOk m) :
    parseTar (writeTar ms) = ⟨ms.map TarMember.entry, some 1024, false⟩ :=
  Proofs.C15.tar_roundtrip ms hne hok

def exMember : TarMember :=
  { name := [0x61, 0x2e, 0x74], mode := 0o644, uid := 1000, gid := 100, mtime := 1600000000, chksum := 4207, typeflag := 0x30,
    linkname := [], version := 0, uname := [0x75], gname := [], devmajor := 0, devminor := 0, pfx := [], data := [1, 2, 3] }

example : TarOk exMember :=
  ⟨⟨by decide, by decide, by decide⟩, ⟨by decide, by decide, by decide⟩, ⟨by decide, by decide, by decide⟩,
   ⟨by decide, by decide, by decide⟩, ⟨by decide, by decide, by decide⟩,
   by decide, by decide, by decide, by decide, by decide, by decide, by decide, by decide, by decide⟩

/-- an archive without members is only the end marker and decodes to an error (`no files found`, tar.go:104):
    the round trip needs at least one member -/
theorem tar_empty_is_error : (parseTar (writeTar [])).err = true := by decide +kernel

/-- gzip header, writer in the bit order the DECODER has (text = bit 7 … comment = bit 3): all optional
    field combinations, any extra/name/comment contents in the domain `GzOk` -/
theorem gzip_header_roundtrip_asis (h : GzFields) (ok : GzOk h) (rest : Bytes) :
    parseGzHeader (writeGzHeaderAsIs h ++ rest) = some (h.header, rest) :=
  gz_roundtrip h ok rest

/- FULL STATEMENT (false of the current code — known finding `gzip-flags-bit-order`):
     ∀ h, GzOk h → parseGzHeader (writeGzHeaderRFC h ++ rest) = some (h.header, rest)
   with the flag bits where RFC 1952 puts them (FTEXT = bit 0 … FCOMMENT = bit 4).
   Proved: the restriction to headers whose flag byte reads the same in both orders
   (no FTEXT/FHCRC/FEXTRA, name and comment both present or both absent); refuted in general by the
   witness below. -/
theorem gzip_header_roundtrip_partial (h : GzFields) (ok : GzOk h) (rest : Bytes)
    (ht : h.text = false) (hc : h.hcrc = none) (he : h.extra = none) (hnc : h.name.isSome = h.comment.isSome) :
    parseGzHeader (writeGzHeaderRFC h ++ rest) = some (h.header, rest) := by
  have e : writeGzHeaderRFC h = writeGzHeaderAsIs h := by
    obtain ⟨text, mtime, xfl, os, extra, name, comment, hcrc⟩ := h
    simp only at ht hc he hnc
    subst ht hc he
    unfold writeGzHeaderRFC writeGzHeaderAsIs
    cases name <;> cases comment <;> simp_all [b2n]
  rw [e]
  exact gz_roundtrip h ok rest

/-- witness: a header written per RFC 1952 with only a file name (`gzip file`, FLG = 0x08) is reported
    with the name as `comment` and no name -/
theorem gzip_header_flags_witness :
    parseGzHeader (writeGzHeaderRFC { text := false, mtime := 0, xfl := 0, os := 3, extra := none, name := some [0x78], comment := none, hcrc := none })
      = some ({ cm := 8, text := false, hcrc := false, extra := false, name := false, comment := true, reserved := 0, mtime := 0,
                xfl := 0, os := 3, xlen := none, extraBytes := none, nameStr := none, commentStr := some [0x78], hcrcBytes := none }, []) := by
  decide +kernel

example : GzOk { text := false, mtime := 5, xfl := 2, os := 3, extra := some [1, 2], name := some [0x78], comment := none, hcrc := none } :=
  ⟨by decide, by decide, by decide, (by intro e h; cases h; decide), (by intro s h; cases h; decide), (by intro s h; cases h),
   (by intro c h; cases h)⟩

/-- gzip member after the header: `inflate` (library code) is a parameter; whatever deflate stream `z` it
    accepts for `data`, the trailer a writer appends (CRC-32, ISIZE) is read back, the crc is shown as
    `valid`, the payload is the writer's, and the next member starts at `rest` -/
theorem gzip_member_roundtrip (inflate : Bytes → Option (Nat × Bytes)) (z data rest : Bytes)
    (hinf : inflate (z ++ (writeGzTrailer data ++ rest)) = some (z.length, data)) :
    parseGzBody inflate 8 (z ++ (writeGzTrailer data ++ rest)) =
      some ({ clen := z.length, crc := (crc32 data).toNat, crcDesc := "valid", isize := data.length % 2 ^ 32, data := data }, rest) :=
  gz_body_rt inflate z data rest hinf

example : (fun (_ : Bytes) => some (2, [0x61])) ([3, 0] ++ (writeGzTrailer [0x61] ++ [])) = some (([3, 0] : Bytes).length, [0x61]) := rfl

/-- png: signature, then ANY chunks (type of four bytes, data shorter than 2^32, an IHDR with its 13 bytes)
    none of which is IEND, then IEND: every chunk is reported with its length, type flags, data, the stored
    crc shown as `valid`, the IHDR fields decoded; bytes after IEND are not touched -/
theorem png_chunks_roundtrip (cs : List (Bytes × Bytes)) (hok : ∀ c ∈ cs, PngOk c.1 c.2) (hnoend : ∀ c ∈ cs, c.1 ≠ tIEND)
    (d rest : Bytes) (hd : PngOk tIEND d) :
    parsePng (writePng (cs ++ [(tIEND, d)]) ++ rest) =
      some ⟨cs.map (fun c => pngChunkOf c.1 c.2) ++ [pngChunkOf tIEND d], false⟩ :=
  png_roundtrip cs hok hnoend d rest hd

example : PngOk tIHDR [0, 0, 0, 1, 0, 0, 0, 1, 8, 0, 0, 0, 0] := ⟨by decide, by decide, by intro _; decide⟩
example : PngOk tIEND [] := ⟨by decide, by decide, by intro h; cases h⟩

/-- a chunk whose stored crc is not the crc32 of type+data reads `invalid` (so, with `crc32_detects_byte`,
    does every chunk with one altered type/data byte) -/
theorem png_crc_invalid (typ data : Bytes) (stored : Nat) (h : stored ≠ (crc32 (typ ++ data)).toNat) :
    uintAssertBytes stored (toBE 4 (crc32 (typ ++ data)).toNat) = some "invalid" := by
  have hc : (crc32 (typ ++ data)).toNat < 2 ^ 32 := (crc32 (typ ++ data)).isLt
  have e : beNat (toBE 4 (crc32 (typ ++ data)).toNat) = (crc32 (typ ++ data)).toNat := by
    rw [beNat_toBE]; exact Nat.mod_eq_of_lt (by simpa using hc)
  simp [uintAssertBytes, toBE_length, e, h]

/-! ## wav, gif, zip: writers and fq's parsers are inverse -/

/-- RIFF/WAVE: a file RIFF(WAVE){ top level chunks }, every top level chunk a leaf (any four byte id but RIFF/LIST, any payload
    its type decodes, odd sizes padded) or a LIST of leaves — any number of chunks, any sizes below 2^32-1: fq's parser yields
    exactly the chunk events (ids, sizes, type specific fields, align bytes) in order -/
theorem wav_roundtrip (tops : List WavTop) (ok : WavOk tops) : parseWav (writeWav tops) = some (wavEv tops) :=
  wav_rt tops ok

/-- the `fmt ` chunk in its three shapes (16 bytes; cb_size + extra bytes; WAVE_FORMAT_EXTENSIBLE) -/
theorem wav_fmt_roundtrip (f : WavFmt) (hs : FmtShape f) (hf : FmtFits f) : parseWavFmt (writeWavFmt f) = some f :=
  wav_fmt_rt f hs hf

example : WavOk [.leaf [0x64, 0x61, 0x74, 0x61] [1, 2, 3], .list [0x49, 0x4e, 0x46, 0x4f] [([0x49, 0x41, 0x52, 0x54], [0x78, 0])]] :=
  ⟨by
    intro t ht
    simp only [List.mem_cons, List.mem_nil_iff, or_false] at ht
    rcases ht with h | h <;> subst h
    · exact ⟨by decide, by decide, by decide, by decide, by decide⟩
    · refine ⟨by decide, ?_, by decide⟩
      intro l hl
      simp only [List.mem_cons, List.mem_nil_iff, or_false] at hl
      subst hl
      exact ⟨by decide, by decide, by decide, by decide, by decide⟩,
   by decide⟩

/-- GIF, writer in the field order the DECODER has: header, logical screen descriptor, global colour table, any number of
    extension and image blocks with their sub-block chains (ANY number of sub-blocks incl. none — the lone terminator —,
    each 1..255 bytes, zero terminator), trailer — everything is read back, bytes after the trailer untouched -/
theorem gif_blocks_roundtrip (g : GifFile) (ok : GifOk g) (rest : Bytes) : parseGif (writeGifAsIs g ++ rest) = some (g, rest) :=
  gif_rt g ok rest

/-- a file with an empty comment extension (`21 FE 00`) and an image without data is in the domain -/
example : GifOk { header := gif89a, width := 1, height := 1, gcp := false, cres := 1, zero := 0, bd := 1, black := 0, par := 0, gcm := none,
                  blocks := [.ext 0x21 0xfe [], .image 0x2c 0 0 1 1 false false 0 1 2 none []], term := 0x3b } :=
  ⟨Or.inr rfl, (by decide), (by decide), (by decide), (by decide), (by decide), (by decide), (by decide), (by intro h; cases h), (by intro _; rfl),
   (by
    intro b hb
    simp only [List.mem_cons, List.mem_nil_iff, or_false] at hb
    rcases hb with h | h <;> subst h
    · exact ⟨rfl, (by decide), Or.inl rfl⟩
    · exact ⟨rfl, (by decide), (by decide), (by decide), (by decide), (by decide), (by decide), (by decide), (by decide), (by intro h; cases h), (by intro _; rfl), Or.inl rfl⟩),
   rfl⟩

/- FULL STATEMENT (false of the current code — known finding `gif-local-color-map-order`): an image written as the GIF
   specification says (local colour table, THEN the LZW minimum code size) is reported with that code size and that table.
   Proved instead: the specification-order bytes ARE the decoder-order bytes of the shifted view (`gifImageView`: code_size =
   first table byte, local_color_map = rest of the table ++ [code size]), so with `gif_blocks_roundtrip` that view is exactly
   what fq reports; without a local table the view is the image as written. -/
theorem gif_image_order_partial (l t w h : Nat) (il : Bool) (bd : Nat) (table : Option Bytes) (cs : Nat) (subs : List GifSub) :
    writeGifImageSpec l t w h il bd table cs subs = writeGifBlockAsIs (gifImageView l t w h il bd table cs subs) ∧
    (table = none → gifImageView l t w h il bd table cs subs = .image 0x2c l t w h false il 0 bd cs none subs) :=
  ⟨image_spec_asis l t w h il bd table cs subs, by intro h; subst h; rfl⟩

/-- witness: a 1x1 image with a 2 colour local table (1,2,3),(4,5,6) and code size 2 is shown with code_size 1 and the
    "table" 2,3,4,5,6,2 -/
theorem gif_local_map_order_witness :
    gifBlock (writeGifImageSpec 0 0 1 1 false 1 (some [1, 2, 3, 4, 5, 6]) 2 [⟨2, [0x4c, 0x01], some 0⟩]) =
      some (.image 44 0 0 1 1 true false 0 1 1 (some [2, 3, 4, 5, 6, 2]) [⟨2, [0x4c, 0x01], some 0⟩], []) := by
  decide +kernel

/-- ZIP: any number of stored members with sizes in their local headers (no data descriptor, no extra fields), central
    directory, end record with a comment of at most 106 bytes (fq searches the record in the last 128 bytes): fq's parser
    (backwards search, central directory, local files at the recorded offsets) reports the end record, every central record
    and every local file (name, method, flags, crc32, sizes, MS-DOS date and time with the derived unix time, payload) -/
theorem zip_roundtrip (inflate : Nat → Bytes → Option (Nat × Bytes)) (ms : List ZipMember) (comment : Bytes) (ok : ZipOk ms comment) :
    parseZip inflate (writeZip ms comment) = .ok (zipView ms comment) :=
  zip_rt inflate ms comment ok

def exZipMember : ZipMember :=
  { name := [0x61], ftime := 0x6000, fdate := 0x8c21, lang := false, ext := 0, comment := [], data := [1, 2, 3] }

/-- the hypotheses are satisfiable, and the round trip computes (kernel evaluation of the same instance) -/
example : parseZip (fun _ _ => none) (writeZip [exZipMember] [0x68]) = .ok (zipView [exZipMember] [0x68]) := by decide +kernel

/- FULL STATEMENT for streamed members (false of the current code — known finding `zip-stored-data-descriptor`): a stored
   member written with sizes 0 in the local header and a data descriptor after the payload is reported with its payload.
   Witness: fq takes the size 0 from the local header, shows an empty payload and reads the "descriptor" from the payload bytes. -/
theorem zip_stored_dd_witness :
    zipLocal (fun _ _ => none) (writeZipLocalDD exZipMember) 0 =
      .ok { name := [0x61], method := 0, dd := true, lang := false, crc := 1438416925, csize := 0, usize := 0, uncompressed := some [],
            compressedLen := none, di := some ⟨none, 1342374401, 487065419, 55950464⟩, date := zipDate 0x6000 0x8c21, extras := [] } := by
  decide +kernel

/-! ## zlib framing (RFC 1950) as Go's compress/zlib reader — the code on fq's zTXt / iCCP path — checks it -/

/-- every header a writer can choose (window 2^8..2^15, the four FLEVEL classes, no preset dictionary), ANY deflate bytes `z`
    for ANY payload (inflate = library code, a parameter), the Adler-32 trailer: the reader recovers CM = 8, CINFO, FLEVEL,
    FCHECK, FDICT = 0, the payload, the stored Adler-32, and leaves the bytes after the trailer unread -/
theorem zlib_roundtrip (inflate : Bytes → Option (Nat × Bytes)) (cinfo flevel : Nat) (hc : cinfo ≤ 7) (hl : flevel ≤ 3)
    (z data rest : Bytes) (hinf : inflate (z ++ (toBE 4 (adler32 data) ++ rest)) = some (z.length, data)) :
    parseZlib inflate (writeZlib cinfo flevel none z data ++ rest) =
      .ok ({ hdr := { cm := 8, cinfo, fcheck := zlibFcheck (zlibCmf cinfo) (zlibFlgHi flevel false), fdict := false, flevel },
             dictid := none, clen := z.length, data, adler := adler32 data }, rest) := by
  have := zlib_rt_gen inflate cinfo flevel hc hl z data rest (adler32 data) (adler32_lt data) hinf
  simp only [ne_eq, not_true_eq_false, if_false] at this
  simpa [writeZlib, List.append_assoc] using this

example : (fun (_ : Bytes) => some (2, [0x61])) ([3, 0] ++ (toBE 4 (adler32 [0x61]) ++ [])) = some (([3, 0] : Bytes).length, [0x61]) := rfl
/-- the header Go's and zlib's writers emit at the default level is the instance cinfo = 7, flevel = 2: bytes 78 9c -/
example : writeZlibHeader 7 2 none = [0x78, 0x9c] := by decide
example : writeZlibHeader 7 0 none = [0x78, 0x01] ∧ writeZlibHeader 7 3 none = [0x78, 0xda] ∧ writeZlibHeader 7 1 none = [0x78, 0x5e] := by decide

/-- a stored Adler-32 that is not the payload's is `zlib.ErrChecksum` — for fq a decode error of the chunk (there is no
    valid/invalid flag on this path); with `adler32_detects_byte`, so is every single altered payload byte that inflates -/
theorem zlib_adler_mismatch_error (inflate : Bytes → Option (Nat × Bytes)) (cinfo flevel : Nat) (hc : cinfo ≤ 7) (hl : flevel ≤ 3)
    (z data rest : Bytes) (stored : Nat) (hs : stored < 2 ^ 32) (hne : stored ≠ adler32 data)
    (hinf : inflate (z ++ (toBE 4 stored ++ rest)) = some (z.length, data)) :
    parseZlib inflate (writeZlibHeader cinfo flevel none ++ (z ++ (toBE 4 stored ++ rest))) = .error .checksum := by
  rw [zlib_rt_gen inflate cinfo flevel hc hl z data rest stored hs hinf]
  simp [hne]

/-- FCHECK: a header whose 16 bit value is not a multiple of 31 (or CM ≠ 8, or a window above 32 KiB) is `zlib.ErrHeader`,
    whatever follows -/
theorem zlib_fcheck_required (inflate : Bytes → Option (Nat × Bytes)) (cmf flg : UInt8) (rest : Bytes)
    (h : cmf.toNat % 16 ≠ 8 ∨ cmf.toNat / 16 > 7 ∨ (cmf.toNat * 256 + flg.toNat) % 31 ≠ 0) :
    parseZlib inflate (cmf :: flg :: rest) = .error .header := by
  simp [parseZlib, zlibHdr2, h]

/-- … and the writer's FCHECK satisfies it for all 8 x 4 x 2 headers -/
theorem zlib_fcheck_ok : ∀ (c : Fin 8) (l : Fin 4) (d : Bool),
    (zlibCmf c * 256 + (zlibFlgHi l d + zlibFcheck (zlibCmf c) (zlibFlgHi l d))) % 31 = 0 ∧
    zlibFlgHi l d + zlibFcheck (zlibCmf c) (zlibFlgHi l d) < 256 ∧ zlibFcheck (zlibCmf c) (zlibFlgHi l d) < 32 := by decide

/-- FDICT: the reader fq uses has no preset dictionary, so a stream announcing one is `zlib.ErrDictionary` — except for the
    DICTID 1 = Adler-32 of the empty dictionary, which the library accepts (quirk kept); then everything is recovered as above -/
theorem zlib_fdict (inflate : Bytes → Option (Nat × Bytes)) (cinfo flevel : Nat) (hc : cinfo ≤ 7) (hl : flevel ≤ 3)
    (id : Nat) (hid : id < 2 ^ 32) (z data rest : Bytes) (hinf : inflate (z ++ (toBE 4 (adler32 data) ++ rest)) = some (z.length, data)) :
    parseZlib inflate (writeZlib cinfo flevel (some id) z data ++ rest) =
      if id ≠ 1 then .error .dict
      else .ok ({ hdr := { cm := 8, cinfo, fcheck := zlibFcheck (zlibCmf cinfo) (zlibFlgHi flevel true), fdict := true, flevel },
                  dictid := some 1, clen := z.length, data, adler := adler32 data }, rest) := by
  have := zlib_rt_dict inflate cinfo flevel hc hl id hid z data rest (adler32 data) (adler32_lt data) hinf
  simp only [ne_eq, not_true_eq_false, if_false] at this
  simpa [writeZlib, List.append_assoc] using this

/-! ## png: IHDR / PLTE / tRNS bodies, the IDAT stream -/

/-- IHDR: ANY width / height below 2^32 and ANY byte for bit depth, colour type, compression, filter, interlace — in particular
    all 15 legal (colour type, bit depth) pairs with interlace 0 and 1 — are read back -/
theorem png_ihdr_roundtrip (i : Ihdr) (hw : i.width < 2 ^ 32) (hh : i.height < 2 ^ 32) (hb : i.bitDepth < 256) (hc : i.colorType < 256)
    (hm : i.compression < 256) (hf : i.filter < 256) (hi : i.interlace < 256) (ct : Nat) :
    pngBody ct tIHDR (writeIHDR i) = some (.ihdr i) ∧ (writeIHDR i).length = 13 := by
  refine ⟨?_, writeIHDR_length i⟩
  simp [pngBody, ihdr_rt i hw hh hb hc hm hf hi]

/-- the legal combinations are in that domain (15 pairs) -/
example : ((List.range 7).flatMap fun ct => (List.range 17).filter (pngLegal ct)).length = 15 ∧
    ∀ ct < 7, ∀ bd < 17, pngLegal ct bd = true → bd < 256 ∧ ct < 256 := by decide

/-- PLTE: any number of entries (1..256 in a legal file) is read back, the chunk length is three times the number of
    entries, and a length that is not a multiple of three is a decode error -/
theorem png_plte_roundtrip (cols : List (UInt8 × UInt8 × UInt8)) (ct : Nat) :
    pngBody ct tPLTE (writePlte cols) = some (.plte cols) ∧ (writePlte cols).length = 3 * cols.length := by
  refine ⟨?_, writePlte_length cols⟩
  simp [pngBody, plte_rt cols, show tPLTE ≠ tIHDR by decide]

theorem png_plte_bad_size (d : Bytes) (h : d.length % 3 ≠ 0) (ct : Nat) : pngBody ct tPLTE d = none := by
  simp [pngBody, plte_bad_size d.length d (Nat.le_refl _) h, show tPLTE ≠ tIHDR by decide]

/-- tRNS: what is decoded depends on the colour type of the IHDR seen before: one 16 bit grey sample (type 0), three 16 bit
    samples (type 2), one alpha byte per palette entry — any number — (type 3), nothing otherwise -/
theorem png_trns_roundtrip (a r g b : Nat) (ha : a < 65536) (hr : r < 65536) (hg : g < 65536) (hb : b < 65536) (alphas : Bytes) :
    pngBody 0 tTRNS (toBE 2 a) = some (.trnsGray a) ∧
    pngBody 2 tTRNS (toBE 2 r ++ toBE 2 g ++ toBE 2 b) = some (.trnsRgb r g b) ∧
    pngBody 3 tTRNS alphas = some (.trnsPal alphas) ∧
    pngBody 4 tTRNS alphas = some .trnsNone ∧ pngBody 6 tTRNS alphas = some .trnsNone := by
  have e : ∀ v, v < 65536 → beNat (toBE 2 v) = v := fun v hv => by
    rw [beNat_toBE]; exact Nat.mod_eq_of_lt (by simpa using hv)
  have t : ∀ v (rest : Bytes), takeN 2 (toBE 2 v ++ rest) = some (toBE 2 v, rest) := fun v rest => takeN_append _ _ 2 (toBE_length _ _)
  have n1 : tTRNS ≠ tIHDR := by decide
  have n2 : tTRNS ≠ tPLTE := by decide
  refine ⟨?_, ?_, ?_, ?_, ?_⟩
  · have := t a []
    simp only [List.append_nil] at this
    simp [pngBody, n1, n2, this, e a ha]
  · simp only [pngBody, n1, n2, if_false, if_true, List.append_assoc, t, Option.bind_eq_bind, Option.bind_some]
    have := t b []
    simp only [List.append_nil] at this
    simp [this, e r hr, e g hg, e b hb]
  · simp [pngBody, n1, n2]
  · simp [pngBody, n1, n2]
  · simp [pngBody, n1, n2]

/-- the IDAT stream: for ANY way of cutting a byte string `zs` into pieces (`parts.flatten = zs`; empty pieces and any number of
    them allowed), written as consecutive IDAT chunks between any other chunks `pre` / `post` (none of them IDAT or IEND), the
    concatenation, in file order, of the `data` fq reports for the IDAT chunks is `zs` — every chunk with its crc `valid` -/
theorem png_idat_concat (pre post : List (Bytes × Bytes)) (parts : List Bytes) (zs : Bytes) (hz : parts.flatten = zs)
    (hpre : ∀ c ∈ pre, PngOk c.1 c.2 ∧ c.1 ≠ tIEND ∧ c.1 ≠ tIDAT) (hpost : ∀ c ∈ post, PngOk c.1 c.2 ∧ c.1 ≠ tIEND ∧ c.1 ≠ tIDAT)
    (hparts : ∀ p ∈ parts, p.length < 2 ^ 32) (rest : Bytes) :
    ∃ r, parsePng (writePng ((pre ++ parts.map (fun p => (tIDAT, p)) ++ post) ++ [(tIEND, [])]) ++ rest) = some r ∧ r.err = false ∧
      idatStream r.chunks = zs ∧ ∀ c ∈ r.chunks, c.crcDesc = "valid" := by
  have hok : ∀ c ∈ pre ++ parts.map (fun p => (tIDAT, p)) ++ post, PngOk c.1 c.2 ∧ c.1 ≠ tIEND := by
    intro c hc
    simp only [List.mem_append, List.mem_map] at hc
    rcases hc with (hc | ⟨p, hp, rfl⟩) | hc
    · exact ⟨(hpre c hc).1, (hpre c hc).2.1⟩
    · exact ⟨⟨(by show tIDAT.length = 4; decide), hparts p hp, (by intro h; exact absurd h (by show ¬ tIDAT = tIHDR; decide))⟩, (by show tIDAT ≠ tIEND; decide)⟩
    · exact ⟨(hpost c hc).1, (hpost c hc).2.1⟩
  refine ⟨_, png_roundtrip _ (fun c hc => (hok c hc).1) (fun c hc => (hok c hc).2) [] rest ⟨by decide, by decide, by intro h; exact absurd h (by decide)⟩, rfl, ?_, ?_⟩
  · simp only [List.map_append, idatStream_append, List.map_map]
    rw [idatStream_none pre (fun c hc => (hpre c hc).2.2), idatStream_none post (fun c hc => (hpost c hc).2.2)]
    have : idatStream [pngChunkOf tIEND []] = [] := by decide
    have e : List.map (ch ∘ fun p => (tIDAT, p)) parts = parts.map (fun p => pngChunkOf tIDAT p) := rfl
    rw [this, e, idatStream_idats, hz]
    simp
  · intro c hc
    simp only [List.mem_append, List.mem_map, List.mem_singleton] at hc
    rcases hc with ⟨x, _, rfl⟩ | rfl <;> rfl

/-- two cuttings of the same stream give the same IDAT stream (and a reader of the zlib framing sees the writer's stream:
    compose with `zlib_roundtrip`) -/
example : idatStream ([[1, 2], [], [3]].map (fun p => pngChunkOf tIDAT p)) = idatStream ([[1], [2, 3]].map (fun p => pngChunkOf tIDAT p)) := by decide

/-- bodies of an image file as the writers lay it out — IHDR, optional PLTE, optional tRNS, any IDAT pieces, IEND — with the
    colour type remembered from IHDR deciding how tRNS is read -/
theorem png_image_bodies (i : Ihdr) (hw : i.width < 2 ^ 32) (hh : i.height < 2 ^ 32) (hb : i.bitDepth < 256) (hc : i.colorType < 256)
    (hm : i.compression < 256) (hf : i.filter < 256) (hi : i.interlace < 256) (cols : List (UInt8 × UInt8 × UInt8))
    (td : Bytes) (tb : PngBody) (ht : pngBody i.colorType tTRNS td = some tb) (parts : List Bytes) :
    pngBodies 0 ([pngChunkOf tIHDR (writeIHDR i), pngChunkOf tPLTE (writePlte cols), pngChunkOf tTRNS td] ++
                 (parts.map (fun p => pngChunkOf tIDAT p) ++ [pngChunkOf tIEND []])) =
      some ([.ihdr i, .plte cols, tb] ++ (parts.map PngBody.raw ++ [.iend])) := by
  have h1 := (png_ihdr_roundtrip i hw hh hb hc hm hf hi 0).1
  have h2 := (png_plte_roundtrip cols i.colorType).1
  have d1 : (pngChunkOf tIHDR (writeIHDR i)).data = writeIHDR i := rfl
  have d2 : (pngChunkOf tPLTE (writePlte cols)).data = writePlte cols := rfl
  have d3 : (pngChunkOf tTRNS td).data = td := rfl
  have hend : ∀ ct, pngBodies ct [pngChunkOf tIEND []] = some [.iend] := by
    intro ct
    simp [pngBodies, pngBody, pngChunkOf_typ, show tIEND ≠ tIHDR by decide, show tIEND ≠ tPLTE by decide, show tIEND ≠ tTRNS by decide]
  simp only [List.cons_append, List.nil_append, pngBodies, pngChunkOf_typ, d1, d2, d3, h1, h2, ht]
  rw [pngBodies_idats, hend]
  simp

example : pngBody 3 tTRNS [0, 255] = some (.trnsPal [0, 255]) := by decide

/-! ## gzip: members, ISIZE, FHCRC -/

/-- ANY number (>= 1) of members, each with any header fields in `GzOk` (decoder's flag order), any deflate bytes and payload
    (flate as a parameter: `InflOk`): fq reports every member with its header, compressed size, crc32 `valid`, ISIZE, payload,
    and the root `uncompressed` is the concatenation of all payloads in order -/
theorem gzip_multi_member_roundtrip (inflate : Bytes → Option (Nat × Bytes)) (ms : List GzMemberW) (hne : ms ≠ []) (hok : ∀ m ∈ ms, GzOk m.h)
    (hinf : InflOk inflate ms) :
    parseGzip inflate (writeGzip ms) = some (ms.map GzMemberW.view, ms.flatMap (·.data)) :=
  gzip_rt inflate ms hne hok hinf

def exGzW (d : Bytes) : GzMemberW :=
  { h := { text := false, mtime := 0, xfl := 0, os := 3, extra := none, name := none, comment := none, hcrc := none }, z := [1, 0, 0, 0xff, 0xff], data := d }

/-- the hypotheses are satisfiable (an oracle that answers for the two members), and the instance computes -/
example : parseGzip (fun bs => if bs.length > 20 then some (5, [0x61]) else some (5, [0x62])) (writeGzip [exGzW [0x61], exGzW [0x62]]) =
    some ([(exGzW [0x61]).view, (exGzW [0x62]).view], [0x61, 0x62]) := by decide +kernel

/-- no member at all is a decode error (`no members found`) -/
theorem gzip_empty_is_error (inflate : Bytes → Option (Nat × Bytes)) : parseGzip inflate [] = none := rfl

/-- ISIZE: fq shows the four stored bytes as a number and never compares them with the payload; a writer stores the length
    modulo 2^32, so that is what is reported for EVERY payload length (also >= 4 GiB), and it is the length itself below 4 GiB -/
theorem gzip_isize_mod (inflate : Bytes → Option (Nat × Bytes)) (z data rest : Bytes)
    (hinf : inflate (z ++ (writeGzTrailer data ++ rest)) = some (z.length, data)) :
    ∃ b, parseGzBody inflate 8 (z ++ (writeGzTrailer data ++ rest)) = some (b, rest) ∧ b.isize = data.length % 2 ^ 32 ∧
      (data.length < 2 ^ 32 → b.isize = data.length) :=
  ⟨_, gz_body_rt inflate z data rest hinf, rfl, fun h => Nat.mod_eq_of_lt h⟩

/-- the trailer as it is read: ANY stored crc32 and ANY four ISIZE bytes. The crc is `valid` iff it is the payload's CRC-32
    (`invalid` otherwise — with `crc32_detects_byte`: after any single altered payload byte); the ISIZE bytes change nothing
    but the number shown (not validated: part of the known finding `checksum-not-validated`) -/
theorem gzip_trailer_flags (inflate : Bytes → Option (Nat × Bytes)) (z data rest : Bytes) (c : Nat) (hc : c < 2 ^ 32) (i4 : Bytes) (hi : i4.length = 4)
    (hinf : inflate (z ++ (toLE 4 c ++ (i4 ++ rest))) = some (z.length, data)) :
    parseGzBody inflate 8 (z ++ (toLE 4 c ++ (i4 ++ rest))) =
      some ({ clen := z.length, crc := c, crcDesc := if c = (crc32 data).toNat then "valid" else "invalid", isize := leNat i4, data := data }, rest) :=
  gz_body_gen inflate z data rest c hc i4 hi hinf

/-- FHCRC: a header carrying the CRC16 RFC 1952 defines (low 16 bits of the CRC-32 of the header bytes before it) is read back
    with exactly those two bytes as `header_crc`; and so is a header with ANY other two bytes there — fq does not validate the
    field (gzip.go:96 `TODO: validate`; known finding `checksum-not-validated`) -/
theorem gzip_fhcrc_raw (h : GzFields) (ok : GzOk h) (rest : Bytes) :
    parseGzHeader (writeGzHeaderAsIs (gzWithHcrc h) ++ rest) = some ((gzWithHcrc h).header, rest) ∧
    (gzWithHcrc h).header.hcrcBytes = some (toLE 2 ((crc32 (writeGzHeaderAsIs { h with hcrc := some [] })).toNat % 65536)) ∧
    ∀ c : Bytes, c.length = 2 → parseGzHeader (writeGzHeaderAsIs { h with hcrc := some c } ++ rest) = some (({ h with hcrc := some c } : GzFields).header, rest) :=
  ⟨gz_roundtrip _ (gzWithHcrc_ok h ok) rest, rfl, fun c hc =>
    gz_roundtrip { h with hcrc := some c } ⟨ok.mtime, ok.xfl, ok.os, ok.extra, ok.name, ok.comment, by
      intro x hx; simp only [Option.some.injEq] at hx; subst hx; exact hc⟩ rest⟩


/-! ## tar: numeric fields in base-256 -/

/-- the extension itself is a bijection on 88 bit values: what a writer stores is what a reader of the extension recovers -/
theorem tar_b256_field_roundtrip (n : Nat) (h : n < 256 ^ 11) : parseB256 (b256Field n) = some n ∧ (b256Field n).length = 12 := by
  refine ⟨?_, by simp [b256Field, toBE_length]⟩
  simp only [parseB256, b256Field, if_true]
  rw [beNat_toBE, Nat.mod_eq_of_lt h]

/-- fq's `fieldNumber` (after the repair) on such a field: every value below 2^63 is recovered; and on an octal field it is the
    octal reader it always was -/
theorem tar_number_field (n : Nat) (h : n < 2 ^ 63) (w m : Nat) (hw : 2 ≤ w) (hm : m < 8 ^ (w - 1)) (h64 : m < 2 ^ 64) :
    tarNum (b256Field n) = some n ∧ tarNum (octField w m) = some m ∧ tarNum (octField w m) = parseOct (cstr (octField w m)) :=
  ⟨tarNum_b256 n h, tarNum_field w m hw hm h64, tarNum_oct _ (octField_head w m hw)⟩

/-- values that do not fit 63 bits get no number (for the size field: `could not decode size`) -/
example : tarNum (0x80 :: toBE 11 (2 ^ 63)) = none ∧ tarNum (0x80 :: toBE 11 (2 ^ 64)) = none ∧ tarNum (0xff :: toBE 11 5) = none := by decide +kernel

/-- `tar_roundtrip` (above) already quantifies over members whose size is written in base-256 (`b256 := true`, any size below
    2^63, i.e. also 8 GiB and more) mixed freely with octal ones.  Stated on its own: an archive in which EVERY member uses
    base-256 — any number of members, any names, payloads, sizes — is decoded to exactly the members written -/
theorem tar_base256_size_roundtrip (ms : List TarMember) (hne : ms ≠ []) (hok : ∀ m ∈ ms, TarOk m) (hb : ∀ m ∈ ms, m.b256 = true) :
    parseTar (writeTar ms) = ⟨ms.map TarMember.entry, some 1024, false⟩ ∧
    ∀ m ∈ ms, m.data.length < 2 ^ 63 ∧ ((writeTarMember m).drop 124).take 12 = b256Field m.data.length := by
  refine ⟨Proofs.C15.tar_roundtrip ms hne hok, ?_⟩
  intro m hm
  have ok := hok m hm
  have hs := ok.size
  simp only [hb m hm, if_true] at hs
  refine ⟨hs, ?_⟩
  have e : writeTarMember m = (padNul 100 m.name ++ octField 8 m.mode ++ octField 8 m.uid ++ octField 8 m.gid) ++
      (b256Field m.data.length ++ (octField 12 m.mtime ++ octField 8 m.chksum ++ [m.typeflag] ++ padNul 100 m.linkname ++ padNul 6 ustar ++
      octField 2 m.version ++ padNul 32 m.uname ++ padNul 32 m.gname ++ octField 8 m.devmajor ++ octField 8 m.devminor ++
      padNul 155 m.pfx ++ List.replicate 12 0 ++ m.data ++ List.replicate (blockPad m.data.length) 0)) := by
    simp [writeTarMember, writeTarHeader, tarSizeField, hb m hm, List.append_assoc]
  have hl : (padNul 100 m.name ++ octField 8 m.mode ++ octField 8 m.uid ++ octField 8 m.gid).length = 124 := by
    simp only [List.length_append, padNul_length _ _ ok.name.1, octField_length 8 _ (by decide)]
  rw [e, List.drop_append_of_le_length (by omega), List.drop_of_length_le (by omega), List.nil_append]
  rw [List.take_append_of_le_length (by rw [b256Field_length]; omega)]
  rw [List.take_of_length_le (by rw [b256Field_length]; omega)]

def exMemberB : TarMember := { exMember with chksum := 0, b256 := true }

example : TarOk exMemberB :=
  ⟨⟨by decide, by decide, by decide⟩, ⟨by decide, by decide, by decide⟩, ⟨by decide, by decide, by decide⟩,
   ⟨by decide, by decide, by decide⟩, ⟨by decide, by decide, by decide⟩,
   by decide, by decide, by decide, by decide, by decide, by decide, by decide, by decide, by decide⟩

/-- REGRESSION (defect repaired by `fix: tar: decode base-256 …`): the ORIGINAL decoder (`tarOldParse`: octal text only) rejected
    an intact archive whose one 3 byte member has its size stored as 80 00 … 03 (`could not decode size`, no file), the
    repaired decoder reports the member; on the same member written in octal the two agree -/
theorem tarOld_base256_size_rejected :
    tarOldParse (writeTar [exMemberB]) = ⟨[], none, true⟩ ∧
    parseTar (writeTar [exMemberB]) = ⟨[exMemberB.entry], some 1024, false⟩ ∧
    (writeTar [exMemberB]).length = 2048 ∧
    tarOldParse (writeTar [{ exMemberB with b256 := false }]) = parseTar (writeTar [{ exMemberB with b256 := false }]) := by
  decide +kernel

/-! ## the inflater's output is reported whole: no bound on its size or on size / compressed size

  `FieldReaderRange` / `TryFieldReaderRangeFormat` / `FieldFormatReaderLen` (pkg/decode/decode.go:1186-1249) `io.ReadAll` the
  reader the format hands them; gzip.go:107, zip.go:468 and png.go:131/148 hand them `flate.NewReader` / `zlib.NewReader`
  unwrapped.  The inflater stays an abstract parameter (library code, trusted); the only hypothesis about it is that it returns
  `payload` for the member's compressed range — nothing about `payload.length` or `payload.length / z.length`. -/

/-- For every member and EVERY payload: if the inflater returns `data` for the member's compressed range then
    * gzip (gzip.go:102-127): `uncompressed` = data, `compressed` = the stream, crc32 `valid` (CRC-32 over the whole payload),
      ISIZE = length mod 2^32;
    * zip, sizes in the local header (zip.go:453-490, window = compressed_size bytes): `uncompressed` = data, `compressed` = z;
    * zip, streamed member (compressed_size 0, window = the rest of the file, sizes in the data descriptor that is read at
      `compressedStart + consumed`): `uncompressed` = data, `compressed` = the consumed bytes;
    * zlib framed png chunks (zTXt / iCCP, png.go:131/148 through compress/zlib's reader): data recovered with the stored Adler-32. -/
theorem container_reports_inflated_payload :
    (∀ (inflate : Bytes → Option (Nat × Bytes)) (z data rest : Bytes),
        inflate (z ++ (writeGzTrailer data ++ rest)) = some (z.length, data) →
        parseGzBody inflate 8 (z ++ (writeGzTrailer data ++ rest)) =
          some ({ clen := z.length, crc := (crc32 data).toNat, crcDesc := "valid", isize := data.length % 2 ^ 32, data := data }, rest)) ∧
    (∀ (inflate : Nat → Bytes → Option (Nat × Bytes)) (off used : Nat) (z data tail : Bytes), z ≠ [] →
        inflate off z = some (used, data) →
        zipBody inflate off 8 z.length (z ++ tail) = some (some data, some z.length, z.length)) ∧
    (∀ (inflate : Nat → Bytes → Option (Nat × Bytes)) (off : Nat) (z data tail : Bytes),
        inflate off (z ++ tail) = some (z.length, data) →
        zipBody inflate off 8 0 (z ++ tail) = some (some data, some z.length, z.length)) ∧
    (∀ (inflate : Bytes → Option (Nat × Bytes)) (cinfo flevel : Nat), cinfo ≤ 7 → flevel ≤ 3 → ∀ (z data rest : Bytes),
        inflate (z ++ (toBE 4 (adler32 data) ++ rest)) = some (z.length, data) →
        ∃ ok, parseZlib inflate (writeZlib cinfo flevel none z data ++ rest) = .ok (ok, rest) ∧ ok.data = data ∧ ok.clen = z.length ∧
          ok.adler = adler32 data) :=
  ⟨fun inflate z data rest h => gz_body_rt inflate z data rest h,
   fun inflate off used z data tail hz h => zipBody_hdr inflate off used z data tail hz h,
   fun inflate off z data tail h => zipBody_streamed inflate off z data tail h,
   fun inflate cinfo flevel hc hl z data rest h => ⟨_, zlib_roundtrip inflate cinfo flevel hc hl z data rest h, rfl, rfl, rfl⟩⟩

/-- the hypotheses are satisfiable by a payload 2000 times as long as its compressed range (nothing is evaluated on it) -/
example : zipBody (fun _ _ => some (5, List.replicate 10000 0x61)) 0 8 5 ([1, 2, 3, 4, 5] ++ [9]) =
    some (some (List.replicate 10000 0x61), some 5, 5) :=
  zipBody_hdr _ 0 5 [1, 2, 3, 4, 5] _ [9] (by decide) rfl

/-- RFC 1951 arithmetic behind the assumption `DeflateRatioExceeds 1000`: a length/distance pair copies up to 258 bytes and can
    be coded in 2 bits, i.e. 1032 output bytes per input byte in the limit (the assumption itself — that such a stream exists for
    the inflater in use — is not proved; the `swp` lines observe 2 097 152 bytes from 2 053) -/
theorem deflate_ratio_can_exceed_1000_arith : 258 * 8 / 2 = 1032 ∧ 1000 < 258 * 8 / 2 ∧ 1000 * 2053 < 2097152 := by decide

/-- a decoder that cuts the inflater's output at `1000 × length of the compressed range` (io.LimitReader "deflate bomb guard",
    the seeded change S6-C15-1) violates `container_reports_inflated_payload` as soon as DEFLATE exceeds that ratio: -/
theorem limited_inflater_violates (inflate : Bytes → Option (Nat × Bytes)) (u : Nat → Nat) (h : DeflateRatioExceeds 1000 inflate) :
    ¬ (∀ (off used : Nat) (z data tail : Bytes), z ≠ [] → inflate z = some (used, data) →
        zipBody (fun _ => limitInflate 1000 u inflate) off 8 z.length (z ++ tail) = some (some data, some z.length, z.length)) := by
  intro hall
  obtain ⟨z, data, hz, hinf, hbig⟩ := h
  obtain ⟨u', d', hl, hlen⟩ := limitInflate_short 1000 u inflate z z.length data hinf hbig
  have h1 := hall 0 z.length z data [] hz hinf
  have h2 := zipBody_hdr (fun _ => limitInflate 1000 u inflate) 0 u' z d' [] hz hl
  rw [h1] at h2
  have : data = d' := by injection h2 with h2; injection h2 with h2; injection h2
  rw [this] at hbig; omega

/-- the concrete pair of the assumption (compressed length 2 053, payload length 2 097 152 = 2 MiB of one byte value at
    level 6): the limited decoder shows 2 053 000 bytes — a clean, wrong `uncompressed` -/
theorem limited_inflater_truncates_2MiB (inflate : Bytes → Option (Nat × Bytes)) (u : Nat → Nat) (z data tail : Bytes)
    (hz : z.length = 2053) (hd : data.length = 2097152) (hinf : inflate z = some (z.length, data)) :
    ∃ d', zipBody (fun _ => limitInflate 1000 u inflate) 0 8 z.length (z ++ tail) = some (some d', some 2053, 2053) ∧
      d'.length = 2053000 ∧ d' ≠ data := by
  have hne : z ≠ [] := by intro h; rw [h] at hz; simp at hz
  obtain ⟨u', d', hl, hlen⟩ := limitInflate_short 1000 u inflate z z.length data hinf (by omega)
  refine ⟨d', ?_, by omega, fun h => by rw [h] at hlen; omega⟩
  have := zipBody_hdr (fun _ => limitInflate 1000 u inflate) 0 u' z d' tail hne hl
  rw [hz] at this ⊢; exact this

/-- gzip: the window is the rest of the file (stream + 8 byte trailer + following members); the limited decoder never reports
    a payload longer than 1000 × that window, so an intact member with a longer payload is not reported as written
    (in fq: the consumed length is then wrong as well and the trailer is read from the wrong place — a decode error) -/
theorem limited_inflater_gzip_violates (inflate : Bytes → Option (Nat × Bytes)) (u : Nat → Nat) (z data rest : Bytes)
    (hinf : inflate (z ++ (writeGzTrailer data ++ rest)) = some (z.length, data))
    (hbig : 1000 * (z ++ (writeGzTrailer data ++ rest)).length < data.length) :
    ∀ b r, parseGzBody (limitInflate 1000 u inflate) 8 (z ++ (writeGzTrailer data ++ rest)) = some (b, r) → b.data ≠ data := by
  intro b r hp
  obtain ⟨u', d', hl, hlen⟩ := limitInflate_short 1000 u inflate _ z.length data hinf hbig
  unfold parseGzBody at hp
  simp only [ne_eq, not_true_eq_false, if_false, hl, Option.bind_eq_bind, Option.bind_some] at hp
  have hb : b.data = d' := by
    simp only [Option.bind_eq_some_iff] at hp
    obtain ⟨p1, _, p2, _, ds, _, p3, _, hp⟩ := hp
    simp only [Option.pure_def, Option.some.injEq, Prod.mk.injEq] at hp
    rw [← hp.1]
  rw [hb]; intro h; rw [h] at hlen; omega

end Props.C15
