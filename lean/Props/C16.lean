import FqModel.Serial.Msgpack
import Proofs.C16Common
import Proofs.C16Msgpack
import Proofs.C16Cbor
import Proofs.C16Bencode
import Proofs.C16Bson
import Proofs.C16Json
import Proofs.C16Ber
import FqModel.Serial.SourcePins
import FqModel.Gen.SerialTables
import FqModel.Serial.Ties
/-!
  C16 — serialization decoders recover exactly the value that was encoded (property theorems).

  Models: FqModel/Serial/{Msgpack,Cbor,Bencode}.lean — `decode` = the Go decoder fused with the format's
  `_F_torepr` jq reducer, `encode` over wire trees `W` (a value with a wire form chosen at every node:
  integer widths, length-prefix sizes, float sizes, definite/indefinite lengths with arbitrary chunking,
  alternative decimal spellings).  `value : W → V` erases the wire forms, `norm` is what torepr makes of a
  source value (byte strings become strings, ill-formed bytes replaced by U+FFFD; identity otherwise).

  Full statement of the property, per format F, for ALL values v in the format's domain, ALL wire trees x of
  v and ALL trailing data:
     (a) F_roundtrip      decode (encode x ++ rest) = ok (norm v, rest)
     (b) F_prefix_fails   k < |encode x|  →  decode (take k (encode x)) = err      (truncation is an error)
     (c) F_trailing       the value is the one decoded without trailing data; the remainder is exactly it
     (d) F_all_values     every in-domain v has a valid wire tree (so (a)–(c) are not vacuous for any v)
  proved: msgpack and bencode (a)–(d) for all values whose text strings do not start with U+FEFF
          (`*_partial`: `d.FieldUTF8` strips a leading byte order mark — `utf8_bom_stripped_witness`,
          `msgpack_full_roundtrip_false`; known finding utf8-bom-stripped); (b) and (c) need no `_partial`;
          cbor: (a)–(c) are FALSE of the code as it is for wire trees with an indefinite-length byte/text
          string (`cbor_indef_string_break_witness`, `cbor_full_roundtrip_false`; known finding
          cbor-indef-string-break) — proved are `cbor_*_partial` (all wire trees without such strings, which
          by `cbor_all_values` still covers every in-domain value) and the full (a)–(c) for the one-line
          repair (`cborFixed_*`; same U+FEFF restriction).
  bson: `bson_roundtrip_partial` (names/strings without NUL — `bson_string_nul_cut_witness`, known finding
  bson-string-embedded-nul — and without leading U+FEFF), `bson_prefix_fails`, `bson_trailing`.
  json (fragment without floats): `json_decode_roundtrip`, `json_trailing_is_error`, `json_truncated_is_error`.
  asn1_ber: `ber_roundtrip_partial`, `ber_prefix_fails`, `ber_trailing` (definite and indefinite forms; zero
  definite lengths excluded: `ber_zero_length_witness`, known finding asn1-ber-zero-length).
  NOT modelled / not proved (monitored by the harness only): json floats and the other text formats
  (json, jsonl, yaml, toml, xml, csv).  cbor semantic tags are wire forms of the TREE-level theorems
  (`cbor_tree_roundtrip_partial`, `cbor_prefix_fails_partial`): their torepr is the decode tree, not a value
  (`noTag` in the torepr-level theorems).  msgpack ext8/16/32 and fixext (raw byte string) and cbor undefined/unassigned simple values (null) are wire
  forms of the theorems (`msgpack_ext_width_witness` pins the fixed ext16/ext32 length); cbor `f8 nn` does not
  consume its argument (`cbor_simple8_witness`, known finding cbor-simple-value-argument).
  Regenerated facts: `msgpack_rows_regenerated`, `msgpack_table_partition`, `msgpack_symbols_regenerated`,
  `cbor_constants_regenerated`, `bson_constants_regenerated` — conditional on the flags of
  FqModel/Serial/Ties.lean (see the last section); source-text pins are tripwires evaluated by the driver only.
-/
namespace Props.C16
open FqModel.Serial Proofs.C16

/-! ## msgpack -/
section msgpack
open FqModel.Serial.Msgpack

/-- KNOWN FINDING `utf8-bom-stripped`, pinned by evaluation: `d.FieldUTF8` drops a leading byte order mark, so
    the string "\uFEFFa" comes back as "a" (msgpack fixstr, cbor text, bencode string alike; a msgpack bin
    keeps it) -/
theorem utf8_bom_stripped_witness :
    Msgpack.decode [0xa4, 0xef, 0xbb, 0xbf, 0x61] = .ok (.str [0x61], []) ∧
    Cbor.decode [0x64, 0xef, 0xbb, 0xbf, 0x61] = .ok (.str [0x61], []) ∧
    Bencode.decode [0x34, 0x3a, 0xef, 0xbb, 0xbf, 0x61] = .ok (.str [0x61], []) ∧
    Msgpack.decode [0xc4, 0x04, 0xef, 0xbb, 0xbf, 0x61] = .ok (.str [0xef, 0xbb, 0xbf, 0x61], []) :=
  ⟨resEq_sound _ _ (by decide +kernel), resEq_sound _ _ (by decide +kernel), resEq_sound _ _ (by decide +kernel),
   resEq_sound _ _ (by decide +kernel)⟩

/-- the full round-trip statement (all Unicode strings) is therefore FALSE of the code as it is -/
theorem msgpack_full_roundtrip_false :
    ¬ (∀ s : Bytes, s.length ≤ 31 → decode (encode (.str .fix s)) = .ok (.str s, [])) := by
  intro h
  have h1 := h [0xef, 0xbb, 0xbf, 0x61] (by decide)
  have h2 : decode (encode (.str .fix [0xef, 0xbb, 0xbf, 0x61])) = .ok (.str [0x61], []) :=
    resEq_sound _ _ (by decide +kernel)
  rw [h2] at h1
  have h3 := congrArg (fun r => match r with | Res.ok (V.str s, _) => s.length | _ => 0) h1
  simp at h3

/-- the fix of `msgpack-ext-length-width` (commit 349ab12e) is what the model has: ext16 / ext32 read a 16 / 32-bit
    length (before, `extFn` read 8 bits whatever its argument: `c8 0003 05 "abc"` gave length 0, type 3 and left
    `05 61 62 63` over) -/
theorem msgpack_ext_width_witness :
    decode [0xc8, 0x00, 0x03, 0x05, 0x61, 0x62, 0x63] = .ok (.str [0x61, 0x62, 0x63], []) ∧
    decode [0xc9, 0x00, 0x00, 0x00, 0x03, 0x05, 0x61, 0x62, 0x63] = .ok (.str [0x61, 0x62, 0x63], []) ∧
    decode [0xc7, 0x03, 0x05, 0x61, 0x62, 0x63] = .ok (.str [0x61, 0x62, 0x63], []) :=
  ⟨resEq_sound _ _ (by decide +kernel), resEq_sound _ _ (by decide +kernel), resEq_sound _ _ (by decide +kernel)⟩

/-- round trip, for EVERY wire tree `x` (a value with a wire form chosen at every node) and every trailing
    data: `fq -d msgpack torepr` of the encoding returns the value (byte strings as strings) and leaves
    exactly the trailing bytes.
    MISSING for the full statement: `valid` requires text strings to be fixed points of `d.FieldUTF8`
    (`validUTF8`), i.e. well-formed UTF-8 that does NOT start with U+FEFF — strings with a leading byte order
    mark do not round-trip (`utf8_bom_stripped_witness`, `msgpack_full_roundtrip_false`; known finding
    utf8-bom-stripped). -/
theorem msgpack_roundtrip_partial (x : W) (h : valid x = true) (rest : Bytes) :
    decode (encode x ++ rest) = .ok (norm (value x), rest) := by
  unfold decode
  rw [(Proofs.C16.Msgpack.main ((encode x ++ rest).length + 1)).1 x h (by simp; omega) rest]
  exact withRepr_ok _ _ (Proofs.C16.Msgpack.reprOK_value x h)

/-- every strict prefix of an encoding is a decode error -/
theorem msgpack_prefix_fails (x : W) (h : valid x = true) (k : Nat) (hk : k < (encode x).length) :
    decode ((encode x).take k) = .err .eof := by
  unfold decode
  have hl : ((encode x).take k).length = k := by simp [List.length_take]; omega
  rw [hl, (Proofs.C16.Msgpack.main (k + 1)).2 x h k hk (by omega)]
  rfl

/-- trailing data never becomes part of the value: the result is the result without trailing data, and
    the remainder is exactly the trailing data (which fq then shows as a gap field, C04) -/
theorem msgpack_trailing (x : W) (h : valid x = true) (rest : Bytes) :
    ∃ v, decode (encode x) = .ok (v, []) ∧ decode (encode x ++ rest) = .ok (v, rest) := by
  refine ⟨norm (value x), ?_, msgpack_roundtrip_partial x h rest⟩
  simpa using msgpack_roundtrip_partial x h []

/-- every in-domain value has a valid wire tree (the canonical smallest-form one), so the theorems above
    speak about every value -/
theorem msgpack_all_values_partial (v : V) (h : inDomain v = true) : valid (canon v) = true ∧ value (canon v) = v :=
  Proofs.C16.Msgpack.canon_ok v h

/-- (a) for a value, in words of the property: decoding the (canonical) encoding of `v` gives `v` back -/
theorem msgpack_roundtrip_value_partial (v : V) (h : inDomain v = true) (rest : Bytes) :
    decode (encode (canon v) ++ rest) = .ok (norm v, rest) := by
  have ⟨h1, h2⟩ := msgpack_all_values_partial v h
  rw [msgpack_roundtrip_partial _ h1 rest, h2]

/-! non-vacuity: a valid wire tree that uses fix/8/16/32-bit forms, float32, bin, nested containers -/
example : valid (.map .l16 [(.str .l8 [0x6b], .arr .fix [.int .i32 (-5), .int .u64 (2^64 - 1), .f32 0x3fc00000, .bin .l8 [0xff],
    .str .fix [0xc3, 0xa9], .nil, .bool true]), (.bin .l16 [1], .map .fix [])]) = true := by decide +kernel
example : inDomain (.map [(.str [0x6b], .arr [.int (-(2^63)), .float 0x7ff8000000000001, .bytes [0x80]])]) = true := by
  decide +kernel
example : (encode (.arr .l16 [.int .u8 200, .str .l8 [0x61]])).length = 8 := by decide +kernel
example : valid (.arr .fix [.ext .l8 5 [0xff, 0x00], .ext .l16 0 [], .ext .l32 0x80 [1], .fixext 0xff [1, 2, 3, 4]]) = true := by
  decide +kernel

end msgpack

/-! ## cbor -/
section cbor
open FqModel.Serial.Cbor

/-- KNOWN FINDING `cbor-indef-string-break`, pinned by evaluation of the as-is model: an indefinite-length
    text string leaves its break marker unread — alone it becomes trailing data, inside a definite array it
    is decoded as the next element (null) and pushes the real element out, inside an indefinite array it
    ends the array. -/
theorem cbor_indef_string_break_witness :
    decode [0x7f, 0x61, 0x61, 0x61, 0x62, 0xff] = .ok (.str [0x61, 0x62], [0xff]) ∧
    decode [0x82, 0x5f, 0x41, 0x61, 0xff, 0x01] = .ok (.arr [.str [0x61], .null], [0x01]) ∧
    decode [0x9f, 0x7f, 0x61, 0x61, 0xff, 0x01, 0xff] = .ok (.arr [.str [0x61]], [0x01, 0xff]) :=
  ⟨resEq_sound _ _ (by decide +kernel), resEq_sound _ _ (by decide +kernel), resEq_sound _ _ (by decide +kernel)⟩

/-- the repair (consume the break) decodes the three witnesses correctly -/
theorem cborFixed_witness :
    decodeFixed [0x7f, 0x61, 0x61, 0x61, 0x62, 0xff] = .ok (.str [0x61, 0x62], []) ∧
    decodeFixed [0x82, 0x5f, 0x41, 0x61, 0xff, 0x01] = .ok (.arr [.str [0x61], .int 1], []) ∧
    decodeFixed [0x9f, 0x7f, 0x61, 0x61, 0xff, 0x01, 0xff] = .ok (.arr [.str [0x61], .int 1], []) :=
  ⟨resEq_sound _ _ (by decide +kernel), resEq_sound _ _ (by decide +kernel), resEq_sound _ _ (by decide +kernel)⟩

/-- so the full round-trip statement is FALSE of the code as it is (`cbor_roundtrip_partial` cannot be
    strengthened to all wire trees) -/
theorem cbor_full_roundtrip_false :
    ¬ (∀ x : W, valid x = true → decode (encode x) = .ok (norm (value x), [])) := by
  intro h
  have h1 := h (.strI [(.direct, [0x61])]) (by decide +kernel)
  have h2 : decode (encode (.strI [(.direct, [0x61])])) = .ok (.str [0x61], [0xff]) :=
    resEq_sound _ _ (by decide +kernel)
  rw [h2] at h1
  have h3 := congrArg (fun r => match r with | Res.ok (_, rest) => rest.length | Res.err _ => 0) h1
  simp at h3

/-- cbor.go "TODO: future": a simple value with a one-byte argument (`f8 nn`) does not consume the argument -/
theorem cbor_simple8_witness : decode [0xf8, 0x20] = .ok (.null, [0x20]) :=
  resEq_sound _ _ (by decide +kernel)

/-- the fix of DESIGN §1.8 #10 (commit fa784167) is what the model has: an indefinite-length array of 40
    elements decodes to 40 elements (the old loop stopped after 31) -/
theorem cbor_indef_array_40 :
    decode (0x9f :: (List.replicate 40 0x01 ++ [0xff])) = .ok (.arr (List.replicate 40 (.int 1)), []) :=
  resEq_sound _ _ (by decide +kernel)

/-- round trip for the code AS IT IS, for every wire tree without an indefinite-length byte/text string
    (indefinite-length arrays and maps included).  MISSING for the full statement: wire trees with chunked
    strings — false of the current code (`cbor_full_roundtrip_false`), known finding `cbor-indef-string-break`. -/
theorem cbor_roundtrip_partial (x : W) (h : valid x = true) (hn : noIndefStr x = true) (ht : noTag x = true)
    (rest : Bytes) : decode (encode x ++ rest) = .ok (norm (value x), rest) := by
  unfold decode
  rw [(Proofs.C16.Cbor.main false ((encode x ++ rest).length + 1)).1 x h (Or.inr hn) (by simp; omega) rest]
  exact withRepr_ok _ _ (Proofs.C16.Cbor.reprOK_value x h ht)

/-- the decode TREE round-trips for wire trees WITH semantic tags too (any tag number, any head form, nested):
    `torepr` of a tagged item is the decode tree as JSON and not a value, so tags are a statement about the Go
    decoder only (`V.tagged`), like `cbor_prefix_fails_partial`, which covers them as well -/
theorem cbor_tree_roundtrip_partial (x : W) (h : valid x = true) (hn : noIndefStr x = true) (rest : Bytes) :
    dropRet (decT false ((encode x ++ rest).length + 1) (encode x ++ rest)) = .ok (value x, rest) := by
  rw [(Proofs.C16.Cbor.main false ((encode x ++ rest).length + 1)).1 x h (Or.inr hn) (by simp; omega) rest]
  rfl

theorem cbor_prefix_fails_partial (x : W) (h : valid x = true) (hn : noIndefStr x = true) (k : Nat)
    (hk : k < (encode x).length) : decode ((encode x).take k) = .err .eof := by
  unfold decode
  have hl : ((encode x).take k).length = k := by simp [List.length_take]; omega
  rw [hl, (Proofs.C16.Cbor.main false (k + 1)).2 x h (Or.inr hn) k hk (by omega)]
  rfl

theorem cbor_trailing_partial (x : W) (h : valid x = true) (hn : noIndefStr x = true) (ht : noTag x = true)
    (rest : Bytes) : ∃ v, decode (encode x) = .ok (v, []) ∧ decode (encode x ++ rest) = .ok (v, rest) := by
  refine ⟨norm (value x), ?_, cbor_roundtrip_partial x h hn ht rest⟩
  simpa using cbor_roundtrip_partial x h hn ht []

/-- the FULL statement for the repaired decoder (break of an indefinite-length string consumed): every
    wire tree — all argument widths, definite and indefinite lengths, arbitrary chunking, float16/32/64
    (its domain, like every `valid`, leaves out text strings that start with U+FEFF: known finding
    utf8-bom-stripped is a second, independent defect) -/
theorem cborFixed_roundtrip_partial (x : W) (h : valid x = true) (ht : noTag x = true) (rest : Bytes) :
    decodeFixed (encode x ++ rest) = .ok (norm (value x), rest) := by
  unfold decodeFixed
  rw [(Proofs.C16.Cbor.main true ((encode x ++ rest).length + 1)).1 x h (Or.inl rfl) (by simp; omega) rest]
  exact withRepr_ok _ _ (Proofs.C16.Cbor.reprOK_value x h ht)

theorem cborFixed_prefix_fails (x : W) (h : valid x = true) (k : Nat) (hk : k < (encode x).length) :
    decodeFixed ((encode x).take k) = .err .eof := by
  unfold decodeFixed
  have hl : ((encode x).take k).length = k := by simp [List.length_take]; omega
  rw [hl, (Proofs.C16.Cbor.main true (k + 1)).2 x h (Or.inl rfl) k hk (by omega)]
  rfl

/-- every in-domain value has a valid wire tree without indefinite-length strings, so the `_partial`
    theorems cover every VALUE (what they leave out are alternative chunked encodings of strings) -/
theorem cbor_all_values_partial (v : V) (h : inDomain v = true) :
    valid (canon v) = true ∧ value (canon v) = v ∧ noIndefStr (canon v) = true ∧ noTag (canon v) = true :=
  Proofs.C16.Cbor.canon_ok v h

theorem cbor_roundtrip_value_partial (v : V) (h : inDomain v = true) (rest : Bytes) :
    decode (encode (canon v) ++ rest) = .ok (norm v, rest) := by
  have ⟨h1, h2, h3, h4⟩ := cbor_all_values_partial v h
  rw [cbor_roundtrip_partial _ h1 h3 h4 rest, h2]

/-! non-vacuity: indefinite array and map, all head widths, float16, chunked strings (for the repaired variant) -/
example : valid (.arrI [.int .h16 (-300), .mapI [(.str .h8 [0x6b], .f16 0x3c00)], .arr .h64 [.bytes .h32 [1, 2]],
    .int .direct 23, .null]) = true ∧
    noIndefStr (.arrI [.int .h16 (-300), .mapI [(.str .h8 [0x6b], .f16 0x3c00)], .arr .h64 [.bytes .h32 [1, 2]],
    .int .direct 23, .null]) = true := by decide +kernel
example : valid (.arr .direct [.undefined, .simple 19, .simple 0]) = true := by decide +kernel
example : valid (.tag .h16 55799 (.arrI [.tag .direct 2 (.bytes .direct [1, 0]), .tag .h64 1 (.int .h32 1363896240)])) = true ∧
    noIndefStr (.tag .h16 55799 (.arrI [.tag .direct 2 (.bytes .direct [1, 0]), .tag .h64 1 (.int .h32 1363896240)])) = true := by
  decide +kernel
example : valid (.arr .direct [.strI [(.h8, [0x61]), (.direct, []), (.direct, [0xc3, 0xa9])], .bytesI []]) = true := by
  decide +kernel
example : inDomain (.map [(.str [0x6b], .arr [.int (-(2^64)), .int (2^64 - 1), .float 1, .bytes [0x80]])]) = true := by
  decide +kernel

end cbor

/-! ## bencode -/
section bencode
open FqModel.Serial.Bencode

/-- MISSING for the full statement: strings that start with U+FEFF (see `msgpack_roundtrip_partial`) -/
theorem bencode_roundtrip_partial (x : W) (h : valid x = true) (rest : Bytes) :
    decode (encode x ++ rest) = .ok (norm (value x), rest) := by
  unfold decode
  rw [(Proofs.C16.Bencode.main ((encode x ++ rest).length + 1)).1 x h (by simp; omega) rest]
  exact withRepr_ok _ _ (Proofs.C16.Bencode.reprOK_value x h)

theorem bencode_prefix_fails (x : W) (h : valid x = true) (k : Nat) (hk : k < (encode x).length) :
    decode ((encode x).take k) = .err .eof := by
  unfold decode
  have hl : ((encode x).take k).length = k := by simp [List.length_take]; omega
  rw [hl, (Proofs.C16.Bencode.main (k + 1)).2 x h k hk (by omega)]
  rfl

theorem bencode_trailing (x : W) (h : valid x = true) (rest : Bytes) :
    ∃ v, decode (encode x) = .ok (v, []) ∧ decode (encode x ++ rest) = .ok (v, rest) := by
  refine ⟨norm (value x), ?_, bencode_roundtrip_partial x h rest⟩
  simpa using bencode_roundtrip_partial x h []

theorem bencode_all_values_partial (v : V) (h : inDomain v = true) : valid (canon v) = true ∧ value (canon v) = v :=
  Proofs.C16.Bencode.canon_ok v h

theorem bencode_roundtrip_value_partial (v : V) (h : inDomain v = true) (rest : Bytes) :
    decode (encode (canon v) ++ rest) = .ok (norm v, rest) := by
  have ⟨h1, h2⟩ := bencode_all_values_partial v h
  rw [bencode_roundtrip_partial _ h1 rest, h2]

/-! non-vacuity: `+`, `-0`, leading zeros, nested list/dictionary -/
example : valid (.dict [(.str 2 [0x6b], .list [.int .plus 3 42, .int .minus 0 0, .int .minus 0 (2^63), .str 0 []])]) = true := by
  decide +kernel
example : encode (.int .plus 2 5) = [0x69, 0x2b, 0x30, 0x30, 0x35, 0x65] := by decide +kernel
example : inDomain (.map [(.str [0x6b], .arr [.int (-(2^63)), .int (2^63 - 1), .str [0xc3, 0xa9]])]) = true := by
  decide +kernel

end bencode

/-! ## bson -/
section bson
open FqModel.Serial.Bson

/-- KNOWN FINDING `bson-string-embedded-nul`, pinned by evaluation: a bson string is length-prefixed and may contain
    U+0000, but fq reads it with `d.FieldUTF8NullFixedLen` and cuts it at the first NUL: {"k": "a\u0000b"} comes
    back as {"k": "a"}.  Also pinned: the document terminator is not checked (`UintValidate` only annotates) and
    a binary value comes back as the raw bytes (`tovalue`, not `tostring`). -/
theorem bson_string_nul_cut_witness :
    decode [0x10, 0, 0, 0, 0x02, 0x6b, 0, 4, 0, 0, 0, 0x61, 0x00, 0x62, 0, 0]
      = .ok (.map [(.str [0x6b], .str [0x61])], []) ∧
    decode [5, 0, 0, 0, 1] = .ok (.map [], []) ∧
    decode [0x0e, 0, 0, 0, 0x05, 0x76, 0, 1, 0, 0, 0, 0x80, 0xff, 0]
      = .ok (.map [(.str [0x76], .str [0xff])], []) :=
  ⟨resEq_sound _ _ (by decide +kernel), resEq_sound _ _ (by decide +kernel), resEq_sound _ _ (by decide +kernel)⟩

/-- round trip for every document tree (all element types fq decodes; int32/int64/datetime/timestamp,
    null/undefined/minkey/maxkey, string/javascript/regexp, binary/objectid/decimal128, any non-zero byte for
    true, free array element names, any terminator byte) and every trailing data.
    MISSING for the full statement: `valid` requires names and strings to contain no NUL
    (`bson_string_nul_cut_witness`; for names that is bson's own rule, for strings it is the known finding)
    and to be fixed points of `d.FieldUTF8` (no leading U+FEFF: known finding utf8-bom-stripped). -/
theorem bson_roundtrip_partial (kvs : List (Bytes × W)) (t : UInt8) (h : valid (.doc kvs t) = true) (rest : Bytes) :
    decode (encode kvs t ++ rest) = .ok (norm (value (.doc kvs t)), rest) := by
  have h' := h
  simp only [valid, Bool.and_eq_true, decide_eq_true_eq] at h'
  unfold decode encode
  have hl : (encPayload (.doc kvs t)).length = (encElems kvs).length + 5 := Proofs.C16.Bson.encPayload_doc_length kvs t
  rw [Proofs.C16.Bson.main ((encPayload (.doc kvs t) ++ rest).length + 1) kvs t h'.1.1 h'.2
    (by simp only [List.length_append, hl]; omega) rest]
  simp only [Proofs.C16.Bson.pairs_map]
  exact withRepr_ok _ _ (Proofs.C16.Bson.reprOK_value (.doc kvs t) h)

/-- every strict prefix of a document is a decode error (the size header frames the whole document) -/
theorem bson_prefix_fails (kvs : List (Bytes × W)) (t : UInt8) (h : valid (.doc kvs t) = true) (k : Nat)
    (hk : k < (encode kvs t).length) : decode ((encode kvs t).take k) = .err .eof := by
  simp only [valid, Bool.and_eq_true, decide_eq_true_eq] at h
  unfold decode
  unfold encode at hk ⊢
  have hl : ((encPayload (.doc kvs t)).take k).length = k := by simp [List.length_take]; omega
  rw [hl, Proofs.C16.Bson.prefix_fails k kvs t h.2 k hk]
  rfl

theorem bson_trailing (kvs : List (Bytes × W)) (t : UInt8) (h : valid (.doc kvs t) = true) (rest : Bytes) :
    ∃ v, decode (encode kvs t) = .ok (v, []) ∧ decode (encode kvs t ++ rest) = .ok (v, rest) := by
  refine ⟨norm (value (.doc kvs t)), ?_, bson_roundtrip_partial kvs t h rest⟩
  simpa using bson_roundtrip_partial kvs t h []

/-! non-vacuity: nested document and array, both integer widths, alternative null/true/terminator forms -/
example : valid (.doc [([0x61], .int32 (-5)), ([0x62], .arr [([0x78], .int64 (2^40)), ([0x78], .bool 0x80)] 0),
    ([0x63], .doc [([], .str [0xc3, 0xa9]), ([0x7a], .undefined), ([0x79], .bin 4 [0xff, 0x00])] 7),
    ([0x64], .double 0x7ff8000000000001), ([0x65], .regexp [0x61] [0x69]), ([0x66], .timestamp (2^64 - 1))] 0) = true := by
  decide +kernel
example : encode [([0x61], .bool 2)] 0 = [9, 0, 0, 0, 0x08, 0x61, 0, 2, 0] := by decide +kernel

end bson

/-! ## json (the modelled fragment: no floats) -/
section json
open FqModel.Serial.Json

/-- `fq -d json` gives back every value of the fragment (null, booleans, integers of any size, Unicode strings
    incl. control characters, arrays, objects with duplicate-free keys) from its compact encoding with an
    arbitrary white-space string `sp` at every place white space may stand (before/after the document, around
    every value, key, `:` and `,`, inside empty containers).  Strings must be free of ill-formed UTF-8
    (`textOk`: those bytes are replaced by U+FFFD); floats are outside the model. -/
theorem json_decode_roundtrip (sp : Bytes) (x : J) (hsp : wsOk sp = true) (h : valid x = true) :
    decode (encodeTop sp x) = .ok (value x, []) := by
  unfold decode encodeTop
  have hd : Proofs.C16.Json.NumFollow sp := by
    have := (Proofs.C16.Json.delim_sp sp [] hsp Proofs.C16.Json.delim_nil).numFollow
    simpa using this
  have := Proofs.C16.Json.main sp hsp ((sp ++ encode sp x ++ sp).length + 1) x h (by simp; omega) sp sp hsp hd
  rw [this]
  have hs : skipWs sp = [] := by simpa [skipWs] using Proofs.C16.Json.skipWs_ws sp [] hsp
  simp [hs]

/-- trailing data after the top-level value is a decode error (json.go:67-69): any non-white-space byte `c`
    after the document (if no white space separates it from the value, `c` must not continue a number) -/
theorem json_trailing_is_error (sp : Bytes) (x : J) (hsp : wsOk sp = true) (h : valid x = true) (c : UInt8) (t : Bytes)
    (hc : isWs c = false) (hnum : sp ≠ [] ∨ Proofs.C16.Json.NumFollow (c :: t)) :
    decode (encodeTop sp x ++ c :: t) = .err .fatal := by
  unfold decode encodeTop
  have hfollow : Proofs.C16.Json.NumFollow (sp ++ c :: t) := by
    rcases hnum with hne | hnf
    · cases sp with
      | nil => exact absurd rfl hne
      | cons w sp' =>
        exact (Proofs.C16.Json.delim_cons w _ (Or.inl (Proofs.C16.Json.wsOk_mem hsp w (by simp)))).numFollow
    · cases sp with
      | nil => simpa using hnf
      | cons w sp' =>
        exact (Proofs.C16.Json.delim_cons w _ (Or.inl (Proofs.C16.Json.wsOk_mem hsp w (by simp)))).numFollow
  have := Proofs.C16.Json.main sp hsp ((sp ++ encode sp x ++ sp ++ c :: t).length + 1) x h (by simp; omega) sp
    (sp ++ c :: t) hsp hfollow
  simp only [List.append_assoc] at this ⊢
  rw [this]
  simp [Proofs.C16.Json.skipWs_starter sp c t hsp hc]

/-- truncated input is a decode error: every strict prefix of the compact encoding (no optional white space) of
    a value that is not a bare number fails with "unexpected end of input".  (A strict prefix of the bare
    number `12` is the number `1`: numbers are not self-delimiting; inside arrays and objects they are covered.)
    Stated for the compact form `encode []`; documents with optional white space are checked by correspondence. -/
theorem json_truncated_is_error (x : J) (h : valid x = true) (hs : selfDelimiting x = true) (k : Nat)
    (hk : k < (encode [] x).length) : decode ((encode [] x).take k) = .err .eof := by
  unfold decode
  have hl : ((encode [] x).take k).length = k := by simp [List.length_take]; omega
  rw [hl]
  rcases Proofs.C16.Json.main_pf0 (k + 1) x h k hk (by omega) with h1 | ⟨h2, _⟩
  · simp only [Proofs.C16.Json.enc0] at h1
    rw [h1]
  · rw [hs] at h2; cases h2

/-! non-vacuity -/
example : valid (.obj [([0x61], .arr [.int (-12), .str [0x01, 0x22, 0xc3, 0xa9], .null, .bool true, .obj []]), ([], .arr [])]) = true := by
  decide +kernel
example : encodeTop [0x20] (.arr [.int 1, .str [0x0a]]) =
    [0x20, 0x5b, 0x20, 0x31, 0x20, 0x2c, 0x20, 0x22, 0x5c, 0x75, 0x30, 0x30, 0x30, 0x61, 0x22, 0x20, 0x5d, 0x20] := by decide +kernel

end json

/-! ## asn1_ber -/
section ber
open FqModel.Serial.Ber

/-- KNOWN FINDING `asn1-ber-zero-length`, pinned by evaluation of the as-is model: `decodeLength` returns 0 for a
    definite length of zero as well as for the indefinite form, and 0 is taken to mean "indefinite": the empty
    SEQUENCE `30 00` wants an end-of-contents marker (error), the empty OCTET STRING `04 00` is "primitive with
    indefinite length" (error), and in `30 05 30 00 02 01 05` = SEQUENCE { SEQUENCE {}, INTEGER 5 } the empty
    inner sequence swallows its sibling.  The repair (only 0x80 is indefinite) decodes all three. -/
theorem ber_zero_length_witness :
    decode [0x30, 0x00] = .err .eof ∧
    decode [0x04, 0x00] = .err .fatal ∧
    decode [0x30, 0x05, 0x30, 0x00, 0x02, 0x01, 0x05] = .err .eof ∧
    decodeFixed [0x30, 0x00] = .ok (.arr [], []) ∧
    decodeFixed [0x04, 0x00] = .ok (.str [], []) ∧
    decodeFixed [0x30, 0x05, 0x30, 0x00, 0x02, 0x01, 0x05] = .ok (.arr [.arr [], .int 5], []) :=
  ⟨resEq_sound _ _ (by decide +kernel), resEq_sound _ _ (by decide +kernel), resEq_sound _ _ (by decide +kernel),
   resEq_sound _ _ (by decide +kernel), resEq_sound _ _ (by decide +kernel), resEq_sound _ _ (by decide +kernel)⟩

/-- round trip for the code AS IT IS, for every wire tree (BOOLEAN with any non-zero octet for TRUE, INTEGER of any
    size with redundant sign octets, OCTET STRING, NULL, the nine string types read with FieldUTF8, SEQUENCE / SET /
    constructed application-, context- and private-class values; short and long — also non-minimal — definite
    lengths, the indefinite form with end-of-contents) and every trailing data.
    MISSING for the full statement: `valid` excludes definite lengths of ZERO other than NULL — empty strings and
    empty definite-length containers are mis-decoded (`ber_zero_length_witness`, known finding
    asn1-ber-zero-length; empty containers in the indefinite form are covered) — and strings that start with
    U+FEFF (utf8-bom-stripped).  BIT STRING, OID, REAL, constructed strings are outside the model. -/
theorem ber_roundtrip_partial (x : W) (h : valid x = true) (rest : Bytes) :
    decode (encode x ++ rest) = .ok (norm (value x), rest) := by
  unfold decode
  rw [(Proofs.C16.Ber.main false ((encode x ++ rest).length + 1)).1 x h (by simp; omega) rest]
  exact withRepr_ok _ _ (Proofs.C16.Ber.reprOK_value x)

/-- every strict prefix of an encoding (definite or indefinite form) is a decode error -/
theorem ber_prefix_fails (x : W) (h : valid x = true) (k : Nat) (hk : k < (encode x).length) :
    decode ((encode x).take k) = .err .eof := by
  unfold decode
  have hl : ((encode x).take k).length = k := by simp [List.length_take]; omega
  rw [hl, (Proofs.C16.Ber.main false (k + 1)).2 x h k hk (by omega)]
  rfl

theorem ber_trailing (x : W) (h : valid x = true) (rest : Bytes) :
    ∃ v, decode (encode x) = .ok (v, []) ∧ decode (encode x ++ rest) = .ok (v, rest) := by
  refine ⟨norm (value x), ?_, ber_roundtrip_partial x h rest⟩
  simpa using ber_roundtrip_partial x h []

/-- the same wire trees round-trip through the repaired decoder too (the repair does not disturb them) -/
theorem berFixed_roundtrip_partial (x : W) (h : valid x = true) (rest : Bytes) :
    decodeFixed (encode x ++ rest) = .ok (norm (value x), rest) := by
  unfold decodeFixed
  rw [(Proofs.C16.Ber.main true ((encode x ++ rest).length + 1)).1 x h (by simp; omega) rest]
  exact withRepr_ok _ _ (Proofs.C16.Ber.reprOK_value x)

/-! non-vacuity: indefinite and definite (short, long, non-minimal long) forms, big INTEGER with a redundant
    sign octet, SET, context tag, empty indefinite container -/
example : valid (.seqI false [.int (.long 2) (-(2^70)) 10, .seq true (.long 1) [.bool .short 0x80, .null (.long 1)],
    .tagged 2 3 .short [.str 0x0c .short [0xc3, 0xa9], .octets (.long 8) [0, 0xff]], .seqI true [], .taggedI 1 30 [.null .short]]) = true := by
  decide +kernel
example : encode (.seq false .short [.int .short (-129) 2]) = [0x30, 0x04, 0x02, 0x02, 0xff, 0x7f] := by decide +kernel

end ber

/-! ## regenerated facts (FqModel/Gen/SerialTables.lean is rewritten from /repo on every run)

  Each theorem is CONDITIONAL on the corresponding flag of FqModel/Serial/Ties.lean, which is evaluated on the
  regenerated file: when the current source still yields the facts the model was built from, the theorem states
  them; when it does not (a refactoring, a reworded message, a renamed constant — or a real change), nothing
  here fails: the driver reports the format's tie as correspondence-only and the harness runs its deep
  generators for that format instead.  A pin on source text is a tripwire, not a fact about behaviour. -/
section regenerated
open FqModel.Serial.Pins FqModel.Serial.Ties
open FqModel.Gen.SerialTables (msgpackRows)

/-- the MODEL's type table: every byte 0..255 lies in exactly one row, whose kind is the model's dispatch
    (unconditional) -/
theorem msgpack_model_table_partition :
    ∀ b, b < 256 →
      (Msgpack.rows.filter (fun r => decide (b ≥ r.1) && decide (b ≤ r.2.1))).length = 1 ∧
      (Msgpack.rows.find? (fun r => decide (b ≥ r.1) && decide (b ≤ r.2.1))).map (fun r => r.2.2) = Msgpack.kindOf b := by
  decide +kernel

/-- the regenerated rows of msgpack.go's `formatEntries` literal are, row by row, the rows of the model: same byte
    ranges, and the normalised decode function of every row has the meaning (`rowSem`) the model's row has -/
theorem msgpack_rows_regenerated (h : msgpackRowsFacts = true) :
    msgpackRows.map (fun r => (r.1, r.2.1, rowSem r.2.2.2)) = Msgpack.rows.map (fun r => (r.1, r.2.1, some r.2.2)) :=
  of_decide_eq_true h

/-- every byte 0..255 lies in exactly one row of the regenerated table, and that row's meaning is the model's
    dispatch for the byte -/
theorem msgpack_table_partition (h : msgpackRowsFacts = true) :
    ∀ b, b < 256 →
      ((msgpackRows.map (fun r => (r.1, r.2.1, rowSem r.2.2.2))).filter
          (fun r => decide (b ≥ r.1) && decide (b ≤ r.2.1))).length = 1 ∧
      ((msgpackRows.map (fun r => (r.1, r.2.1, rowSem r.2.2.2))).find?
          (fun r => decide (b ≥ r.1) && decide (b ≤ r.2.1))).map (fun r => r.2.2) = (Msgpack.kindOf b).map some := by
  rw [msgpack_rows_regenerated h]
  decide +kernel

/-- the type symbols select the branch of `_msgpack_torepr` that the model's fused reducer takes -/
theorem msgpack_symbols_regenerated (h : msgpackSymbolsFacts = true) :
    ∀ r ∈ msgpackRows, (rowSem r.2.2.2).map kindBranch = some (jqBranch r.2.2.1) := by
  intro r hr
  have := List.all_eq_true.mp h r hr
  exact of_decide_eq_true this

/-- cbor.go's major types and short counts, looked up by ROLE (the symbol of the table row / of shortCountMap),
    have the values the model uses -/
theorem cbor_constants_regenerated (h : cborConstFacts = true) :
    FqModel.Gen.SerialTables.cborMajorBySym = Pins.cborMajorBySym ∧
    FqModel.Gen.SerialTables.cborShortCountBySym = Pins.cborShortCountBySym := by
  simp only [cborConstFacts, Bool.and_eq_true, decide_eq_true_eq] at h
  exact h

theorem bson_constants_regenerated (h : bsonConstFacts = true) :
    FqModel.Gen.SerialTables.bsonConsts = Pins.bsonConsts :=
  of_decide_eq_true h

end regenerated
end Props.C16
