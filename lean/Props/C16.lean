import FqModel.Serial.Msgpack
import Proofs.C16Common
import Proofs.C16Msgpack
import FqModel.Serial.SourcePins
import FqModel.Gen.SerialTables
/-!
  C16 — serialization decoders recover exactly the value that was encoded (property theorems).
-/
namespace Props.C16
open FqModel.Serial Proofs.C16

/-! ## msgpack -/
section msgpack
open FqModel.Serial.Msgpack

/-- round trip, for EVERY wire tree `x` (a value with a wire form chosen at every node) and every trailing
    data: `fq -d msgpack torepr` of the encoding returns the value (byte strings as strings) and leaves
    exactly the trailing bytes. -/
theorem msgpack_roundtrip (x : W) (h : valid x = true) (rest : Bytes) :
    decode (encode x ++ rest) = .ok (norm (value x), rest) := by
  unfold decode
  rw [(Proofs.C16.Msgpack.main ((encode x ++ rest).length + 1)).1 x h (by simp; omega) rest]
  exact withRepr_ok _ _ (Proofs.C16.Msgpack.reprOK_value x h)

/-- every strict prefix of an encoding is a decode error -/
theorem msgpack_prefix_fails (x : W) (h : valid x = true) (k : Nat) (hk : k < (encode x).length) :
    decode ((encode x).take k) = .err .eof := by
  unfold decode
  have hl : ((encode x).take k).length = k := by simp [List.length_take]; omega
  rw [hl, (Proofs.C16.Msgpack.main (k + 1)).2 x h k hk (by omega)]
  rfl

/-- trailing data never becomes part of the value: the result is the result without trailing data, and
    the remainder is exactly the trailing data (which fq then shows as a gap field, C04) -/
theorem msgpack_trailing (x : W) (h : valid x = true) (rest : Bytes) :
    ∃ v, decode (encode x) = .ok (v, []) ∧ decode (encode x ++ rest) = .ok (v, rest) := by
  refine ⟨norm (value x), ?_, msgpack_roundtrip x h rest⟩
  simpa using msgpack_roundtrip x h []

end msgpack

/-! ## regenerated facts (FqModel/Gen/SerialTables.lean is rewritten from /repo on every run) -/
section regenerated
open FqModel.Serial.Pins
open FqModel.Gen.SerialTables (msgpackRows)

/-- the regenerated rows of msgpack.go's `formatEntries` literal are, row by row, the rows of the model:
    same byte ranges, and the source text of every row's decode function has the meaning (`rowSem`) the
    model's row has -/
theorem msgpack_rows_regenerated :
    msgpackRows.map (fun r => (r.1, r.2.1, rowSem r.2.2.2)) = Msgpack.rows.map (fun r => (r.1, r.2.1, some r.2.2)) := by
  decide +kernel

/-- every byte 0..255 lies in exactly one row of the regenerated table, and that row's meaning is the
    model's dispatch for the byte -/
theorem msgpack_table_partition :
    ∀ b, b < 256 →
      ((msgpackRows.map (fun r => (r.1, r.2.1, rowSem r.2.2.2))).filter
          (fun r => decide (b ≥ r.1) && decide (b ≤ r.2.1))).length = 1 ∧
      ((msgpackRows.map (fun r => (r.1, r.2.1, rowSem r.2.2.2))).find?
          (fun r => decide (b ≥ r.1) && decide (b ≤ r.2.1))).map (fun r => r.2.2) = (Msgpack.kindOf b).map some := by
  rw [msgpack_rows_regenerated]
  decide +kernel

/-- the type symbols select the branch of `_msgpack_torepr` that the model's fused reducer takes -/
theorem msgpack_symbols_regenerated :
    ∀ r ∈ msgpackRows, (rowSem r.2.2.2).map kindBranch = some (jqBranch r.2.2.1) := by
  decide +kernel

/-- the rest of the msgpack decoder's text (helper closures, lookup, dispatch, jq reducer) is the text the
    model was transliterated from -/
theorem msgpack_source_regenerated :
    FqModel.Gen.SerialTables.msgpackHelpers = Pins.msgpackHelpers ∧
    FqModel.Gen.SerialTables.msgpackDispatch = Pins.msgpackDispatch ∧
    FqModel.Gen.SerialTables.msgpackLookup = Pins.msgpackLookup ∧
    FqModel.Gen.SerialTables.msgpackJq = Pins.msgpackJq := by
  decide +kernel

/-- cbor.go's constants are the model's -/
theorem cbor_constants_regenerated : FqModel.Gen.SerialTables.cborConsts = Pins.cborConsts := by
  decide +kernel

/-- cbor.go's major type table, the short-count/dispatch statements and the jq reducer are the text the
    model was transliterated from (this is what notices a change of the array/map loops, e.g. a revert of
    the indefinite-length fix fa784167) -/
theorem cbor_source_regenerated :
    FqModel.Gen.SerialTables.cborMajorTypes = Pins.cborMajorTypes ∧
    FqModel.Gen.SerialTables.cborDispatch = Pins.cborDispatch ∧
    FqModel.Gen.SerialTables.cborJq = Pins.cborJq := by
  decide +kernel

theorem bencode_source_regenerated :
    FqModel.Gen.SerialTables.bencodeStrIntUntil = Pins.bencodeStrIntUntil ∧
    FqModel.Gen.SerialTables.bencodeValue = Pins.bencodeValue ∧
    FqModel.Gen.SerialTables.bencodeJq = Pins.bencodeJq := by
  decide +kernel

end regenerated
end Props.C16
