import FqModel.Serial.Msgpack
import Proofs.C16Common
import Proofs.C16Msgpack
/-!
  C16 — serialization decoders recover exactly the value that was encoded (property theorems).
-/
namespace Props.C16
open FqModel.Serial Proofs.C16

/-! ## msgpack -/
section msgpack
open FqModel.Serial.Msgpack

/-- round trip, for EVERY wire tree `x` (a value with a wire form chosen at every node) and every trailing
    data: `fq -d msgpack torepr` of the encoding returns the value (byte strings as strings) and leaves
    exactly the trailing bytes. -/
theorem msgpack_roundtrip (x : W) (h : valid x = true) (rest : Bytes) :
    decode (encode x ++ rest) = .ok (norm (value x), rest) := by
  unfold decode
  rw [(Proofs.C16.Msgpack.main ((encode x ++ rest).length + 1)).1 x h (by simp; omega) rest]
  exact withRepr_ok _ _ (Proofs.C16.Msgpack.reprOK_value x h)

/-- every strict prefix of an encoding is a decode error -/
theorem msgpack_prefix_fails (x : W) (h : valid x = true) (k : Nat) (hk : k < (encode x).length) :
    decode ((encode x).take k) = .err .eof := by
  unfold decode
  have hl : ((encode x).take k).length = k := by simp [List.length_take]; omega
  rw [hl, (Proofs.C16.Msgpack.main (k + 1)).2 x h k hk (by omega)]
  rfl

/-- trailing data never becomes part of the value: the result is the result without trailing data, and
    the remainder is exactly the trailing data (which fq then shows as a gap field, C04) -/
theorem msgpack_trailing (x : W) (h : valid x = true) (rest : Bytes) :
    ∃ v, decode (encode x) = .ok (v, []) ∧ decode (encode x ++ rest) = .ok (v, rest) := by
  refine ⟨norm (value x), ?_, msgpack_roundtrip x h rest⟩
  simpa using msgpack_roundtrip x h []

end msgpack
end Props.C16
