import FqModel.Cli
import Proofs.C17Parse
import Proofs.C17Loop
import Proofs.C17Opts
import Proofs.C17Raw
/-!
  C17 — command line contract: property theorems about the model FqModel/Cli.lean
  (`argsParse` = args.jq `_args_parse`, `exitCode` = the `_fatal_error`/`_finally` mapping,
  `loop` = the input loop of init.jq).  Helper lemmas: Proofs/C17Parse.lean, Proofs/C17Loop.lean.

  Statement of the property and what is proved (for ALL option tables / argument vectors / file
  lists / environments unless a hypothesis says otherwise):

   parser      `parse_fixpoint`       parseArgs is exactly the recursion of `_parse` (no fuel artefact)
               `combined_short`       -abc… ≡ -a -b -c …            for boolean short flags
               `combined_short_valued` -abX=v ≡ -a -b -X v           a group may end in a value option with =VALUE
               `eq_form`              --k=v ≡ --k v  (also -k=v)     for string/array/object options
               `dashdash_stops`       everything after `--` is positional, nothing before it changes
               `unknown_flag_err`, `unknown_short_err`, `missing_value_err`, `missing_pair_err`, `bool_takes_no_value`
               `negative_number_is_positional`   `-1`, `-12x` … are never flags (the regex test)
               `bool_flags_commute`   adjacent boolean flags can be swapped
   exit status `exit_precedence`      exitCode s = code of the first class of [args, compile, io, decode, expr] in s
               `exit_is_min`          for the loop classes and codes io ≤ decode ≤ expr: the numeric minimum (2 over 4 over 5)
               `exit_zero_iff`, `exit_set_semantics`
   input loop  `inputs_independent`    run (f₁…fₙ) = run f₁ ⧺ … ⧺ run fₙ: stdout values, stderr reports; the remembered
                                       classes are the union (`classes_union`)           — full, no hypothesis
               `exit_combines`         exit (run fs) = precedence-max of the exits of the single runs
               `run_exit_is_exitCode`
               `input_processed_or_reported`, `silent_run_processed_all`   no input is ever silently dropped
               `exit_ignores_error_value`   the status depends only on WHICH classes failed, never on the value a
                                       program raised (null, false, 0, "", {} …): the memory holds a rendered string;
                                       `exit_raw_memory_false`: storing the raw value (seeded change S2-C17-1) breaks it
               `inputs_independent_old_false`   documentation: the loop as it was before /repo commit 465c459f
                                       (finding `redecode-after-open-failure`, fixed) violated the statement
   modes       `slurp_is_array_of_singles`    the array `[inputs]` of slurp mode is exactly the sequence of values
                                       the default mode feeds one by one
               `raw_input_lines`, `raw_input_lossless`, `raw_input_agrees_with_jq` (full);
               `raw_input_old_empty_witness`   documentation: before commit c7862ea9 an empty input was one empty line
   raw input   over ANY alphabet (the correspondence run uses bytes), for every input text:
   (bytes)     `raw_lines_join`        the values of -R joined with \n (+ the text's final \n) are the string of -Rs
               `raw_lines_no_separator`, `raw_lines_drop_only_separators`, `raw_lines_bytes_accounted`, `raw_lines_keep_other`
                                       no byte other than a separating \n is dropped or added, order kept; \r is content
               `raw_lines_count`, `raw_lines_across_files`
               `raw_judge_iff`         the judgement the driver evaluates on observations holds for jq's lines and no others
               `rawLines_eq_generic`   the code point model above is the `Char` instance
               `raw_crlf_variant_false`   the variant that strips \r from every line (seeded change S5-C17-2) is refuted
   open        `open_directory_is_error`, `open_nonregular_ignores_seek`, `open_error_iff`, `open_ghost_iff`
                                       binary.go `_open` on what os.Open / Stat / Seek / ReadAll report about a path
               `open_seeded_directory_ghost`   a directory on ext4 (SEEK_END = 2^63-1): error in the code, ghost in S5-C17-1
               `open_never_ghost`, `open_zero_size_regular_is_read`   since /repo 013f25c7 a zero-size regular file is read
               `loopO_no_ghost`, `ghost_input_is_absent`, `input_processed_or_reported_partial`,
               `open_ghost_iff_old`, `ghost_input_silently_dropped_old`   documentation: finding procfs-input-silently-dropped
                                       (fixed): before 013f25c7 `fq . /proc/version` printed nothing, reported nothing, status 0
   options     `repeated_value_flag_later_wins`, `value_flags_commute`, `value_flag_bool_flag_commute`   -d a … -d b: later wins
               `array_flag_accumulates`, `pairs_flag_accumulates`   -L and the named-argument flags keep every occurrence, in order
               `option_flag_later_wins`, `option_flags_commute`     -o k=v1 … -o k=v2: later wins; different keys commute
               `merge_lookup`, `option_beats_flag`, `flag_beats_default`   derived value > -o > dedicated flag > default, by the
                                       operands of `+` in init.jq:189-193, not by position on the command line
               `conv_true`, `flag_eq_option_partial`   -o name=true is the dedicated flag, for every boolean entry of the table
                                       (partial: at the level of parse results, see the theorem)
               `mistyped_option_dropped`   -o slurp=yes is ignored without a message (modelled as is)
   positionals `from_file_positionals_are_files`, `first_positional_is_program`, `repl_without_files_is_null_input`
   short-circuit `arg_error_before_help`, `opt_eval_error_before_help`, `help_short_circuit`, `version_short_circuit`
   named args  `named_arg_later_wins`, `named_arg_kind_precedence`, `decode_file_failure_is_args_error`
-/
namespace Props.C17
open FqModel.Cli Proofs.C17Parse Proofs.C17Loop Proofs.C17Opts Proofs.C17Raw

/-! ## a small table for the non-vacuity examples (entries copied from options.jq) -/

/-- long flags are written without their two dashes in this file (`dd "help"` = the string dash dash help):
    the audit's comment stripper of lib/runner.py would take two dashes inside a string literal for a comment -/
def dd (s : String) : Str := '-' :: '-' :: s.toList

def mkOpt (name : String) (short long : Option String) (kind : String) : Opt :=
  { name := name.toList, short := short.map String.toList, long := long.map dd, aliases := [],
    bool := kind == "b", string := kind == "s" || kind == "s?", array := kind == "a", object := kind == "o",
    pairs := kind == "p", optional := kind == "s?" }

def sampleTable : Table :=
  [ mkOpt "arg" none (some "arg") "p",
    mkOpt "compact" (some "-c") (some "compact-output") "b",
    mkOpt "decode_group" (some "-d") (some "decode") "s",
    mkOpt "include_path" (some "-L") (some "include-path") "a",
    mkOpt "null_input" (some "-n") (some "null-input") "b",
    mkOpt "option" (some "-o") (some "option") "o",
    mkOpt "raw_string" (some "-r") (some "raw-output") "b",
    mkOpt "show_help" (some "-h") (some "help") "s?" ]

def S (s : String) : Str := s.toList
def A (l : List String) : List Str := l.map String.toList

/-! ## parser -/

/-- `parseArgs` unfolds exactly like `_parse` (args.jq:5-82): the fuel of the definition is invisible -/
theorem parse_fixpoint (t : Table) (args : List Str) (r : R) :
    parseArgs t args r = step t (parseArgs t) args r := parseArgs_eq t args r

/-- a boolean option in the sense of the parser's direct path: `bool` and no value kind -/
abbrev PureBool (o : Opt) : Prop :=
  o.bool = true ∧ o.string = false ∧ o.array = false ∧ o.object = false ∧ o.pairs = false

/-- `-c` is a boolean short flag of the table (c is neither `-`, a digit nor `=`) -/
def BoolShort (t : Table) (c : Char) : Prop :=
  c ≠ '-' ∧ c.isDigit = false ∧ c ≠ '=' ∧ ∃ n o, lookup t ['-', c] = some (n, o) ∧ PureBool o

/-- every single-dash key of the flag map is one letter long (true of fq's table; the driver's
    correspondence run exercises combined flags against the real table) -/
def ShortsAreShort (t : Table) : Prop :=
  ∀ c d (rest : Str), c ≠ '-' → lookup t ('-' :: c :: d :: rest) = none

/-- the flag `-c` alone sets its option and parsing continues -/
theorem parse_bool_short (t : Table) (c : Char) (n : Str) (o : Opt) (hc : c ≠ '-') (hd : c.isDigit = false) (he : c ≠ '=')
    (hl : lookup t ['-', c] = some (n, o)) (hp : PureBool o) (rest : List Str) (r : R) :
    parseArgs t (['-', c] :: rest) r = parseArgs t rest { r with parsed := setKey n (fun _ => PV.flag) r.parsed } := by
  obtain ⟨_, h2, h3, h4, h5⟩ := hp
  rw [parse_fixpoint]
  have hidx : idxEq ['-', c] = none := by simp [idxEq, he]
  have hne : (['-', c] : Str) ≠ ['-', '-'] := by simp [hc]
  simp [step, argOf, hidx, looksLikeFlag, hc, hd, hl, h2, h3, h4, h5, withoutArg]

/-- first character of a combined group: `-cXYZ` ≡ `-c -XYZ` -/
theorem combined_short_head (t : Table) (hs : ShortsAreShort t) (c d : Char) (cs : List Char) (hd : d ≠ '=')
    (hc : BoolShort t c) (rest : List Str) (r : R) :
    parseArgs t (('-' :: c :: d :: cs) :: rest) r = parseArgs t (['-', c] :: ('-' :: d :: cs) :: rest) r := by
  obtain ⟨hc1, hc2, hc3, n, o, hl, hp⟩ := hc
  rw [parse_bool_short t c n o hc1 hc2 hc3 hl hp]
  rw [parse_fixpoint]
  obtain ⟨hb, _⟩ := hp
  -- `$arg` = the text before the first `=`: it starts with `-`, c, d
  have harg : ∃ tail, argOf ('-' :: c :: d :: cs) = '-' :: c :: d :: tail := by
    unfold argOf
    cases hi : idxEq ('-' :: c :: d :: cs) with
    | none => exact ⟨cs, rfl⟩
    | some i =>
      simp only [idxEq, hc3, hd] at hi
      simp at hi
      obtain ⟨j, _, hj⟩ := hi
      subst hj
      exact ⟨cs.take j, by simp [List.take]⟩
  obtain ⟨tail, harg⟩ := harg
  have hnone := hs c d tail hc1
  simp [step, harg, looksLikeFlag, shortLike, hc1, hc2, hnone, hl, hb, withoutArg]

/-- combined_short: a group of boolean short flags is the same as the flags one by one -/
theorem combined_short (t : Table) (hs : ShortsAreShort t) :
    ∀ (cs : List Char), cs ≠ [] → (∀ c ∈ cs, BoolShort t c) → ∀ (rest : List Str) (r : R),
      parseArgs t (('-' :: cs) :: rest) r = parseArgs t (cs.map (fun c => ['-', c]) ++ rest) r := by
  intro cs
  induction cs with
  | nil => intro h; exact absurd rfl h
  | cons c cs ih =>
    intro _ hall rest r
    cases cs with
    | nil => rfl
    | cons d cs' =>
      have hc := hall c (by simp)
      have hd := hall d (by simp)
      rw [combined_short_head t hs c d cs' hd.2.2.1 hc]
      obtain ⟨hc1, hc2, hc3, n, o, hl, hp⟩ := hc
      simp only [List.map_cons, List.cons_append]
      rw [parse_bool_short t c n o hc1 hc2 hc3 hl hp, parse_bool_short t c n o hc1 hc2 hc3 hl hp]
      have := ih (by simp) (fun x hx => hall x (by simp [hx])) rest { r with parsed := setKey n (fun _ => PV.flag) r.parsed }
      simpa using this

/-- eq_form: `--k=v` (or `-k=v`) is `--k v` for every option that takes a value -/
theorem eq_form (t : Table) (k v : Str) (n : Str) (o : Opt) (hk : '=' ∉ k) (hflag : looksLikeFlag k = true)
    (hl : lookup t k = some (n, o)) (hv : (o.string || o.array || o.object) = true) (rest : List Str) (r : R) :
    parseArgs t ((k ++ '=' :: v) :: rest) r = parseArgs t (k :: v :: rest) r := by
  rw [parse_fixpoint, parse_fixpoint t (k :: v :: rest)]
  have h1 : idxEq (k ++ '=' :: v) = some k.length := idxEq_append_eq k v hk
  have h2 : idxEq k = none := idxEq_none_of_not_mem k hk
  have hdd : k ≠ ['-', '-'] := by
    intro e; subst e; simp [looksLikeFlag] at hflag
  simp [step, argOf, h1, h2, hdd, hflag, hl, hv]

/-- a combined group may end in a value option that carries its value with `=`:
    `-abX=v` ≡ `-a -b -X v` (the attached value is not lost) -/
theorem combined_short_valued (t : Table) (hs : ShortsAreShort t) (x : Char) (v : Str) (n : Str) (o : Opt)
    (hx : x ≠ '=') (hxf : looksLikeFlag ['-', x] = true) (hl : lookup t ['-', x] = some (n, o))
    (hv : (o.string || o.array || o.object) = true) :
    ∀ (cs : List Char), (∀ c ∈ cs, BoolShort t c) → ∀ (rest : List Str) (r : R),
      parseArgs t (('-' :: (cs ++ x :: '=' :: v)) :: rest) r =
        parseArgs t (cs.map (fun c => ['-', c]) ++ ['-', x] :: v :: rest) r := by
  intro cs
  induction cs with
  | nil =>
    intro _ rest r
    have hk : '=' ∉ (['-', x] : Str) := by simp [hx.symm]
    have := eq_form t ['-', x] v n o hk hxf hl hv rest r
    simpa using this
  | cons c cs ih =>
    intro hall rest r
    have hc := hall c (by simp)
    have hnext : ∃ d tl, cs ++ x :: '=' :: v = d :: tl ∧ d ≠ '=' := by
      cases cs with
      | nil => exact ⟨x, '=' :: v, rfl, hx⟩
      | cons d cs' => exact ⟨d, cs' ++ x :: '=' :: v, rfl, (hall d (by simp)).2.2.1⟩
    obtain ⟨d, tl, htl, hd⟩ := hnext
    show parseArgs t (('-' :: c :: (cs ++ x :: '=' :: v)) :: rest) r = _
    rw [htl, combined_short_head t hs c d tl hd hc, ← htl]
    obtain ⟨hc1, hc2, hc3, nn, oo, hl', hp⟩ := hc
    simp only [List.map_cons, List.cons_append]
    rw [parse_bool_short t c nn oo hc1 hc2 hc3 hl' hp, parse_bool_short t c nn oo hc1 hc2 hc3 hl' hp]
    exact ih (fun y hy => hall y (by simp [hy])) rest _

/-- dashdash_stops: after `--` every argument is a positional, in order; options parsed so far are kept -/
theorem dashdash_stops (t : Table) (post : List Str) (r : R) :
    parseArgs t (['-', '-'] :: post) r = .ok { r with rest := r.rest ++ post } := by
  rw [parse_fixpoint]
  simp [step, argOf, idxEq]

/-- a positional (not flag-like, not `--`) is appended to `rest` -/
theorem parse_positional (t : Table) (a : Str) (h1 : argOf a ≠ ['-', '-']) (h2 : looksLikeFlag (argOf a) = false)
    (rest : List Str) (r : R) :
    parseArgs t (a :: rest) r = parseArgs t rest { r with rest := r.rest ++ [a] } := by
  rw [parse_fixpoint]
  simp [step, h1, h2]

/-- whole command line: positionals, then `--`, then anything -/
theorem dashdash_stops_argv (t : Table) (pre post : List Str)
    (hpre : ∀ a ∈ pre, argOf a ≠ ['-', '-'] ∧ looksLikeFlag (argOf a) = false) :
    argsParse t (pre ++ ['-', '-'] :: post) = .ok { parsed := [], rest := pre ++ post } := by
  have gen : ∀ (pre : List Str) (r : R), (∀ a ∈ pre, argOf a ≠ ['-', '-'] ∧ looksLikeFlag (argOf a) = false) →
      parseArgs t (pre ++ ['-', '-'] :: post) r = .ok { r with rest := r.rest ++ pre ++ post } := by
    intro pre
    induction pre with
    | nil => intro r _; simpa using dashdash_stops t post r
    | cons a pre ih =>
      intro r h
      have ha := h a (by simp)
      simp only [List.cons_append]
      rw [parse_positional t a ha.1 ha.2, ih _ (fun x hx => h x (by simp [hx]))]
      simp
  simpa [argsParse] using gen pre { parsed := [], rest := [] } hpre

/-- `-1`, `-12x`, `--5` …: a dash followed by a digit is never an option (args.jq:37-38) -/
theorem negative_number_is_positional (t : Table) (d : Char) (s : Str) (hd : d.isDigit = true) (hs : '=' ∉ s)
    (rest : List Str) (r : R) :
    parseArgs t (('-' :: d :: s) :: rest) r = parseArgs t rest { r with rest := r.rest ++ ['-' :: d :: s] } := by
  have hde : d ≠ '=' := by intro e; subst e; simp [Char.isDigit] at hd
  have hdd : d ≠ '-' := by intro e; subst e; simp [Char.isDigit] at hd
  have hno : '=' ∉ ('-' :: d :: s) := by simp [hde.symm, hs]
  apply parse_positional
  · rw [argOf_of_no_eq _ hno]; simp [hdd]
  · rw [argOf_of_no_eq _ hno]; simp [looksLikeFlag, hd, hdd]

/-- unknown_flag_err (long or malformed flags) -/
theorem unknown_flag_err (t : Table) (a : Str) (h1 : argOf a ≠ ['-', '-']) (h2 : looksLikeFlag (argOf a) = true)
    (h3 : lookup t (argOf a) = none) (h4 : shortLike (argOf a) = false) (rest : List Str) (r : R) :
    parseArgs t (a :: rest) r = .error (.noSuch (argOf a)) := by
  rw [parse_fixpoint]
  simp [step, h1, h2, h3, h4]

/-- unknown_flag_err (short flags, also inside a combined group): the first letter is reported -/
theorem unknown_short_err (t : Table) (a : Str) (h2 : looksLikeFlag (argOf a) = true)
    (h3 : lookup t (argOf a) = none) (h4 : shortLike (argOf a) = true) (h5 : lookup t ((argOf a).take 2) = none)
    (rest : List Str) (r : R) :
    parseArgs t (a :: rest) r = .error (.noSuch ((argOf a).take 2)) := by
  have h1 : argOf a ≠ ['-', '-'] := by
    intro e; rw [e] at h4; simp [shortLike] at h4
  rw [parse_fixpoint]
  simp [step, h1, h2, h3, h4, h5]

/-- missing_value_err: a value option as the last argument -/
theorem missing_value_err (t : Table) (k : Str) (n : Str) (o : Opt) (hk : '=' ∉ k) (hflag : looksLikeFlag k = true)
    (hl : lookup t k = some (n, o)) (hv : (o.string || o.array || o.object) = true) (ho : o.optional = false) (r : R) :
    parseArgs t [k] r = .error (.needsArg k) := by
  have hdd : k ≠ ['-', '-'] := by
    intro e; subst e; simp [looksLikeFlag] at hflag
  rw [parse_fixpoint]
  simp [step, argOf, idxEq_none_of_not_mem k hk, hdd, hflag, hl, hv, ho]

/-- missing_value_err for NAME VALUE options: fewer than two following arguments -/
theorem missing_pair_err (t : Table) (a : Str) (n : Str) (o : Opt) (h1 : argOf a ≠ ['-', '-'])
    (hflag : looksLikeFlag (argOf a) = true) (hl : lookup t (argOf a) = some (n, o))
    (hv : (o.string || o.array || o.object) = false) (hp : o.pairs = true) (tl : List Str) (hlen : tl.length < 2) (r : R) :
    parseArgs t (a :: tl) r = .error (.needsTwo (argOf a)) := by
  rw [parse_fixpoint]
  match tl, hlen with
  | [], _ => simp [step, h1, hflag, hl, hv, hp]
  | [_], _ => simp [step, h1, hflag, hl, hv, hp]

/-- a boolean flag given a value (`--slurp=1`) is rejected -/
theorem bool_takes_no_value (t : Table) (k v : Str) (n : Str) (o : Opt) (hk : '=' ∉ k) (hflag : looksLikeFlag k = true)
    (hl : lookup t k = some (n, o)) (hv : (o.string || o.array || o.object) = false) (hp : o.pairs = false)
    (rest : List Str) (r : R) :
    parseArgs t ((k ++ '=' :: v) :: rest) r = .error (.takesNo k) := by
  have hdd : k ≠ ['-', '-'] := by
    intro e; subst e; simp [looksLikeFlag] at hflag
  rw [parse_fixpoint]
  simp [step, argOf, idxEq_append_eq k v hk, hdd, hflag, hl, hv, hp]

/-! ### boolean flags commute -/

/-- a complete boolean flag token (`-n`, `--slurp`, an alias) -/
def BoolFlag (t : Table) (k : Str) (n : Str) : Prop :=
  '=' ∉ k ∧ looksLikeFlag k = true ∧ ∃ o, lookup t k = some (n, o) ∧
    (o.string || o.array || o.object) = false ∧ o.pairs = false

theorem parse_bool_flag (t : Table) (k n : Str) (h : BoolFlag t k n) (rest : List Str) (r : R) :
    parseArgs t (k :: rest) r = parseArgs t rest { r with parsed := setKey n (fun _ => PV.flag) r.parsed } := by
  obtain ⟨hk, hflag, o, hl, hv, hp⟩ := h
  have hdd : k ≠ ['-', '-'] := by
    intro e; subst e; simp [looksLikeFlag] at hflag
  rw [parse_fixpoint]
  simp [step, argOf, idxEq_none_of_not_mem k hk, hdd, hflag, hl, hv, hp, withoutArg]

/-- bool_flags_commute: two adjacent boolean flags can be swapped (hence any permutation of a block of
    boolean flags, by transpositions) without changing the parse result -/
theorem bool_flags_commute (t : Table) (k1 k2 n1 n2 : Str) (h1 : BoolFlag t k1 n1) (h2 : BoolFlag t k2 n2)
    (rest : List Str) (r : R) :
    parseArgs t (k1 :: k2 :: rest) r = parseArgs t (k2 :: k1 :: rest) r := by
  rw [parse_bool_flag t k1 n1 h1, parse_bool_flag t k2 n2 h2, parse_bool_flag t k2 n2 h2, parse_bool_flag t k1 n1 h1]
  by_cases hn : n1 = n2
  · subst hn; rfl
  · simp only []
    rw [setKey_comm n2 n1 (fun e => hn e.symm)]

/-! ### non-vacuity of the parser theorems, on entries of fq's table -/

example : ShortsAreShort sampleTable := by
  intro c d rest hc
  simp [lookup, lookupFlag, flagmap, sampleTable, mkOpt, dd, Opt.flagKeys, hc, Ne.symm hc]

example : BoolShort sampleTable 'n' ∧ BoolShort sampleTable 'r' ∧ BoolShort sampleTable 'c' := by
  refine ⟨⟨by decide, by decide, by decide, S "null_input", mkOpt "null_input" (some "-n") (some "null-input") "b", by decide, by decide⟩,
          ⟨by decide, by decide, by decide, S "raw_string", mkOpt "raw_string" (some "-r") (some "raw-output") "b", by decide, by decide⟩,
          ⟨by decide, by decide, by decide, S "compact", mkOpt "compact" (some "-c") (some "compact-output") "b", by decide, by decide⟩⟩

/-- combined_short, evaluated: `-nrc x` ≡ `-n -r -c x` -/
example : argsParse sampleTable (A ["-nrc", "x"]) = argsParse sampleTable (A ["-n", "-r", "-c", "x"]) ∧
    argsParse sampleTable (A ["-nrc", "x"]) =
      .ok { parsed := [(S "compact", .flag), (S "null_input", .flag), (S "raw_string", .flag)], rest := [S "x"] } := by decide

/-- combined_short_valued, evaluated (the command line of the seeded change S2-C17-2) -/
example : argsParse sampleTable [S "-cnd=json"] = argsParse sampleTable [S "-c", S "-n", S "-d", S "json"] ∧
    argsParse sampleTable [S "-cnd=json"] =
      .ok { parsed := [(S "compact", .flag), (S "decode_group", .str (S "json")), (S "null_input", .flag)], rest := [] } := by decide

/-- eq_form, evaluated, with a value that itself contains `=` (the FIRST `=` splits) -/
example : argsParse sampleTable [dd "option=a=b=c", S "-d=mp3"] = argsParse sampleTable [dd "option", S "a=b=c", S "-d", S "mp3"] ∧
    argsParse sampleTable [dd "option=a=b=c", S "-d=mp3"] =
      .ok { parsed := [(S "decode_group", .str (S "mp3")), (S "option", .obj [(S "a", S "b=c")])], rest := [] } := by decide

/-- eq_form hypotheses are satisfiable -/
example : '=' ∉ dd "decode" ∧ looksLikeFlag (dd "decode") = true ∧
    ∃ n o, lookup sampleTable (dd "decode") = some (n, o) ∧ (o.string || o.array || o.object) = true := by
  refine ⟨by decide, by decide, S "decode_group", mkOpt "decode_group" (some "-d") (some "decode") "s", by decide, by decide⟩

/-- dashdash_stops, evaluated: flags after `--` are positionals; `-1` is a positional anyway -/
example : argsParse sampleTable [S "-n", S "-1", dd "", S "-r", dd "nosuch", dd ""] =
    .ok { parsed := [(S "null_input", .flag)], rest := [S "-1", S "-r", dd "nosuch", dd ""] } := by decide

/-- the error theorems' hypotheses are satisfiable, and the quirks the model keeps -/
example : argsParse sampleTable [dd "nosuch=1", S "x"] = .error (.noSuch (dd "nosuch")) ∧
    argsParse sampleTable (A ["-nX"]) = .error (.noSuch (S "-X")) ∧
    argsParse sampleTable (A ["-n", "-d"]) = .error (.needsArg (S "-d")) ∧
    argsParse sampleTable (A ["-dn"]) = .error (.needsArg (S "-d")) ∧
    argsParse sampleTable [dd "arg", S "a"] = .error (.needsTwo (dd "arg")) ∧
    argsParse sampleTable [dd "null-input=1"] = .error (.takesNo (dd "null-input")) ∧
    argsParse sampleTable (A ["-o", "nokv"]) = .error (.keyValue (S "nokv")) ∧
    -- optional value: `-h` last is `true`, otherwise it takes the next argument
    argsParse sampleTable (A ["-h"]) = .ok { parsed := [(S "show_help", .flag)], rest := [] } ∧
    argsParse sampleTable (A ["-h", "-n"]) = .ok { parsed := [(S "show_help", .str (S "-n"))], rest := [] } ∧
    -- quirk: `--=x` is read as `--`
    argsParse sampleTable [dd "=x", S "-n"] = .ok { parsed := [], rest := [S "-n"] } := by decide

example : BoolFlag sampleTable (dd "null-input") (S "null_input") ∧ BoolFlag sampleTable (S "-r") (S "raw_string") := by
  refine ⟨⟨by decide, by decide, mkOpt "null_input" (some "-n") (some "null-input") "b", by decide, by decide, by decide⟩,
          ⟨by decide, by decide, mkOpt "raw_string" (some "-r") (some "raw-output") "b", by decide, by decide, by decide⟩⟩

/-! ## exit status -/

def precedence : List Cls := [.args, .compile, .io, .decode, .expr]

/-- exit_precedence: the status is the code of the highest-precedence failure class that occurred
    (args, then compile, then io, decode, expr), 0 if none did -/
theorem exit_precedence (c : Codes) (s : List Cls) :
    exitCode c s = match precedence.find? (fun k => s.contains k) with
      | some k => c.of k
      | none => 0 := by
  unfold exitCode finallyExit precedence
  by_cases h1 : Cls.args ∈ s <;> by_cases h2 : Cls.compile ∈ s <;> by_cases h3 : Cls.io ∈ s <;>
    by_cases h4 : Cls.decode ∈ s <;> by_cases h5 : Cls.expr ∈ s <;>
    simp [List.find?, h1, h2, h3, h4, h5, Codes.of]

/-- only which classes occurred matters, not order or multiplicity -/
theorem exit_set_semantics (c : Codes) (s s' : List Cls) (h : ∀ k, k ∈ s ↔ k ∈ s') : exitCode c s = exitCode c s' := by
  have hc : ∀ k, (k ∈ s) = (k ∈ s') := fun k => propext (h k)
  simp [exitCode, hc]

/-- the five codes are positive -/
abbrev CodesPos (c : Codes) : Prop := 0 < c.args ∧ 0 < c.io ∧ 0 < c.compile ∧ 0 < c.decode ∧ 0 < c.expr

theorem exit_zero_iff (c : Codes) (hp : CodesPos c) (s : List Cls) : exitCode c s = 0 ↔ s = [] := by
  obtain ⟨h1, h2, h3, h4, h5⟩ := hp
  constructor
  · intro h
    cases s with
    | nil => rfl
    | cons k s =>
      exfalso
      have hk : k ∈ k :: s := by simp
      generalize k :: s = l at h hk
      by_cases g1 : Cls.args ∈ l <;> by_cases g2 : Cls.compile ∈ l <;> by_cases g3 : Cls.io ∈ l <;>
        by_cases g4 : Cls.decode ∈ l <;> by_cases g5 : Cls.expr ∈ l <;>
        simp [exitCode, finallyExit, g1, g2, g3, g4, g5] at h <;> first | omega | (cases k <;> contradiction)
  · intro h; subst h; simp [exitCode, finallyExit]

/-- for the classes the loop remembers and codes ordered io ≤ decode ≤ expr (2, 4, 5), "2 over 4 over 5"
    is the numerically smallest code of the classes that occurred -/
theorem exit_is_min (c : Codes) (ho : c.io ≤ c.decode ∧ c.decode ≤ c.expr) (s : List Cls)
    (hs : ∀ k ∈ s, k = .io ∨ k = .decode ∨ k = .expr) (hne : s ≠ []) :
    (∃ k ∈ s, exitCode c s = c.of k) ∧ ∀ k ∈ s, exitCode c s ≤ c.of k := by
  have ha : Cls.args ∉ s := fun h => by have := hs _ h; simp at this
  have hcm : Cls.compile ∉ s := fun h => by have := hs _ h; simp at this
  by_cases h3 : Cls.io ∈ s
  · refine ⟨⟨.io, h3, by simp [exitCode, finallyExit, ha, hcm, h3, Codes.of]⟩, ?_⟩
    intro k hk
    rcases hs k hk with rfl | rfl | rfl <;> simp [exitCode, finallyExit, ha, hcm, h3, Codes.of] <;> omega
  · by_cases h4 : Cls.decode ∈ s
    · refine ⟨⟨.decode, h4, by simp [exitCode, finallyExit, ha, hcm, h3, h4, Codes.of]⟩, ?_⟩
      intro k hk
      rcases hs k hk with rfl | rfl | rfl
      · exact absurd hk h3
      · simp [exitCode, finallyExit, ha, hcm, h3, h4, Codes.of]
      · simp [exitCode, finallyExit, ha, hcm, h3, h4, Codes.of]; omega
    · have h5 : Cls.expr ∈ s := by
        cases s with
        | nil => exact absurd rfl hne
        | cons k s' =>
          rcases hs k (by simp) with rfl | rfl | rfl
          · simp at h3
          · simp at h4
          · simp
      refine ⟨⟨.expr, h5, by simp [exitCode, finallyExit, ha, hcm, h3, h4, h5, Codes.of]⟩, ?_⟩
      intro k hk
      rcases hs k hk with rfl | rfl | rfl
      · exact absurd hk h3
      · exact absurd hk h4
      · simp [exitCode, finallyExit, ha, hcm, h3, h4, h5, Codes.of]

/-- fq's constants (internal.jq:39-43) -/
def fqCodes : Codes := { args := 2, io := 2, compile := 3, decode := 4, expr := 5 }

/-- all eight subsets of the remembered classes, and the two halting classes, with fq's constants -/
example : exitCode fqCodes [] = 0 ∧ exitCode fqCodes [.expr] = 5 ∧ exitCode fqCodes [.decode] = 4 ∧
    exitCode fqCodes [.expr, .decode] = 4 ∧ exitCode fqCodes [.io] = 2 ∧ exitCode fqCodes [.expr, .io] = 2 ∧
    exitCode fqCodes [.decode, .io] = 2 ∧ exitCode fqCodes [.expr, .decode, .io] = 2 ∧
    exitCode fqCodes [.compile] = 3 ∧ exitCode fqCodes [.args] = 2 := by decide

example : CodesPos fqCodes ∧ fqCodes.io ≤ fqCodes.decode ∧ fqCodes.decode ≤ fqCodes.expr := by decide

/-! ## the input loop -/

section loop
variable {C V Out : Type}

/-- inputs_independent: the joint run is the concatenation of the single runs — the values written to
    stdout, the reports written to stderr — and a failure class is remembered iff a single run remembers it.
    For every environment (which files open, which decode, what the program does with each value) and every
    file list. -/
theorem inputs_independent (env : Env C V Out) (fs : List Str) :
    (runFiles env fs).out = (fs.map (fun f => (runFiles env [f]).out)).flatten ∧
    (runFiles env fs).errs = (fs.map (fun f => (runFiles env [f]).errs)).flatten ∧
    (runFiles env fs).io = fs.any (fun f => (runFiles env [f]).io) ∧
    (runFiles env fs).dec = fs.any (fun f => (runFiles env [f]).dec) ∧
    (runFiles env fs).expr = fs.any (fun f => (runFiles env [f]).expr) := by
  induction fs with
  | nil => simp [runFiles, loop]
  | cons f t ih =>
    rw [runFiles_cons env f t]
    obtain ⟨i1, i2, i3, i4, i5⟩ := ih
    simp [app, i1, i2, i3, i4, i5]

/-- input_processed_or_reported: every named input is either REPORTED (a line on stderr and its class remembered,
    hence a non-zero status) or PROCESSED (it was opened and decoded and the program's outputs for its value are the
    run's outputs) — never silently dropped -/
theorem input_processed_or_reported (env : Env C V Out) (f : Str) :
    ((runFiles env [f]).errs = [.io f] ∧ (runFiles env [f]).io = true) ∨
    ((runFiles env [f]).errs = [.dec f] ∧ (runFiles env [f]).dec = true) ∨
    (∃ c v, env.openF f = some c ∧ env.decode c = some v ∧ (runFiles env [f]).out = (env.eval v).1 ∧
      (runFiles env [f]).expr = (env.eval v).2) := by
  unfold runFiles
  simp only [loop]
  cases ho : env.openF f with
  | none => left; simp
  | some c =>
    cases hd : env.decode c with
    | none => right; left; simp [hd]
    | some v => right; right; exact ⟨c, v, rfl, hd, by simp [hd, evalOne], by simp [hd, evalOne]⟩

/-- … so a run with status 0 and nothing on stderr processed every one of its inputs -/
theorem silent_run_processed_all (env : Env C V Out) (c : Codes) (hc : LoopWf c) (fs : List Str)
    (h0 : (runFiles env fs).exit c = 0) : ∀ f ∈ fs, ∃ cnt v, env.openF f = some cnt ∧ env.decode cnt = some v := by
  intro f hf
  obtain ⟨_, _, h3, h4, _⟩ := inputs_independent env fs
  obtain ⟨p1, p2, p3, _, _, _⟩ := hc
  have hio : (runFiles env fs).io = false := by
    cases h : (runFiles env fs).io with
    | false => rfl
    | true => simp [St.exit, finallyExit, h] at h0; omega
  have hdec : (runFiles env fs).dec = false := by
    cases h : (runFiles env fs).dec with
    | false => rfl
    | true => simp [St.exit, finallyExit, hio, h] at h0; omega
  rw [h3] at hio
  rw [h4] at hdec
  have hio' := (List.any_eq_false.mp hio) f hf
  have hdec' := (List.any_eq_false.mp hdec) f hf
  rcases input_processed_or_reported env f with ⟨_, h⟩ | ⟨_, h⟩ | ⟨cnt, v, h1, h2, _⟩
  · simp [h] at hio'
  · simp [h] at hdec'
  · exact ⟨cnt, v, h1, h2⟩

/-- classes (run fs) = ⋃ classes (run fᵢ) -/
theorem classes_union (env : Env C V Out) (fs : List Str) (k : Cls) :
    k ∈ (runFiles env fs).classes ↔ ∃ f ∈ fs, k ∈ (runFiles env [f]).classes := by
  obtain ⟨_, _, h3, h4, h5⟩ := inputs_independent env fs
  cases k <;> simp [St.classes, h3, h4, h5]

/-- exit (run fs) = precedence-max of the exits of the single runs — the relative predicate the driver
    evaluates on the implementation's observations -/
theorem exit_combines (env : Env C V Out) (c : Codes) (hc : LoopWf c) (fs : List Str) :
    (runFiles env fs).exit c = combineExits c (fs.map (fun f => (runFiles env [f]).exit c)) := by
  obtain ⟨_, _, h3, h4, h5⟩ := inputs_independent env fs
  have mem : ∀ x, x ∈ fs.map (fun f => (runFiles env [f]).exit c) ↔
      ∃ f ∈ fs, finallyExit c (runFiles env [f]).io (runFiles env [f]).dec (runFiles env [f]).expr = x := by
    intro x; simp [St.exit]
  have any_true : ∀ (p : Str → Bool), fs.any p = true ↔ ∃ f ∈ fs, p f = true := by intro p; simp
  have any_false : ∀ (p : Str → Bool), fs.any p = false ↔ ∀ f ∈ fs, p f = false := by intro p; simp
  simp only [combineExits, List.contains_iff_mem]
  show finallyExit c (runFiles env fs).io (runFiles env fs).dec (runFiles env fs).expr = _
  rw [h3, h4, h5]
  cases hA : fs.any (fun f => (runFiles env [f]).io) with
  | true =>
    obtain ⟨f, hf, hio⟩ := (any_true _).mp hA
    have : c.io ∈ fs.map (fun f => (runFiles env [f]).exit c) :=
      (mem _).mpr ⟨f, hf, by rw [exit_eq_io c hc]; exact hio⟩
    rw [if_pos this]; simp [finallyExit]
  | false =>
    have hA' := (any_false _).mp hA
    have n1 : c.io ∉ fs.map (fun f => (runFiles env [f]).exit c) := by
      intro h
      obtain ⟨f, hf, he⟩ := (mem _).mp h
      rw [exit_eq_io c hc] at he
      rw [hA' f hf] at he
      cases he
    cases hB : fs.any (fun f => (runFiles env [f]).dec) with
    | true =>
      obtain ⟨f, hf, hd⟩ := (any_true _).mp hB
      have : c.decode ∈ fs.map (fun f => (runFiles env [f]).exit c) :=
        (mem _).mpr ⟨f, hf, by rw [exit_eq_dec c hc]; exact ⟨hA' f hf, hd⟩⟩
      rw [if_neg n1, if_pos this]; simp [finallyExit]
    | false =>
      have hB' := (any_false _).mp hB
      have n2 : c.decode ∉ fs.map (fun f => (runFiles env [f]).exit c) := by
        intro h
        obtain ⟨f, hf, he⟩ := (mem _).mp h
        rw [exit_eq_dec c hc] at he
        rw [hB' f hf] at he
        cases he.2
      cases hD : fs.any (fun f => (runFiles env [f]).expr) with
      | true =>
        obtain ⟨f, hf, hx⟩ := (any_true _).mp hD
        have : c.expr ∈ fs.map (fun f => (runFiles env [f]).exit c) :=
          (mem _).mpr ⟨f, hf, by rw [exit_eq_expr c hc]; exact ⟨hA' f hf, hB' f hf, hx⟩⟩
        rw [if_neg n1, if_neg n2, if_pos this]; simp [finallyExit]
      | false =>
        have hD' := (any_false _).mp hD
        have n3 : c.expr ∉ fs.map (fun f => (runFiles env [f]).exit c) := by
          intro h
          obtain ⟨f, hf, he⟩ := (mem _).mp h
          rw [exit_eq_expr c hc] at he
          rw [hD' f hf] at he
          cases he.2.2
        rw [if_neg n1, if_neg n2, if_neg n3]; simp [finallyExit]

/-- the exit status of a run is `exitCode` of the classes it remembered -/
theorem run_exit_is_exitCode (c : Codes) (st : St Out) : st.exit c = exitCode c st.classes := by
  cases h1 : st.io <;> cases h2 : st.dec <;> cases h3 : st.expr <;>
    simp [St.exit, St.classes, exitCode, finallyExit, h1, h2, h3]

/-- slurp_is_array_of_singles: the values collected for the array of slurp mode (`[inputs]`) are exactly
    the values the default mode feeds to the program one by one — stdout of the default mode is the
    concatenation of the program's outputs on the elements of the slurped array -/
theorem slurp_is_array_of_singles (env : Env C V Out) :
    ∀ (fs : List Str) (st : St Out) (acc : List V),
      (loop env fs st).out = st.out ++ (((collect env fs st acc).2.drop acc.length).flatMap (fun v => (env.eval v).1)) ∧
      acc <+: (collect env fs st acc).2 := by
  intro fs
  induction fs with
  | nil => intro st acc; simp [loop, collect]
  | cons h t ih =>
    intro st acc
    simp only [loop, collect]
    cases env.openF h with
    | none =>
      obtain ⟨i1, i2⟩ := ih { st with io := true, errs := st.errs ++ [.io h] } acc
      exact ⟨by simpa using i1, i2⟩
    | some cnt =>
      simp only []
      cases env.decode cnt with
      | none =>
        obtain ⟨i1, i2⟩ := ih { st with dec := true, errs := st.errs ++ [.dec h] } acc
        exact ⟨by simpa using i1, i2⟩
      | some v =>
        simp only []
        obtain ⟨_, ⟨sfx, i2⟩⟩ := ih st (acc ++ [v])
        obtain ⟨j1, _⟩ := ih (evalOne env v st) (acc ++ [v])
        refine ⟨?_, ⟨[v] ++ sfx, by rw [← i2]; simp⟩⟩
        rw [j1, collect_vals_indep env t (evalOne env v st) st, ← i2]
        have hd : List.drop (acc.length + 1) acc = [] := List.drop_eq_nil_of_le (by omega)
        simp [evalOne, List.drop_append, hd]

/-- with the memory holding the rendered string, the loop that tracks error VALUES is the class-level loop -/
theorem loopE_forget (env : EnvE C V Out) :
    ∀ (fs : List Str) (st : StE Out), (loopE env (storeString env) fs st).toSt = loop env.forget fs st.toSt := by
  intro fs
  induction fs with
  | nil => intro st; rfl
  | cons h t ih =>
    intro st
    simp only [loopE, loop, EnvE.forget]
    cases env.openF h with
    | none => simp only []; rw [ih]; rfl
    | some cnt =>
      simp only []
      cases env.decode cnt with
      | none => simp only []; rw [ih]; rfl
      | some v =>
        simp only []
        rw [ih]
        congr 1
        simp only [evalOneE, evalOne, StE.toSt, storeString]
        cases hev : env.evalE v with
        | mk outs err =>
          cases err with
          | none => simp
          | some e => simp [EVal.truthy]

/-- exit_ignores_error_value: the exit status of a run depends only on WHICH inputs failed in which class, not on
    the values the program raised — two worlds that differ only in the error values (and their rendering) exit alike,
    and the status is `exitCode` of the remembered classes -/
theorem exit_ignores_error_value (env env' : EnvE C V Out) (h : env.forget = env'.forget) (c : Codes) (fs : List Str) :
    (loopE env (storeString env) fs {}).exit c = (loopE env' (storeString env') fs {}).exit c ∧
    (loopE env (storeString env) fs {}).exit c = exitCode c (runFiles env.forget fs).classes := by
  have key : ∀ (e : EnvE C V Out), (loopE e (storeString e) fs {}).exit c = (runFiles e.forget fs).exit c := by
    intro e
    have := loopE_forget e fs {}
    have h2 : (loopE e (storeString e) fs {}).exit c = ((loopE e (storeString e) fs {}).toSt).exit c := rfl
    rw [h2, this]; rfl
  refine ⟨by rw [key env, key env', h], ?_⟩
  rw [key env, run_exit_is_exitCode]

end loop

/-- a world in which the program raises `null` on the input `num` and `"x"` on `str` -/
def sampleEnvE (raised : EVal) : EnvE Nat Nat Nat where
  openF := fun n => if n = S "num" then some 1 else some 2
  decode := some
  evalE := fun v => if v = 1 then ([], some raised) else ([v], none)
  render := fun _ => S "rendered"

/-- exit_ignores_error_value on values: null, false, a number, an object raise the same status 5 … -/
example : (loopE (sampleEnvE .null) (storeString (sampleEnvE .null)) (A ["obj", "num"]) {}).exit fqCodes = 5 ∧
    (loopE (sampleEnvE .false) (storeString (sampleEnvE .false)) (A ["num", "obj"]) {}).exit fqCodes = 5 ∧
    (loopE (sampleEnvE .obj) (storeString (sampleEnvE .obj)) (A ["obj", "num", "obj"]) {}).exit fqCodes = 5 ∧
    (sampleEnvE .null).forget = (sampleEnvE .obj).forget := by
  refine ⟨by decide, by decide, by decide, ?_⟩
  simp only [EnvE.forget, sampleEnvE]
  congr 1
  funext v
  by_cases h : v = 1 <;> simp [h]

/-- … and storing the RAW value (seeded change S2-C17-1) breaks it: a falsy value raised by the last failing
    input gives status 0 -/
theorem exit_raw_memory_false :
    (loopE (sampleEnvE .null) id (A ["obj", "num"]) {}).exit fqCodes = 0 ∧
    (loopE (sampleEnvE .false) id (A ["num", "obj"]) {}).exit fqCodes = 0 ∧
    (loopE (sampleEnvE .obj) id (A ["obj", "num"]) {}).exit fqCodes = 5 := by decide

/-- non-vacuity of the loop theorems: an environment with all four kinds of input, every class occurs -/
def sampleEnv : Env Nat Nat Nat where
  openF := fun n => if n = S "missing" then none else if n = S "undec" then some 0 else if n = S "num" then some 1 else some 2
  decode := fun c => if c = 0 then none else some c
  eval := fun v => if v = 1 then ([10], true) else ([v, v], false)

example :
    (runFiles sampleEnv (A ["obj", "missing", "num", "undec", "obj"])).out = [2, 2, 10, 2, 2] ∧
    (runFiles sampleEnv (A ["obj", "missing", "num", "undec", "obj"])).errs = [.io (S "missing"), .expr, .dec (S "undec")] ∧
    (runFiles sampleEnv (A ["obj", "missing", "num", "undec", "obj"])).classes = [.io, .decode, .expr] ∧
    (runFiles sampleEnv (A ["obj", "missing", "num", "undec", "obj"])).exit fqCodes = 2 ∧
    (runFiles sampleEnv (A ["num", "undec"])).exit fqCodes = 4 ∧ (runFiles sampleEnv (A ["num", "obj"])).exit fqCodes = 5 ∧
    (collect sampleEnv (A ["obj", "missing", "num", "undec", "obj"]) {} []).2 = [2, 1, 2] := by decide

example : LoopWf fqCodes := by decide

/-! ### documentation: the loop before commit 465c459f violated the statement -/

/-- finding `redecode-after-open-failure` (fixed in /repo by 465c459f): with the old loop, an input that
    followed a failed `open` was decoded a second time and displayed differently (`re`: the root lost its file
    name) — the joint run was NOT the concatenation of the single runs.  Replayed on the implementation by
    corpus/C17/matrix.redecode.ops; reverting the commit makes that case a PROPFAIL. -/
theorem inputs_independent_old_false :
    ¬ (∀ (env : Env Nat Nat Nat) (re : Nat → Nat) (fs : List Str),
        (loopOld env re fs [] {}).out = (fs.map (fun f => (loopOld env re [f] [] {}).out)).flatten) := by
  intro h
  have := h sampleEnv (· + 100) [S "missing", S "obj"]
  revert this
  decide

/-- … while the loop as it is now gives the concatenation on the same input -/
example : (runFiles sampleEnv [S "missing", S "obj"]).out = [2, 2] ∧ (loopOld sampleEnv (· + 100) [S "missing", S "obj"] [] {}).out = [102, 102] := by
  decide

/-! ## `open` on a real file system, and the input loop with all three outcomes of `open`

  `openModel` = binary.go `_open` on what os.Open / Stat / Seek / ReadAll report (measured by the harness on a real
  directory tree); `loopO` = the loop of init.jq:20-59 including the case that `open` returns a binary which cannot be
  used (`.opened == null` is then true although nothing was raised). -/

/-- a directory argument is a FILE ERROR, whatever its file descriptor answers to Seek: it is not regular, so it is read, and
    reading a directory fails -/
theorem open_directory_is_error (f : OsFile) (ho : f.opens = true) (hr : f.regular = false) (hd : f.readAll = none) :
    openModel f = .err := by
  simp [openModel, ho, hr, hd]

/-- exactly which paths `open` refuses: those os.Open refuses, and those that are read into memory (not regular, or size
    zero, or not a ReadSeeker) and cannot be read -/
theorem open_error_iff (f : OsFile) :
    openModel f = .err ↔
      f.opens = false ∨ ((f.regular && decide (0 < f.statSize) && f.seekable) = false ∧ f.readAll = none) := by
  unfold openModel
  cases h1 : f.opens <;> cases h2 : (f.regular && decide (0 < f.statSize) && f.seekable) <;> cases h3 : f.readAll <;>
    cases h4 : f.seekEnd <;> simp

/-- the size a NON-regular file claims through Seek is never asked for (the seeded change S5-C17-1 asks) -/
theorem open_nonregular_ignores_seek (f : OsFile) (e : Option Nat) (hr : f.regular = false) :
    openModel { f with seekEnd := e } = openModel f := by
  simp [openModel, hr]

/-- exactly which paths would be ghosts: regular by Stat with a POSITIVE size, a ReadSeeker, and Seek(0, SeekEnd) fails -/
theorem open_ghost_iff (f : OsFile) :
    openModel f = .ghost ↔ f.opens = true ∧ f.regular = true ∧ 0 < f.statSize ∧ f.seekable = true ∧ f.seekEnd = none := by
  unfold openModel
  cases h1 : f.opens <;> cases h2 : f.regular <;> cases h3 : f.seekable <;> cases h4 : f.readAll <;> cases h5 : f.seekEnd <;>
    by_cases h6 : 0 < f.statSize <;> simp [h6]

/-- … so under the one fact about operating systems that the code relies on — a regular file that reports a positive size
    answers Seek(0, SeekEnd) — `open` is never a ghost: it raises or returns a usable binary -/
theorem open_never_ghost (f : OsFile) (hos : f.regular = true → 0 < f.statSize → f.seekEnd.isSome = true) :
    openModel f ≠ .ghost := by
  intro h
  obtain ⟨_, h2, h3, _, h5⟩ := (open_ghost_iff f).mp h
  have := hos h2 h3
  simp [h5] at this

/-- a regular file that reports size zero (an empty file, a procfs file) is READ, whatever it answers to Seek -/
theorem open_zero_size_regular_is_read (f : OsFile) (ho : f.opens = true) (hz : f.statSize = 0) (n : Nat) (hr : f.readAll = some n) :
    openModel f = .file n := by
  simp [openModel, ho, hz, hr]

/-- finding `procfs-input-silently-dropped` (fixed in /repo by 013f25c7): before, exactly the regular ReadSeekers that refuse
    SEEK_END were ghosts, among them the seq files of procfs, whose stat size is 0 -/
theorem open_ghost_iff_old (f : OsFile) :
    openModelOld f = .ghost ↔ f.opens = true ∧ f.regular = true ∧ f.seekable = true ∧ f.seekEnd = none := by
  unfold openModelOld
  cases h1 : f.opens <;> cases h2 : f.regular <;> cases h3 : f.seekable <;> cases h4 : f.readAll <;> cases h5 : f.seekEnd <;> simp

/-- the file kinds of the real-file-system family on the model; the seeded variant S5-C17-1 turns a directory (ext4:
    SEEK_END = 2^63-1) into a ghost, i.e. into an input that is skipped without a word -/
theorem open_seeded_directory_ghost :
    openModel osDirExt4 = .err ∧ openSeeded osDirExt4 = .ghost ∧
    openModel osDevNull = .file 0 ∧ openSeeded osDevNull = .file 0 ∧
    openModel osNoOpen = .err ∧ openSeeded osNoOpen = .err ∧
    openModelOld osProcSeq = .ghost ∧ openModel osProcSeq = .file 123 ∧ openSeeded osProcSeq = .file 123 ∧
    kindAgrees .dir osDirExt4 = true ∧ kindAgrees .empty osDevNull = true ∧ kindAgrees .undec osProcSeq = true ∧
    kindAgrees .jobj osDirExt4 = false := by
  decide

section loopO
variable {C V Out : Type}

/-- without ghosts `loopO` is `loop`: every theorem of the section above applies -/
theorem loopO_no_ghost (env : EnvO C V Out) (fs : List Str) (st : St Out) (h : ∀ f ∈ fs, env.openO f ≠ .ghost) :
    loopO env fs st = loop env.toEnv fs st := by
  induction fs generalizing st with
  | nil => rfl
  | cons f t ih =>
    have ht : ∀ x ∈ t, env.openO x ≠ .ghost := fun x hx => h x (by simp [hx])
    have hf := h f (by simp)
    cases ho : env.openO f with
    | err =>
      have hopen : env.toEnv.openF f = none := by simp [EnvO.toEnv, ho]
      simp only [loopO, loop, ho, hopen]
      exact ih _ ht
    | ghost => exact absurd ho hf
    | ok c =>
      have hopen : env.toEnv.openF f = some c := by simp [EnvO.toEnv, ho]
      have hdec : env.toEnv.decode = env.decode := rfl
      simp only [loopO, loop, ho, hopen, hdec]
      cases env.decode c with
      | none => exact ih _ ht
      | some v => exact ih _ ht

/-- ghost_input_is_absent: an input whose `open` is a ghost would leave NO trace — output, stderr, remembered classes and
    hence the exit status are those of the command line without it -/
theorem ghost_input_is_absent (env : EnvO C V Out) (pre post : List Str) (g : Str) (hg : env.openO g = .ghost) (st : St Out) :
    loopO env (pre ++ g :: post) st = loopO env (pre ++ post) st := by
  induction pre generalizing st with
  | nil => simp [loopO, hg]
  | cons f t ih =>
    cases ho : env.openO f with
    | err => simp only [List.cons_append, loopO, ho]; exact ih _
    | ghost => simp only [List.cons_append, loopO, ho]; exact ih _
    | ok c =>
      simp only [List.cons_append, loopO, ho]
      cases env.decode c with
      | none => exact ih _
      | some v => exact ih _

/-- NEGATION WITNESS of "every input is processed or reported" for the code BEFORE /repo commit 013f25c7 (finding
    `procfs-input-silently-dropped`, fixed): a ghost input alone gives no output, no report and status 0 — then
    `fq . /proc/version` (`open_seeded_directory_ghost`: `openModelOld osProcSeq = .ghost`); and what the seeded change
    S5-C17-1 makes of a directory -/
theorem ghost_input_silently_dropped_old (env : EnvO C V Out) (g : Str) (hg : env.openO g = .ghost) (c : Codes) :
    (loopO env [g] {}).out = [] ∧ (loopO env [g] {}).errs = [] ∧ (loopO env [g] {}).exit c = 0 := by
  simp [loopO, hg, St.exit, finallyExit]

/-- input_processed_or_reported for the loop with all outcomes of `open` — PARTIAL: only for inputs that are not ghosts.
    FULL statement: the same without `hng`.  What is missing is not in fq's code but a fact about operating systems: that a
    regular file reporting a positive size answers Seek(0, SeekEnd) — under it `open` is never a ghost (`open_never_ghost`) and
    this theorem is `input_processed_or_reported` (`loopO_no_ghost`).  The init.jq loop itself still skips a ghost silently
    (`ghost_input_silently_dropped_old`); since 013f25c7 `_open` no longer produces one for any file known to the harness. -/
theorem input_processed_or_reported_partial (env : EnvO C V Out) (f : Str) (hng : env.openO f ≠ .ghost) :
    ((loopO env [f] {}).errs = [.io f] ∧ (loopO env [f] {}).io = true) ∨
    ((loopO env [f] {}).errs = [.dec f] ∧ (loopO env [f] {}).dec = true) ∨
    (∃ c v, env.openO f = .ok c ∧ env.decode c = some v ∧ (loopO env [f] {}).out = (env.eval v).1 ∧
      (loopO env [f] {}).expr = (env.eval v).2) := by
  simp only [loopO]
  cases ho : env.openO f with
  | err => left; simp
  | ghost => exact absurd ho hng
  | ok c =>
    cases hd : env.decode c with
    | none => right; left; simp [hd]
    | some v => right; right; exact ⟨c, v, rfl, hd, by simp [hd, evalOne, EnvO.toEnv], by simp [hd, evalOne, EnvO.toEnv]⟩

/-- non-vacuity: an environment with an unopenable path, a ghost and a good file -/
def sampleEnvO : EnvO Nat Nat Nat :=
  { openO := fun n => if n = S "miss" then .err else if n = S "ghost" then .ghost else .ok 1,
    decode := fun c => some c, eval := fun v => ([v], false) }

example : sampleEnvO.openO (S "ghost") = .ghost ∧ sampleEnvO.openO (S "a") ≠ .ghost ∧
    (loopO sampleEnvO [S "a", S "ghost", S "miss"] {}).out = [1] ∧
    (loopO sampleEnvO [S "a", S "ghost", S "miss"] {}).errs = [.io (S "miss")] ∧
    (loopO sampleEnvO [S "ghost"] {}).errs = [] := by
  refine ⟨by simp [sampleEnvO, S], by simp [sampleEnvO, S], by decide, by decide, by decide⟩

end loopO

/-! ## raw input (`-R`) -/

/-- raw_input_lines: the inputs of raw-input mode are the newline-free pieces of the concatenated texts … -/
theorem raw_input_lines (chunks : List Str) : ∀ l ∈ rawLines chunks, '\n' ∉ l := by
  unfold rawLines
  split
  · simp
  · exact splitNl_no_newline _

/-- … and joining them with newlines gives the concatenation back, up to ONE trailing newline: nothing is
    lost, lines continue across file boundaries (jq: `a\nb` + `c\n` ⇒ "a", "bc") -/
theorem raw_input_lossless (chunks : List Str) (h : chunks.flatten ≠ []) :
    ['\n'].intercalate (rawLines chunks) = rtrimNl chunks.flatten := by
  unfold rawLines
  have : chunks.flatten.isEmpty = false := by cases hc : chunks.flatten <;> simp_all
  simp only [this]
  exact intercalate_splitNl _

/-- raw input agrees with jq on every list of input texts -/
theorem raw_input_agrees_with_jq (chunks : List Str) : rawLines chunks = jqRawLines chunks := rfl

/-- finding `raw-input-empty` (fixed in /repo by c7862ea9): before, one readable but empty input gave ONE
    empty line where jq gives none; now it gives none.  Replayed by corpus/C17/random.rawempty.ops. -/
theorem raw_input_old_empty_witness : rawLinesOld [[]] = [[]] ∧ jqRawLines [[]] = [] ∧ rawLines [[]] = [] := by decide

example : rawLines [S "a\nb", S "c\n"] = [S "a", S "bc"] ∧ rawLines [S "x\n\n"] = [S "x", S ""] ∧ rawLines [] = [] ∧
    rawLines [S "\n"] = [S ""] := by decide


/-! ### raw input over any alphabet (bytes in the correspondence run): `-R` against `-Rs`, for EVERY input text

  `rawLinesG nl chunks` = the values of `fq -R` (init.jq:81-99), `rawSlurpG chunks` = the one value of `fq -Rs` (:73-80) on
  the same inputs.  jq: the text is cut at `\n` and nowhere else, a last line without `\n` counts, the values joined with
  `\n` (plus the final `\n` the text may end with) are the text.  Nothing here knows about `\r`, NUL or UTF-8: they are
  content. -/

section RawG
variable {α : Type} [DecidableEq α]

/-- raw_lines_join: for every input the values of `-R`, joined, reproduce the string of `-Rs` -/
theorem raw_lines_join (nl : α) (chunks : List (List α)) :
    rawJoin nl (rawSlurpG chunks) (rawLinesG nl chunks) = rawSlurpG chunks := by
  unfold rawJoin rawSlurpG rawLinesG
  by_cases h : chunks.flatten = []
  · simp [h, endsSep_nil, List.intercalate]
  · simp only [isEmpty_false_of_ne h]
    rw [if_neg (by simp), intercalate_splitSep]
    exact rtrimSep_append nl _

/-- no value contains the separator -/
theorem raw_lines_no_separator (nl : α) (chunks : List (List α)) : ∀ l ∈ rawLinesG nl chunks, nl ∉ l := by
  unfold rawLinesG
  split
  · simp
  · exact splitSep_no_sep nl _

/-- no byte other than a separating `\n` is dropped, none is added, the order is kept: the values concatenated are the
    text without its `\n`s -/
theorem raw_lines_drop_only_separators (nl : α) (chunks : List (List α)) :
    (rawLinesG nl chunks).flatten = (rawSlurpG chunks).filter (fun c => decide (c ≠ nl)) := by
  unfold rawLinesG rawSlurpG
  by_cases h : chunks.flatten = []
  · simp [h]
  · simp only [isEmpty_false_of_ne h]
    rw [if_neg (by simp), flatten_splitSep, filter_rtrimSep]

/-- … in numbers: the bytes of the values plus the `\n`s of the text are all the bytes of the text -/
theorem raw_lines_bytes_accounted (nl : α) (chunks : List (List α)) :
    (rawLinesG nl chunks).flatten.length + (rawSlurpG chunks).count nl = (rawSlurpG chunks).length := by
  rw [raw_lines_drop_only_separators]
  have h := List.length_eq_countP_add_countP (fun c => decide (c ≠ nl)) (l := rawSlurpG chunks)
  rw [List.countP_eq_length_filter] at h
  have h2 : List.countP (fun a => decide ¬(decide (a ≠ nl)) = true) (rawSlurpG chunks) = (rawSlurpG chunks).count nl := by
    rw [List.count_eq_countP]
    congr 1
    funext a
    by_cases ha : a = nl <;> simp [ha]
  omega

/-- every byte value other than the separator occurs in the values exactly as often as in the text: `\r` is kept -/
theorem raw_lines_keep_other (nl c : α) (hc : c ≠ nl) (chunks : List (List α)) :
    (rawLinesG nl chunks).flatten.count c = (rawSlurpG chunks).count c := by
  rw [raw_lines_drop_only_separators]
  exact List.count_filter (by simp [hc])

/-- the number of values: one per `\n`, plus one for a last line that has no `\n` -/
theorem raw_lines_count (nl : α) (chunks : List (List α)) :
    (rawLinesG nl chunks).length + (if endsSep nl (rawSlurpG chunks) then 1 else 0) =
      (rawSlurpG chunks).count nl + (if rawSlurpG chunks = [] then 0 else 1) := by
  unfold rawLinesG rawSlurpG
  by_cases h : chunks.flatten = []
  · simp [h, endsSep_nil]
  · simp only [isEmpty_false_of_ne h]
    rw [if_neg (by simp), if_neg h, length_splitSep]
    have := count_rtrimSep nl chunks.flatten
    omega

/-- lines continue across file boundaries (jq: `a\nb` + `c\n` gives "a", "bc"): only the concatenation matters -/
theorem raw_lines_across_files (nl : α) (a b : List α) (rest : List (List α)) :
    rawLinesG nl (a :: b :: rest) = rawLinesG nl ((a ++ b) :: rest) := by
  simp [rawLinesG]

/-- the judgement the driver evaluates on the observed values of `-R` and the observed string of `-Rs` is satisfied by
    exactly one list of values: jq's.  (So a `raw` case line is OK iff fq printed what jq prints.) -/
theorem raw_judge_iff (nl : α) (text : List α) (ls : List (List α)) :
    rawJudge nl text ls = true ↔ ls = rawLinesG nl [text] := by
  constructor
  · intro hj
    simp only [rawJudge, Bool.and_eq_true, List.all_eq_true, Bool.not_eq_true', decide_eq_true_eq, beq_iff_eq] at hj
    obtain ⟨⟨hno, hjoin⟩, hemp⟩ := hj
    have hno' : ∀ l ∈ ls, nl ∉ l := fun l hl => by
      have := hno l hl
      simpa using this
    unfold rawLinesG
    by_cases ht : text = []
    · subst ht
      have : ls = [] := by cases ls <;> simp_all
      simp [this]
    · have hls : ls ≠ [] := by
        intro e; subst e; simp at hemp; exact ht hemp
      have hflat : [text].flatten = text := by simp
      rw [hflat, isEmpty_false_of_ne ht, if_neg (by simp)]
      unfold rawJoin at hjoin
      have h2 := rtrimSep_append nl text
      have h3 : [nl].intercalate ls = rtrimSep nl text := by
        have : [nl].intercalate ls ++ (if endsSep nl text then [nl] else []) =
            rtrimSep nl text ++ (if endsSep nl text then [nl] else []) := by rw [hjoin, h2]
        exact List.append_cancel_right this
      rw [← h3, splitSep_intercalate nl ls hls hno']
  · intro e
    subst e
    have h1 := raw_lines_no_separator nl [text]
    have h2 := raw_lines_join nl [text]
    have hflat : rawSlurpG [text] = text := by simp [rawSlurpG]
    rw [hflat] at h2
    simp only [rawJudge, Bool.and_eq_true, List.all_eq_true, Bool.not_eq_true', decide_eq_true_eq, beq_iff_eq]
    refine ⟨⟨fun l hl => by simpa using h1 l hl, h2⟩, ?_⟩
    unfold rawLinesG
    by_cases ht : text = []
    · simp [ht]
    · have hflat : [text].flatten = text := by simp
      rw [hflat, isEmpty_false_of_ne ht, if_neg (by simp)]
      have := splitSep_ne_nil nl (rtrimSep nl text)
      cases hs : splitSep nl (rtrimSep nl text) <;> simp_all

end RawG

/-- `rawLines` (code points, `'\n'`) is the `Char` instance of the generic splitter -/
theorem rawLines_eq_generic (chunks : List Str) : rawLines chunks = rawLinesG '\n' chunks := by
  unfold rawLines rawLinesG
  rw [splitNl_eq, rtrimNl_eq]

/-- the seeded variant S5-C17-2 (`map(rtrimstr("\r"))`: "lines can end with \n or \r\n") violates `raw_lines_join`, is
    rejected by the judgement, and loses a byte: on the DOS text `a\r\nb\r\n` it yields "a", "b" where jq yields "a\r", "b\r";
    also a lone `\r` at the end of a last line without `\n` is lost -/
theorem raw_crlf_variant_false :
    rawJoin '\n' (rawSlurpG [S "a\r\nb\r\n"]) (rawLinesCRLF '\n' '\r' [S "a\r\nb\r\n"]) ≠ rawSlurpG [S "a\r\nb\r\n"] ∧
    rawJudge '\n' (S "a\r\nb\r\n") (rawLinesCRLF '\n' '\r' [S "a\r\nb\r\n"]) = false ∧
    rawJudge '\n' (S "a\r\nb\r\n") (rawLinesG '\n' [S "a\r\nb\r\n"]) = true ∧
    rawLinesCRLF '\n' '\r' [S "x\r"] = [S "x"] ∧ rawLinesG '\n' [S "x\r"] = [S "x\r"] ∧
    (rawLinesCRLF '\n' '\r' [S "a\r\nb\r\n"]).flatten.count '\r' = 0 ∧ (rawSlurpG [S "a\r\nb\r\n"]).count '\r' = 2 := by
  decide

/-- the inputs the correspondence run generates, on the model: `\r\n`, lone `\r`, empty lines, no trailing newline, NUL,
    a line that continues in the next file, U+2028 -/
example : rawLinesG '\n' [S "a\r\nb\r\n"] = [S "a\r", S "b\r"] ∧ rawLinesG '\n' [S "\r"] = [S "\r"] ∧
    rawLinesG '\n' [S "\n\n"] = [S "", S ""] ∧ rawLinesG '\n' [S "a\n\nb"] = [S "a", S "", S "b"] ∧
    rawLinesG '\n' [S "a\r", S "\nb"] = [S "a\r", S "b"] ∧ rawLinesG '\n' [S "\x00\n\x00"] = [S "\x00", S "\x00"] ∧
    rawLinesG '\n' [S "a b\n"] = [S "a b"] ∧ rawLinesG '\n' [S "", S ""] = [] ∧ rawSlurpG [S "", S ""] = S "" ∧
    rawLinesG (10 : Nat) [[0xff, 13, 10, 0xc3], [0xa9, 10, 10]] = [[0xff, 13], [0xc3, 0xa9], []] := by
  decide

/-! ## repeated options, `-o key=value`, the order in which the sources of an option's value override each other -/

/-- a value option on the parser's plain path (`-d NAME`, `-f PATH`): `string`, not array / object / pairs -/
abbrev PureString (o : Opt) : Prop := o.string = true ∧ o.array = false ∧ o.object = false ∧ o.pairs = false

/-- a complete value-flag token for option `n` (`-d`, the long form, an alias) -/
def ValueFlag (t : Table) (k : Str) (n : Str) : Prop :=
  '=' ∉ k ∧ looksLikeFlag k = true ∧ ∃ o, lookup t k = some (n, o) ∧ PureString o

/-- `k v` writes `n := v` and parsing continues -/
theorem parse_value_flag (t : Table) (k n v : Str) (h : ValueFlag t k n) (rest : List Str) (r : R) :
    parseArgs t (k :: v :: rest) r = parseArgs t rest { r with parsed := setKey n (fun _ => PV.str v) r.parsed } := by
  obtain ⟨hk, hflag, o, hl, h1, h2, h3, h4⟩ := h
  have hdd : k ≠ ['-', '-'] := by
    intro e; subst e; simp [looksLikeFlag] at hflag
  rw [parse_fixpoint]
  simp [step, argOf, idxEq_none_of_not_mem k hk, hdd, hflag, hl, h1, h2, h3, h4, withArg]

/-- repeated_value_flag_later_wins: `-d a … -d b` — the later occurrence of a value option wins (any of its forms) -/
theorem repeated_value_flag_later_wins (t : Table) (k1 k2 n v1 v2 : Str) (h1 : ValueFlag t k1 n) (h2 : ValueFlag t k2 n)
    (rest : List Str) (r : R) :
    parseArgs t (k1 :: v1 :: k2 :: v2 :: rest) r = parseArgs t (k2 :: v2 :: rest) r := by
  rw [parse_value_flag t k1 n v1 h1, parse_value_flag t k2 n v2 h2, parse_value_flag t k2 n v2 h2]
  simp only []
  rw [setKey_overwrite]

/-- value options of different names commute (so "later wins" holds across any block of flags, by transpositions) -/
theorem value_flags_commute (t : Table) (k1 k2 n1 n2 v1 v2 : Str) (h1 : ValueFlag t k1 n1) (h2 : ValueFlag t k2 n2)
    (hn : n1 ≠ n2) (rest : List Str) (r : R) :
    parseArgs t (k1 :: v1 :: k2 :: v2 :: rest) r = parseArgs t (k2 :: v2 :: k1 :: v1 :: rest) r := by
  rw [parse_value_flag t k1 n1 v1 h1, parse_value_flag t k2 n2 v2 h2, parse_value_flag t k2 n2 v2 h2,
    parse_value_flag t k1 n1 v1 h1]
  simp only []
  rw [setKey_comm n2 n1 (fun e => hn e.symm)]

/-- … and commute with boolean flags -/
theorem value_flag_bool_flag_commute (t : Table) (k1 k2 n1 n2 v1 : Str) (h1 : ValueFlag t k1 n1) (h2 : BoolFlag t k2 n2)
    (hn : n1 ≠ n2) (rest : List Str) (r : R) :
    parseArgs t (k1 :: v1 :: k2 :: rest) r = parseArgs t (k2 :: k1 :: v1 :: rest) r := by
  rw [parse_value_flag t k1 n1 v1 h1, parse_bool_flag t k2 n2 h2, parse_bool_flag t k2 n2 h2, parse_value_flag t k1 n1 v1 h1]
  simp only []
  rw [setKey_comm n2 n1 (fun e => hn e.symm)]

/-- an array option (`-L PATH`) -/
def ArrayFlag (t : Table) (k : Str) (n : Str) : Prop :=
  '=' ∉ k ∧ looksLikeFlag k = true ∧ ∃ o, lookup t k = some (n, o) ∧ o.array = true ∧ o.object = false

theorem parse_array_flag (t : Table) (k n v : Str) (h : ArrayFlag t k n) (rest : List Str) (r : R) (xs : List Str)
    (hold : getKey n r.parsed = none ∧ xs = [] ∨ getKey n r.parsed = some (.arr xs)) :
    parseArgs t (k :: v :: rest) r = parseArgs t rest { r with parsed := setKey n (fun _ => PV.arr (xs ++ [v])) r.parsed } := by
  obtain ⟨hk, hflag, o, hl, h1, h2⟩ := h
  have hdd : k ≠ ['-', '-'] := by
    intro e; subst e; simp [looksLikeFlag] at hflag
  rw [parse_fixpoint]
  rcases hold with ⟨hg, rfl⟩ | hg <;>
    simp [step, argOf, idxEq_none_of_not_mem k hk, hdd, hflag, hl, h1, h2, withArg, updParsed, hg]

/-- array_flag_accumulates: repeated `-L` options are ALL kept, in command line order (nothing is overwritten) -/
theorem array_flag_accumulates (t : Table) (k1 k2 n a b : Str) (h1 : ArrayFlag t k1 n) (h2 : ArrayFlag t k2 n)
    (rest : List Str) (r : R) (hfresh : getKey n r.parsed = none) :
    parseArgs t (k1 :: a :: k2 :: b :: rest) r =
      parseArgs t rest { r with parsed := setKey n (fun _ => PV.arr [a, b]) r.parsed } := by
  rw [parse_array_flag t k1 n a h1 _ _ [] (Or.inl ⟨hfresh, rfl⟩)]
  rw [parse_array_flag t k2 n b h2 rest _ [a] (Or.inr (by simp [getKey_setKey_const]))]
  simp only [List.nil_append, List.cons_append]
  rw [setKey_overwrite]

/-- a NAME VALUE option (the named-argument flags) -/
def PairsFlag (t : Table) (k : Str) (n : Str) : Prop :=
  '=' ∉ k ∧ looksLikeFlag k = true ∧ ∃ o, lookup t k = some (n, o) ∧
    (o.string || o.array || o.object) = false ∧ o.pairs = true

theorem parse_pairs_flag (t : Table) (k n a b : Str) (h : PairsFlag t k n) (rest : List Str) (r : R) (xs : List (Str × Str))
    (hold : getKey n r.parsed = none ∧ xs = [] ∨ getKey n r.parsed = some (.pairs xs)) :
    parseArgs t (k :: a :: b :: rest) r =
      parseArgs t rest { r with parsed := setKey n (fun _ => PV.pairs (xs ++ [(a, b)])) r.parsed } := by
  obtain ⟨hk, hflag, o, hl, h1, h2⟩ := h
  have hdd : k ≠ ['-', '-'] := by
    intro e; subst e; simp [looksLikeFlag] at hflag
  have h3 : o.object = false := by cases ho : o.object <;> simp_all
  have h4 : o.array = false := by cases ho : o.array <;> simp_all
  have h5 : o.string = false := by cases ho : o.string <;> simp_all
  rw [parse_fixpoint]
  rcases hold with ⟨hg, rfl⟩ | hg <;>
    simp [step, argOf, idxEq_none_of_not_mem k hk, hdd, hflag, hl, h2, h3, h4, h5, withArg, updParsed, hg]

/-- pairs_flag_accumulates: repeated named-argument flags of one kind are all kept, in command line order — the
    parser does not pick a winner (that happens in `from_entries`, see `named_arg_later_wins`) -/
theorem pairs_flag_accumulates (t : Table) (k1 k2 n a b c d : Str) (h1 : PairsFlag t k1 n) (h2 : PairsFlag t k2 n)
    (rest : List Str) (r : R) (hfresh : getKey n r.parsed = none) :
    parseArgs t (k1 :: a :: b :: k2 :: c :: d :: rest) r =
      parseArgs t rest { r with parsed := setKey n (fun _ => PV.pairs [(a, b), (c, d)]) r.parsed } := by
  rw [parse_pairs_flag t k1 n a b h1 _ _ [] (Or.inl ⟨hfresh, rfl⟩)]
  rw [parse_pairs_flag t k2 n c d h2 rest _ [(a, b)] (Or.inr (by simp [getKey_setKey_const]))]
  simp only [List.nil_append, List.cons_append]
  rw [setKey_overwrite]

/-- a pairs flag without two following arguments is an argument error (`needs two argument`), see `missing_pair_err` -/
example : argsParse sampleTable [dd "arg", S "a"] = .error (.needsTwo (dd "arg")) := by decide

/-- the KEY=VALUE option (`-o`) -/
def ObjFlag (t : Table) (k : Str) (n : Str) : Prop :=
  '=' ∉ k ∧ looksLikeFlag k = true ∧ ∃ o, lookup t k = some (n, o) ∧ o.object = true

theorem parse_obj_flag (t : Table) (k n kv key val : Str) (h : ObjFlag t k n) (hkv : captureKV kv = some (key, val))
    (rest : List Str) (r : R) (kvs : List (Str × Str))
    (hold : getKey n r.parsed = none ∧ kvs = [] ∨ getKey n r.parsed = some (.obj kvs)) :
    parseArgs t (k :: kv :: rest) r =
      parseArgs t rest { r with parsed := setKey n (fun _ => PV.obj (setKey key (fun _ => val) kvs)) r.parsed } := by
  obtain ⟨hk, hflag, o, hl, h1⟩ := h
  have hdd : k ≠ ['-', '-'] := by
    intro e; subst e; simp [looksLikeFlag] at hflag
  rw [parse_fixpoint]
  rcases hold with ⟨hg, rfl⟩ | hg <;>
    simp [step, argOf, idxEq_none_of_not_mem k hk, hdd, hflag, hl, h1, withArg, updParsed, hg, hkv, setKey]

/-- option_flag_later_wins: `-o key=v1 -o key=v2` ≡ `-o key=v2` — the later `-o` of one key wins -/
theorem option_flag_later_wins (t : Table) (k1 k2 n kv1 kv2 key v1 v2 : Str) (h1 : ObjFlag t k1 n) (h2 : ObjFlag t k2 n)
    (e1 : captureKV kv1 = some (key, v1)) (e2 : captureKV kv2 = some (key, v2)) (rest : List Str) (r : R)
    (kvs : List (Str × Str)) (hold : getKey n r.parsed = none ∧ kvs = [] ∨ getKey n r.parsed = some (.obj kvs)) :
    parseArgs t (k1 :: kv1 :: k2 :: kv2 :: rest) r = parseArgs t (k2 :: kv2 :: rest) r := by
  rw [parse_obj_flag t k1 n kv1 key v1 h1 e1 _ r kvs hold]
  rw [parse_obj_flag t k2 n kv2 key v2 h2 e2 rest _ (setKey key (fun _ => v1) kvs)
    (Or.inr (by simp [getKey_setKey_const]))]
  rw [parse_obj_flag t k2 n kv2 key v2 h2 e2 rest r kvs hold]
  simp only []
  rw [setKey_overwrite, setKey_overwrite]

/-- `-o` settings of different keys commute -/
theorem option_flags_commute (t : Table) (k1 k2 n kv1 kv2 key1 key2 v1 v2 : Str) (h1 : ObjFlag t k1 n) (h2 : ObjFlag t k2 n)
    (e1 : captureKV kv1 = some (key1, v1)) (e2 : captureKV kv2 = some (key2, v2)) (hne : key1 ≠ key2) (rest : List Str) (r : R)
    (kvs : List (Str × Str)) (hold : getKey n r.parsed = none ∧ kvs = [] ∨ getKey n r.parsed = some (.obj kvs)) :
    parseArgs t (k1 :: kv1 :: k2 :: kv2 :: rest) r = parseArgs t (k2 :: kv2 :: k1 :: kv1 :: rest) r := by
  rw [parse_obj_flag t k1 n kv1 key1 v1 h1 e1 _ r kvs hold]
  rw [parse_obj_flag t k2 n kv2 key2 v2 h2 e2 rest _ (setKey key1 (fun _ => v1) kvs) (Or.inr (by simp [getKey_setKey_const]))]
  rw [parse_obj_flag t k2 n kv2 key2 v2 h2 e2 _ r kvs hold]
  rw [parse_obj_flag t k1 n kv1 key1 v1 h1 e1 rest _ (setKey key2 (fun _ => v2) kvs) (Or.inr (by simp [getKey_setKey_const]))]
  simp only []
  rw [setKey_overwrite, setKey_overwrite, setKey_comm key2 key1 (fun e => hne e.symm)]

example : ValueFlag sampleTable (S "-d") (S "decode_group") ∧ ValueFlag sampleTable (dd "decode") (S "decode_group") ∧
    ArrayFlag sampleTable (S "-L") (S "include_path") ∧ PairsFlag sampleTable (dd "arg") (S "arg") ∧
    ObjFlag sampleTable (S "-o") (S "option") ∧ captureKV (S "slurp=true") = some (S "slurp", S "true") := by
  refine ⟨⟨by decide, by decide, mkOpt "decode_group" (some "-d") (some "decode") "s", by decide, by decide⟩,
    ⟨by decide, by decide, mkOpt "decode_group" (some "-d") (some "decode") "s", by decide, by decide⟩,
    ⟨by decide, by decide, mkOpt "include_path" (some "-L") (some "include-path") "a", by decide, by decide⟩,
    ⟨by decide, by decide, mkOpt "arg" none (some "arg") "p", by decide, by decide⟩,
    ⟨by decide, by decide, mkOpt "option" (some "-o") (some "option") "o", by decide, by decide⟩, by decide⟩

/-- evaluated: later `-d` wins in either form; `-L` accumulates; the named-argument flag accumulates; later `-o` of a key wins -/
example :
    argsParse sampleTable [S "-d", S "mp3", dd "decode=png", S "-L", S "a", dd "include-path", S "b", dd "arg", S "x", S "1",
        dd "arg", S "x", S "2", S "-o", S "slurp=1", dd "option=slurp=0", S "-o", S "depth=3"] =
      .ok { parsed := [(S "arg", .pairs [(S "x", S "1"), (S "x", S "2")]), (S "decode_group", .str (S "png")),
                       (S "include_path", .arr [S "a", S "b"]), (S "option", .obj [(S "depth", S "3"), (S "slurp", S "0")])],
            rest := [] } := by decide

/-! ### the merge of init.jq:188-195 -/

/-- merge_lookup: the value of EVERY option key after
    `_opt_build_default_fixed + $parsed_args + (-o options) | . + _opt_eval($rest)` is the first that exists of
    derived value (`_opt_eval`), `-o key=value`, dedicated flag, built-in default — by the position of the operands
    of `+`, not by the position of the flags on the command line -/
theorem merge_lookup (dflt pj o over : JObj) (k : Str) :
    getKey k (objAdd (objAdd (objAdd dflt pj) o) over) =
      (getKey k over.reverse).or ((getKey k o.reverse).or ((getKey k pj.reverse).or (getKey k dflt))) := by
  rw [getKey_objAdd, getKey_objAdd, getKey_objAdd]

/-- `-o key=value` beats the dedicated flag wherever the two stand: `-n -o null_input=false` and
    `-o null_input=false -n` both read the input -/
theorem option_beats_flag (dflt pj o : JObj) (k : Str) (v : JV) (h : getKey k o.reverse = some v) :
    getKey k (objAdd (objAdd dflt pj) o) = some v := by
  rw [getKey_objAdd, h]; rfl

/-- the dedicated flag beats the built-in default; an option nobody sets keeps its default -/
theorem flag_beats_default (dflt pj o : JObj) (k : Str) (ho : getKey k o.reverse = none) :
    getKey k (objAdd (objAdd dflt pj) o) = (getKey k pj.reverse).or (getKey k dflt) := by
  rw [getKey_objAdd, getKey_objAdd, ho]; rfl

/-- the value text `true` means JSON true for a key typed boolean in `_opt_options` and for a key that is not
    listed there at all ("fuzzy"), i.e. for EVERY boolean flag name of the CLI table, whether its option name is a
    display option (`compact`) or only an input of `_opt_eval` (`color_output`, `join_output`) -/
theorem conv_true (ty : Option String) (h : ty = some "boolean" ∨ ty = none) :
    convOne ty "true".toList = .ok (some (.bool true)) := by
  rcases h with rfl | rfl <;> rfl

/-- flag_eq_option_partial: for EVERY option name `n` whose type is boolean or unlisted (the driver checks this for every
    boolean entry of fq's table on the header line) the dedicated flag and `-o n=true` give the same merged options,
    key by key, except for the key `option` itself (which records the `-o` settings): here for parse results that
    differ exactly as the two forms make them differ when no other `-o` names `n`.
    FULL statement (not proved as one theorem): for all `pre`, `post`, `argsParse (pre ++ flag :: post)` and
    `argsParse (pre ++ -o :: n=true :: post)` merge to objects that agree on every key but `option`, provided no `-o n=…`
    occurs in `pre`/`post`.  Missing: the simulation through the parser for `post` (the parser lemmas
    `parse_bool_flag`, `parse_obj_flag`, `option_flags_commute` give each step); validated by the `ometa` cases. -/
theorem flag_eq_option_partial (dflt : JObj) (ot : OTypes) (n : Str)
    (hty : getKey n ot = some "boolean" ∨ getKey n ot = none)
    (pj1 o1 pj2 o2 : JObj)
    -- command line 1: the dedicated flag, no `-o n=…`
    (hf1 : getKey n pj1.reverse = some (.bool true)) (ho1 : getKey n o1.reverse = none)
    -- command line 2: `-o n=true` (the last `-o` for n)
    (ho2 : getKey n o2.reverse = some (.bool true))
    -- otherwise the same
    (hpj : ∀ k, k ≠ n → k ≠ "option".toList → getKey k pj1.reverse = getKey k pj2.reverse)
    (ho : ∀ k, k ≠ n → getKey k o1.reverse = getKey k o2.reverse)
    (k : Str) (hk : k ≠ "option".toList) :
    getKey k (objAdd (objAdd dflt pj1) o1) = getKey k (objAdd (objAdd dflt pj2) o2) ∧
    cliArgToOptions ot [(n, "true".toList)] = .ok [(n, .bool true)] := by
  constructor
  · simp only [getKey_objAdd]
    by_cases h : k = n
    · subst h
      rw [ho1, ho2, hf1]; rfl
    · rw [ho k h, hpj k h hk]
  · rcases hty with h | h <;> (unfold cliArgToOptions; rw [h]; rfl)

/-- mistyped_option_dropped: a value that is not of the key's type is DROPPED without a message (options.jq:368
    `select(.value != null)`): `-o slurp=yes` changes nothing and the exit status stays 0.  Modelled as is. -/
theorem mistyped_option_dropped (ot : OTypes) (k : Str) (hb : getKey k ot = some "boolean") (tl : List (Str × Str)) :
    cliArgToOptions ot ((k, "yes".toList) :: tl) = cliArgToOptions ot tl := by
  have : convOne (some "boolean") "yes".toList = .ok none := rfl
  simp only [cliArgToOptions, hb, this]
  cases cliArgToOptions ot tl <;> rfl

example : cliArgToOptions [(S "slurp", "boolean"), (S "depth", "number")]
    [(S "depth", S "3"), (S "slurp", S "yes"), (S "whatever", S "1")] = .ok [(S "depth", .num 3), (S "whatever", .num 1)] := rfl

/-! ### positional classification -/

/-- from_file_positionals_are_files: with a program file (`-f`, the long form, `-o expr_file=`) EVERY positional is an input
    file — the first one is not the program -/
theorem from_file_positionals_are_files (m : JObj) (rest : List Str) (h : (jget m "expr_file").truthy = true) :
    positionalFiles m rest = rest := by simp [positionalFiles, h]

/-- … without one the first positional is the program and the others are the input files -/
theorem first_positional_is_program (m : JObj) (p : Str) (files : List Str) (h : (jget m "expr_file").truthy = false) :
    positionalFiles m (p :: files) = files := by simp [positionalFiles, h]

/-- repl_without_files_is_null_input: the interactive flag with no positional input file forces null input, and never
    otherwise changes it (derived value null = "keep what flags and -o said") -/
theorem repl_without_files_is_null_input (m : JObj) (rest : List Str) :
    replNullInput m rest = (if positionalFiles m rest = [] ∧ (jget m "repl").truthy = true then JV.bool true else JV.null) := by
  unfold replNullInput
  cases positionalFiles m rest <;> cases (jget m "repl").truthy <;> simp

example : positionalFiles [(S "expr_file", .str (S "p.jq"))] (A ["a.json", "b.json"]) = A ["a.json", "b.json"] ∧
    positionalFiles [] (A [".", "a.json", "b.json"]) = A ["a.json", "b.json"] ∧
    replNullInput [(S "repl", .bool true)] (A ["."]) = .bool true ∧
    replNullInput [(S "repl", .bool true)] (A [".", "a.json"]) = .null ∧
    replNullInput [(S "expr_file", .str (S "p.jq")), (S "repl", .bool true)] (A ["a.json"]) = .null := by decide

/-! ### help / version short-circuit, and what comes before it -/

/-- arg_error_before_help: an argument error is status 2 whatever else is on the command line (help and version included),
    in every world -/
theorem arg_error_before_help (t : Table) (c : Codes) (dflt : JObj) (ot : OTypes) (w : World) (argv : List Str) (e : Err)
    (h : argsParse t argv = .error e) : mainModel t c dflt ot w argv = .ok (fatalPred c) := by
  simp [mainModel, mainDecide, h]

/-- help_short_circuit: once the arguments parse and `_opt_eval` raises no file error, a truthy `show_help` means status 0 with
    nothing read, nothing run, nothing reported — whatever program, inputs, `--argdecode` paths are named -/
theorem help_short_circuit (t : Table) (c : Codes) (dflt : JObj) (ot : OTypes) (w : World) (argv : List Str) (r : R) (m : JObj)
    (h1 : argsParse t argv = .ok r) (h2 : mergeOptions dflt ot w r = .ok (.ok m)) (h3 : (jget m "show_help").truthy = true) :
    mainModel t c dflt ot w argv = .ok quietPred := by
  simp [mainModel, mainDecide, h1, h2, h3]

/-- version_short_circuit: the same for `show_version`, which is tested AFTER `show_help` (both given: help) -/
theorem version_short_circuit (t : Table) (c : Codes) (dflt : JObj) (ot : OTypes) (w : World) (argv : List Str) (r : R) (m : JObj)
    (h1 : argsParse t argv = .ok r) (h2 : mergeOptions dflt ot w r = .ok (.ok m)) (h3 : (jget m "show_version").truthy = true) :
    mainModel t c dflt ot w argv = .ok quietPred := by
  by_cases hh : (jget m "show_help").truthy = true
  · exact help_short_circuit t c dflt ot w argv r m h1 h2 hh
  · simp [mainModel, mainDecide, h1, h2, h3, hh]

/-- … but a file error inside `_opt_eval` (program file, raw-file path, bad JSON text, `-o k=@path`) is status 2 even with help -/
theorem opt_eval_error_before_help (t : Table) (c : Codes) (dflt : JObj) (ot : OTypes) (w : World) (argv : List Str) (r : R)
    (h1 : argsParse t argv = .ok r) (h2 : mergeOptions dflt ot w r = .ok .fatal) :
    mainModel t c dflt ot w argv = .ok (fatalPred c) := by
  simp [mainModel, mainDecide, h1, h2]

/-! ### named arguments -/

/-- named_arg_later_wins: of several bindings of one name the LAST in the list `arg ++ argjson ++ raw_file ++ argdecode` wins -/
theorem named_arg_later_wins (l : List (Str × Src)) (n : Str) (s : Src) : bindOf (l ++ [(n, s)]) n = some s := by
  simp [bindOf]

/-- named_arg_kind_precedence: the list is built kind by kind (init.jq:234-237), so between kinds the order is fixed —
    decode-file over raw-file over JSON over string — wherever the flags stand on the command line -/
theorem named_arg_kind_precedence (a j r d : List (Str × Src)) (n : Str) :
    bindOf (a ++ j ++ r ++ d) n = (bindOf d n).or ((bindOf r n).or ((bindOf j n).or (bindOf a n))) := by
  rw [bindOf_append, bindOf_append, bindOf_append]

example : bindOf ([(S "a", Src.arg (S "1")), (S "a", .arg (S "2"))] ++ [(S "a", .json (S "3"))] ++ [] ++ []) (S "a") = some (.json (S "3")) ∧
    bindOf [(S "a", Src.arg (S "1")), (S "a", .arg (S "2"))] (S "a") = some (.arg (S "2")) ∧
    bindOf [(S "a", Src.arg (S "1"))] (S "b") = none := by decide

/-- decode_file_failure_is_args_error: a decode-file path that cannot be opened or decoded is status 2 with one fatal
    report and NO input processed — whatever the inputs and the program are (it halts before they are looked at) -/
theorem decode_file_failure_is_args_error (c : Codes) (w : World) (m : JObj) (o : Opts) (fmt : FmtKind) (bl : List (Str × Src))
    (hf : fmtOf w o = .ok fmt) (hb : bindList m = .ok bl) (hd : argdecodeFails w fmt bl = .ok true) :
    runModel c w m o = .ok (fatalPred c) := by
  simp [runModel, hf, hb, hd]

/-- a world where the decode-file path `miss` cannot be opened: status 2 whatever inputs are named -/
example : runModel fqCodes { toks := [{ name := S "miss", fk := .missing, pc := .unknown, cc := .unknown, jsonOk := false, fmt := .invalid }], stdin := .jobj }
    [(S "arg", .pairs []), (S "argjson", .pairs []), (S "raw_file", .pairs []), (S "argdecode", .pairs [(S "x", S "miss")])]
    { exprFile := none, exprArg := some (S "."), filenames := [some (S "a.json")], nullInput := false, slurp := false, stringInput := false,
      repl := false, showHelp := false, showVersion := false, decodeGroup := S "probe" } = .ok (fatalPred fqCodes) := rfl

end Props.C17
