import FqModel.Isolation
import FqModel.Gen.Globals
import Proofs.C18Isolation
/-!
  C18 — decoding is deterministic, isolated and race-free   (claimed PARTIAL, manifest category `other`)

  Full statement: decoding is a pure function of the input bytes, the format and the options;
  repeated, interleaved or concurrent decodes in one process — any order, any number of threads — give
  byte-identical results to a lone run, leak no state from one input to the next, and contain no
  data races.

  What is proved here, and what is not:
    (A) REGENERATED FACTS about /repo's source (FqModel/Gen/Globals.lean, rewritten by
        /verif/extract/c18globals on every run; `decide` re-checks them):
          `globals_ok` / `globals_once`  every write to a package-level variable in a function body
                                         other than the straight-line body of `init` is allow-listed
                                         below AND executes only under a sync.Once / at init time;
          `ptrcalls_ok`                  every pointer-receiver method called on a package-level variable is
                                         one of a justified list of read-only / internally synchronised methods;
          `other_calls_ok`, `no_iface_calls`   every interface / value-receiver method selected on a package-level
                                         variable is allow-listed after reading its body; none is an interface method
                                         (a package-level hash.Hash / io.Writer used by a decoder would appear here);
          `call_init_ok`                 every package-level variable initialised by a function call and used in
                                         function bodies is of an immutable / concurrency-safe type;
          `guarded_types_ok`, `guarded_uses_ok`   every access outside Once literals to a field of the process-wide
                                         lock-owning types (interp.Registry, lazyre.RE) is under the lock, at init
                                         time, or after the accessor's own Once.Do (no unsynchronised fast path);
          `addr_types_ok`, `type_writes_ok`   the only globals whose address escapes are `decode.Group`s,
                                         and the only code in the whole module that assigns a field of a
                                         decode.Group / decode.Format / decode.Dependency / interp.Registry is
                                         registration (init time) or the Once body of resolveGroups;
          (`guard` of a site = when it can execute, computed by the extractor from the module's call graph:
                                         init-only, Once-only, or any time)
          `unlinked_ok`, `scan_not_empty`.
        These discharge the hypothesis `NoWrite` of (B) for the code as it is — up to the stated limits of a
        syntactic/type-level scan (no pointer analysis: a write through a local alias of a global map or
        slice, or through a library call such as `slices.SortFunc(g, …)`, is visible only to the race detector).
    (B) MODEL THEOREMS (FqModel/Isolation.lean), for ALL schedules, job lists and step programs:
          `resolve_idempotent_deterministic`, `steps_commute`, `interleaving_pure`,
          `interleaving_eq_sequential`, `interleaving_result_eq_alone`, `same_job_same_result`,
          `job_state_private` (readBuf_private), and the necessity witness `write_breaks_isolation`.
    NOT proved (the PARTIAL part): that the Go program refines the model — the Go memory model is outside
    the logic; atomicity of steps and the happens-before edges of Once/Mutex are monitored at run time by
    the race detector (harness c18, built with -race), together with byte-for-byte output comparison.
-/
namespace Props.C18
open FqModel FqModel.Isolation Proofs.C18

/-! ## (A) regenerated facts -/

/-- Allow-list of write sites, entry by entry.

  1. format/wasm `instrMap[opcodeBlock|opcodeLoop|opcodeIf] = …` in the literal passed to
     `instrMapOnce.Do` at the top of `decodeWASM` (wasm.go:601-605).  Once-guarded; the three stored
     values are constants (mnemonic + function value), so the write is idempotent; every reader of
     `instrMap` runs below `decodeWASM`, i.e. after its own `Do` returned (happens-before by sync.Once).
     `instrMap` is an array/map indexed by opcode that is otherwise filled by its initialiser. -/
def allowlist : List Gen.GlobalWrite := [
  ⟨"format/wasm", "instrMap", "", "index", "once:format/wasm.instrMapOnce"⟩
]

theorem globals_ok : ∀ w ∈ Gen.writes, w ∈ allowlist := by decide

/-- the hypothesis of the interleaving theorems in the form they use it: the shared write-set is ⊆ {Once} -/
theorem globals_once : ∀ w ∈ Gen.writes, w.guard ≠ "run" := by decide

/-- Pointer-receiver methods that are called on package-level variables, each judged by reading it:

  * `*regexp.Regexp.{Match,MatchString,ReplaceAllStringFunc}` — "A Regexp is safe for concurrent use by
    multiple goroutines" (package regexp documentation); `whitespaceRE` (format/xml) and `camelToSnakeRe`
    (internal/mapstruct) are compiled by their package initialisers.
  * `*lazyre.RE.Must` — internal/lazyre/lazyre.go:25-32: takes `lr.m.Lock()`, compiles once, returns the
    `*regexp.Regexp`; a mutex-guarded compile-once cell (modelled as a Once cell).
  * `*luajit.BcDef.{HasD,IsJump}` — format/luajit/opcodes.go:32-38: `return op.MB == BcMnone` /
    `return op.MC == BcMjump`; read-only, pointer receiver only by style.
  * `*os.File.{Fd,Write}` on os.Stdin/Stdout/Stderr — pkg/cli's real-OS adapter, not used by decoding;
    *os.File methods are safe for concurrent use (internal/poll.FD locks).
  * `*interp.Registry.{Format,FS,Func}` on `DefaultRegistry` — registration; only reachable through
    `interp.Register*`, which are called from straight-line `init` bodies only (guard `init`, from the extractor's call graph;
    `unref` = `RegisterIter0`, which nothing in the module calls) — `registry_ptrcalls_only_default`;
    `Registry.Format` moreover panics once the registry is resolved (registry.go:39-42). -/
def safeMethods : List String := [
  "*regexp.Regexp.Match",
  "*regexp.Regexp.MatchString",
  "*regexp.Regexp.ReplaceAllStringFunc",
  "*github.com/wader/fq/internal/lazyre.RE.Must",
  "*github.com/wader/fq/format/luajit.BcDef.HasD",
  "*github.com/wader/fq/format/luajit.BcDef.IsJump",
  "*os.File.Fd",
  "*os.File.Write",
  "*github.com/wader/fq/pkg/interp.Registry.Format",
  "*github.com/wader/fq/pkg/interp.Registry.FS",
  "*github.com/wader/fq/pkg/interp.Registry.Func"
]

theorem ptrcalls_ok : ∀ c ∈ Gen.ptrCalls, c.method ∈ safeMethods := by decide

/-- registration methods are called on `DefaultRegistry` only, and only at init time -/
theorem registry_ptrcalls_only_default :
    ∀ c ∈ Gen.ptrCalls, c.method ∈ ["*github.com/wader/fq/pkg/interp.Registry.Format",
        "*github.com/wader/fq/pkg/interp.Registry.FS", "*github.com/wader/fq/pkg/interp.Registry.Func"] →
      c.pkg = "pkg/interp" ∧ c.var = "DefaultRegistry" ∧ c.guard ∈ ["init", "unref"] := by decide

/-- Methods WITHOUT a pointer receiver selected on package-level variables — interface methods (dynamic
    dispatch: may mutate whatever the interface holds; a package-level `hash.Hash32` whose `Write`/`Sum` is
    called from a decoder is exactly such a state leak) and value-receiver methods (may mutate through a map,
    slice or pointer inside the value).  Entry by entry, each body read:

  * `encoding/binary.{bigEndian,littleEndian}.{Uint16,Uint32,Uint64,PutUint32,PutUint64}` on
    `binary.BigEndian`/`LittleEndian`: zero-size stateless structs; the methods only touch their argument slice.
  * `time.Time.Add` on the epoch constants (`epochDate`, `unixTimeEpochDate`): returns a new Time.
  * `elf.dynamicTableEntries.lookup` (elf.go:410-417): a `for … range d` that compares and returns a copy.
  * `scalar.UintMap.MapUint`, `scalar.UintMapSymStr.MapUint` (scalar_gen.go:1726-1732, 1777-1782): one map read
    `m[s.Actual]`, result copied into the by-value argument.
  * `embed.FS.Open` on `builtinFS` (pkg/interp): read-only embedded file system, safe for concurrent use.
  There is NO interface-typed entry (`kind = "iface"`) on the current tree — `no_iface_calls`. -/
def otherCallAllow : List Gen.OtherCall := [
  ⟨"format/bzip2", "encoding/binary.BigEndian", "encoding/binary.bigEndian.Uint32", "value", "run"⟩,
  ⟨"format/elf", "dynamicTableMap", "github.com/wader/fq/format/elf.dynamicTableEntries.lookup", "value", "run"⟩,
  ⟨"format/fit/mappers", "epochDate", "time.Time.Add", "value", "run"⟩,
  ⟨"format/inet", "encoding/binary.BigEndian", "encoding/binary.bigEndian.PutUint32", "value", "run"⟩,
  ⟨"format/inet", "encoding/binary.BigEndian", "encoding/binary.bigEndian.PutUint64", "value", "run"⟩,
  ⟨"format/inet", "format.IPv4ProtocolMap", "github.com/wader/fq/pkg/scalar.UintMap.MapUint", "value", "run"⟩,
  ⟨"format/inet", "nextHeaderNames", "github.com/wader/fq/pkg/scalar.UintMapSymStr.MapUint", "value", "run"⟩,
  ⟨"format/inet/flowsdecoder", "encoding/binary.BigEndian", "encoding/binary.bigEndian.Uint16", "value", "run"⟩,
  ⟨"format/luajit", "encoding/binary.BigEndian", "encoding/binary.bigEndian.PutUint64", "value", "run"⟩,
  ⟨"format/mp4", "encoding/binary.BigEndian", "encoding/binary.bigEndian.PutUint32", "value", "run"⟩,
  ⟨"format/pcap", "encoding/binary.BigEndian", "encoding/binary.bigEndian.PutUint32", "value", "run"⟩,
  ⟨"format/postgres/common", "encoding/binary.LittleEndian", "encoding/binary.littleEndian.Uint32", "value", "run"⟩,
  ⟨"format/tar", "unixTimeEpochDate", "time.Time.Add", "value", "run"⟩,
  ⟨"pkg/decode", "encoding/binary.BigEndian", "encoding/binary.bigEndian.Uint16", "value", "run"⟩,
  ⟨"pkg/decode", "encoding/binary.BigEndian", "encoding/binary.bigEndian.Uint32", "value", "run"⟩,
  ⟨"pkg/decode", "encoding/binary.BigEndian", "encoding/binary.bigEndian.Uint64", "value", "run"⟩,
  ⟨"pkg/interp", "builtinFS", "embed.FS.Open", "value", "run"⟩
]

/-- the `encoding/binary` byte orders are justified by what they ARE (zero-size stateless structs whose
    value-receiver methods only touch their argument slice), not by where they are used: a new use in another
    package (the tar base-256 fix added one in format/tar) needs no new entry.  The method must be one of the
    read/write accessors listed. -/
def statelessByteOrderCall (c : Gen.OtherCall) : Bool :=
  c.kind == "value" &&
  ((c.var == "encoding/binary.BigEndian" &&
      c.method ∈ ["encoding/binary.bigEndian.Uint16", "encoding/binary.bigEndian.Uint32", "encoding/binary.bigEndian.Uint64",
        "encoding/binary.bigEndian.PutUint16", "encoding/binary.bigEndian.PutUint32", "encoding/binary.bigEndian.PutUint64"]) ||
   (c.var == "encoding/binary.LittleEndian" &&
      c.method ∈ ["encoding/binary.littleEndian.Uint16", "encoding/binary.littleEndian.Uint32", "encoding/binary.littleEndian.Uint64",
        "encoding/binary.littleEndian.PutUint16", "encoding/binary.littleEndian.PutUint32", "encoding/binary.littleEndian.PutUint64"]))

theorem other_calls_ok : ∀ c ∈ Gen.otherCalls, c ∈ otherCallAllow ∨ statelessByteOrderCall c = true := by decide

/-- no method of an INTERFACE-typed package-level variable is selected anywhere outside init -/
theorem no_iface_calls : ∀ c ∈ Gen.otherCalls, c.kind ≠ "iface" := by decide

/-- Package-level variables initialised by a function CALL (possibly stateful objects: hashers, buffers,
    decoders) and used inside function bodies.  Judged by type and constructor:

  * `time.Time` from `time.Date` (cocoaTimeEpochDate ×2, epochDate, unixTimeEpochDate ×2): immutable value.
  * `scalar.SintFn` / `scalar.UintFn` from `scalar.*ActualDateDescription`: function values closing over an epoch
    and a format string only (pkg/scalar/scalar.go), no captured mutable state.
  * `*regexp.Regexp` from `regexp.MustCompile` (whitespaceRE, camelToSnakeRe): safe for concurrent use.
  * `ansi.Code` from `MakeCode`: a struct of two strings.
  * `*big.Int` `mathx.BigIntOne`: only ever an OPERAND (`n.Sub(n, BigIntOne)`, `new(big.Int).Lsh(BigIntOne, …)`,
    cbor.go:120, big.go:10), never a receiver — and a pointer-receiver call on it would appear in `Gen.ptrCalls`.
  * `error` from `errors.New` (ErrOffset, ErrNegativeNBits, ErrWalk*, ErrInterrupt): immutable sentinels.
  * `checksum.Table` from `MakeTable`: `[256]uint` array VALUE, indexed read-only (writes would be in `Gen.writes`).
  * `encoding.Encoding` from `unicode.UTF16` (UTF16BOM/BE/LE): x/text encodings are immutable descriptors;
    state lives in the Decoder that `NewDecoder()` allocates per call (pkg/decode/read.go).
  * `*interp.Registry` `DefaultRegistry` from `NewRegistry`: the registry itself — `ptrcalls_ok`,
    `type_writes_ok`, `guarded_uses_ok`. -/
def callInitAllow : List Gen.CallInit := [
  ⟨"format/apple/bookmark", "cocoaTimeEpochDate", "time.Time", "time.Date"⟩,
  ⟨"format/apple/bplist", "cocoaTimeEpochDate", "time.Time", "time.Date"⟩,
  ⟨"format/fit/mappers", "epochDate", "time.Time", "time.Date"⟩,
  ⟨"format/matroska", "sintActualMatroskaEpochDescription", "github.com/wader/fq/pkg/scalar.SintFn", "scalar.SintActualDateDescription"⟩,
  ⟨"format/mp4", "uintActualQuicktimeEpochDescription", "github.com/wader/fq/pkg/scalar.UintFn", "scalar.UintActualDateDescription"⟩,
  ⟨"format/tar", "unixTimeEpochDate", "time.Time", "time.Date"⟩,
  ⟨"format/xml", "whitespaceRE", "*regexp.Regexp", "regexp.MustCompile"⟩,
  ⟨"internal/ansi", "Reset", "github.com/wader/fq/internal/ansi.Code", "MakeCode"⟩,
  ⟨"internal/mapstruct", "camelToSnakeRe", "*regexp.Regexp", "regexp.MustCompile"⟩,
  ⟨"internal/mathx", "BigIntOne", "*math/big.Int", "big.NewInt"⟩,
  ⟨"pkg/bitio", "ErrNegativeNBits", "error", "errors.New"⟩,
  ⟨"pkg/bitio", "ErrOffset", "error", "errors.New"⟩,
  ⟨"pkg/checksum", "ANSI16Table", "github.com/wader/fq/pkg/checksum.Table", "MakeTable"⟩,
  ⟨"pkg/checksum", "ATM8Table", "github.com/wader/fq/pkg/checksum.Table", "MakeTable"⟩,
  ⟨"pkg/checksum", "Poly04c11db7Table", "github.com/wader/fq/pkg/checksum.Table", "MakeTable"⟩,
  ⟨"pkg/decode", "ErrWalkBreak", "error", "errors.New"⟩,
  ⟨"pkg/decode", "ErrWalkSkipChildren", "error", "errors.New"⟩,
  ⟨"pkg/decode", "ErrWalkStop", "error", "errors.New"⟩,
  ⟨"pkg/decode", "UTF16BE", "golang.org/x/text/encoding.Encoding", "unicode.UTF16"⟩,
  ⟨"pkg/decode", "UTF16BOM", "golang.org/x/text/encoding.Encoding", "unicode.UTF16"⟩,
  ⟨"pkg/decode", "UTF16LE", "golang.org/x/text/encoding.Encoding", "unicode.UTF16"⟩,
  ⟨"pkg/interp", "DefaultRegistry", "*github.com/wader/fq/pkg/interp.Registry", "NewRegistry"⟩,
  ⟨"pkg/interp", "ErrInterrupt", "error", "errors.New"⟩,
  ⟨"pkg/scalar", "unixTimeEpochDate", "time.Time", "time.Date"⟩
]

theorem call_init_ok : ∀ v ∈ Gen.callInitVars, v ∈ callInitAllow := by decide

/-- Struct types that own a sync.Once / sync.Mutex / sync.RWMutex.  `interp.Registry` and `lazyre.RE` are
    reachable from package-level variables (process-wide); `tlsdecrypt.halfConn` is allocated per TLS decode
    (format/tls) and `ctxstack.Stack` per Interp (property C20) — neither is stored in a package-level variable
    (`Gen.callInitVars`, `Gen.writes`, `Gen.ptrCalls` would show it). -/
def guardedTypesKnown : List String := [
  "github.com/wader/fq/format/tls/tlsdecrypt.halfConn", "github.com/wader/fq/internal/ctxstack.Stack",
  "github.com/wader/fq/internal/lazyre.RE", "github.com/wader/fq/pkg/interp.Registry"]

theorem guarded_types_ok : ∀ t ∈ Gen.guardedTypes, t ∈ guardedTypesKnown := by decide

/-- Every access to a field of the two PROCESS-WIDE lock-owning types that is outside `init` bodies and
    outside the literal passed to `Once.Do` needs its own reason why it cannot race with the Once body:

  * lazyre.RE `S`, `m`, `re` in `(*RE).Must` (lazyre.go:24-29): all between `lr.m.Lock()` and the deferred Unlock.
  * Registry `EnvFuncFns` in `(*Interp).Eval`, `FSs` in `(*Interp)._registry`: read-only after init
    (written by `Registry.Func`/`FS`, init time only — `type_writes_ok`), never touched by the Once body.
  * Registry `EnvFuncFns`/`FSs`/`allGroup`/`groups`/`formatResolved` in `(*Registry).Func`/`FS`/`Format`:
    registration, init time only.
  * Registry `groups` in `(*Registry).Group`, `(*Registry).Groups`, `allGroup` in `(*Registry).MustAll`:
    each calls `r.resolveGroups()` first (registry.go:104, 120, 125), so the read happens after its own `Do`
    returned (happens-before by sync.Once).
  In particular NO function reads `formatResolved` beside the init-time guard in `Format`: an unsynchronised
  fast path `if r.formatResolved { return }` in front of `Do` (broken double-checked locking) would be a new
  entry here. -/
def guardedUseAllow : List Gen.GuardedUse := [
  ⟨"github.com/wader/fq/internal/lazyre.RE", "S", "internal/lazyre", "(*RE).Must", "run"⟩,
  ⟨"github.com/wader/fq/internal/lazyre.RE", "m", "internal/lazyre", "(*RE).Must", "run"⟩,
  ⟨"github.com/wader/fq/internal/lazyre.RE", "re", "internal/lazyre", "(*RE).Must", "run"⟩,
  ⟨"github.com/wader/fq/pkg/interp.Registry", "EnvFuncFns", "pkg/interp", "(*Interp).Eval", "run"⟩,
  ⟨"github.com/wader/fq/pkg/interp.Registry", "FSs", "pkg/interp", "(*Interp)._registry", "run"⟩,
  ⟨"github.com/wader/fq/pkg/interp.Registry", "allGroup", "pkg/interp", "(*Registry).MustAll", "run"⟩,
  ⟨"github.com/wader/fq/pkg/interp.Registry", "groups", "pkg/interp", "(*Registry).Group", "run"⟩,
  ⟨"github.com/wader/fq/pkg/interp.Registry", "groups", "pkg/interp", "(*Registry).Groups", "run"⟩
]

/-- accesses that can only execute at init time (guard `init`, computed from the call graph: the registration
    methods) need no entry; every access that can execute at run time is allow-listed above -/
theorem guarded_uses_ok :
    ∀ u ∈ Gen.guardedUses,
      u.typ ∈ ["github.com/wader/fq/internal/lazyre.RE", "github.com/wader/fq/pkg/interp.Registry"] →
      u.guard = "init" ∨ u ∈ guardedUseAllow := by decide

/-- The only package-level variables whose address is taken outside `init` are `decode.Group`s
    (`d.FieldFormat("frame", &mp3FrameGroup, nil)` …): pkg/decode only reads `Group.Formats` /
    `Group.DefaultInArg` of the pointer it is given — which `type_writes_ok` checks for the whole module. -/
def allowedAddrTypes : List String := ["github.com/wader/fq/pkg/decode.Group"]

theorem addr_types_ok : ∀ t ∈ Gen.addrTakenTypes, t ∈ allowedAddrTypes := by decide

/-- Every assignment in the linked module code to a field of decode.Group / decode.Format /
    decode.Dependency / interp.Registry (through ANY expression, not only through a global) can execute only
      * at init time — guard `init`: the extractor's call graph shows that the function it stands in
        (`Registry.Format/FS/Func` and whatever helpers they use) is entered only from straight-line `init`
        bodies, directly or through functions that are themselves init-only (`interp.Register*`); or
      * under the registry's Once — guard `once:…Registry.formatResolveOnce`: lexically inside the literal
        passed to `r.formatResolveOnce.Do` or in a function called only from there (helpers extracted from the
        literal keep this guard; a function that escapes as a value or is also called from a decode path gets
        guard `run`).
    `Registry.Format` moreover refuses to run after resolution (registry.go:39-42).  No function names are
    compared: extraction, renaming and reordering of init-time / Once-time code leave the fact unchanged. -/
def sharedWriteGuards : List String := [
  "init", "once:github.com/wader/fq/pkg/interp.Registry.formatResolveOnce"]

theorem type_writes_ok : ∀ w ∈ Gen.typeWrites, w.guard ∈ sharedWriteGuards := by decide

/-- the extractor was asked about the registry-shared types (a changed lib/props/C18.json cannot silently
    drop them) -/
theorem shared_types_asked :
    ∀ t ∈ ["github.com/wader/fq/pkg/decode.Format", "github.com/wader/fq/pkg/decode.Dependency",
           "github.com/wader/fq/pkg/interp.Registry"], t ∈ Gen.extraSharedTypes := by decide

/-- vacuity guard for the call-graph classification: it does find the registry's writes, at init time and
    under the Once (if the classification lost them the table would be empty and `type_writes_ok` vacuous) -/
theorem type_writes_seen :
    (∃ w ∈ Gen.typeWrites, w.typ = "github.com/wader/fq/pkg/decode.Group" ∧ w.guard = "init")
    ∧ (∃ w ∈ Gen.typeWrites, w.typ = "github.com/wader/fq/pkg/decode.Group"
        ∧ w.guard = "once:github.com/wader/fq/pkg/interp.Registry.formatResolveOnce") := by decide

/-- Module packages that are not linked into fq (not reachable from the root package main), hence not scanned
    for the tables above: documentation generator, the matroska EBML code generator (`go:generate` tool),
    test support (difftest, script = the test suite's virtual OS, fqtest), and three helper packages used by
    those only. -/
def allowedUnlinked : List String := [
  "doc", "format/matroska/ebml/gen", "internal/difftest", "internal/hexdump", "internal/profile",
  "internal/script", "internal/shquote", "pkg/fqtest"
]

theorem unlinked_ok : ∀ p ∈ Gen.unlinkedPackages, p ∈ allowedUnlinked := by decide

/-- vacuity guard: the scan really covered the module (126 linked packages on the current tree) -/
theorem scan_not_empty : 100 ≤ Gen.linkedPackages ∧ Gen.linkedPackages ≤ Gen.scannedPackages := by decide

/-! ## (B) model theorems -/

variable {K V G L : Type} [DecidableEq K]

/-- `sync.Once` group resolution (registry.go:77-101) is idempotent and deterministic:
    the value a caller observes is the value the cell has or will ever have (`cellVal`: the stored one,
    else `compute k`) — no matter who called first; the first caller stores exactly that value; later
    calls change nothing and return the same value; other cells are never touched. -/
theorem resolve_idempotent_deterministic (compute : K → V) (cells : K → Option V) (k : K) :
    let r := resolve compute cells k
    r.2 = cellVal compute cells k
    ∧ r.1 k = some r.2
    ∧ resolve compute r.1 k = r
    ∧ (∀ k', k' ≠ k → r.1 k' = cells k')
    ∧ (cells k = none → r.2 = compute k) := by
  simp only
  unfold resolve cellVal
  cases h : cells k with
  | some v => simp [h]
  | none =>
    refine ⟨rfl, by simp [setCell], by simp [setCell], ?_, fun _ => rfl⟩
    intro k' hk'
    simp [setCell, hk']

/-! ### the Once body itself is deterministic although it iterates over a Go map -/

theorem fmtLe_trans (a b c : Fmt) (h1 : fmtLe a b = true) (h2 : fmtLe b c = true) : fmtLe a c = true := by
  unfold fmtLe at *
  by_cases hab : a.probeOrder = b.probeOrder <;> by_cases hbc : b.probeOrder = c.probeOrder
  · have hac : a.probeOrder = c.probeOrder := hab.trans hbc
    simp only [hab, hbc, ↓reduceIte, decide_eq_true_eq] at *
    exact String.le_trans h1 h2
  · simp only [hab, hbc, ↓reduceIte, decide_eq_true_eq] at *
    omega
  · have hac : ¬ a.probeOrder = c.probeOrder := fun e => hab (e.trans hbc.symm)
    simp only [hbc, hac, ↓reduceIte, decide_eq_true_eq] at *
    omega
  · simp only [hab, hbc, ↓reduceIte, decide_eq_true_eq] at h1 h2
    have hac : ¬ a.probeOrder = c.probeOrder := by omega
    simp only [hac, ↓reduceIte, decide_eq_true_eq]
    omega

theorem fmtLe_total (a b : Fmt) : (fmtLe a b || fmtLe b a) = true := by
  unfold fmtLe
  by_cases hab : a.probeOrder = b.probeOrder
  · simp only [hab, ↓reduceIte, Bool.or_eq_true, decide_eq_true_eq]
    exact String.le_total a.name b.name
  · have hba : ¬ b.probeOrder = a.probeOrder := fun e => hab e.symm
    simp only [hab, hba, ↓reduceIte, Bool.or_eq_true, decide_eq_true_eq]
    omega

/-- two formats that compare equal both ways have the same name and probe order -/
theorem fmtLe_antisymm (a b : Fmt) (h1 : fmtLe a b = true) (h2 : fmtLe b a = true) : a = b := by
  unfold fmtLe at *
  by_cases hab : a.probeOrder = b.probeOrder
  · simp only [hab, ↓reduceIte, decide_eq_true_eq] at h1 h2
    have hn := String.le_antisymm h1 h2
    cases a; cases b; simp_all
  · have hba : ¬ b.probeOrder = a.probeOrder := fun e => hab e.symm
    simp only [hab, hba, ↓reduceIte, decide_eq_true_eq] at h1 h2
    omega

/-- ANY list that is sorted by `sortFormats`' comparator and is a permutation of the group is THE
    sorted group: the result does not depend on the sorting algorithm (Go's unstable pdqsort) … -/
theorem any_sort_agrees (l s : List Fmt) (hperm : s.Perm l) (hsorted : s.Pairwise (fun a b => fmtLe a b = true)) :
    s = sortFormats l := by
  apply List.Perm.eq_of_pairwise (le := fun a b => fmtLe a b = true) _ hsorted
  · exact List.pairwise_mergeSort fmtLe_trans fmtLe_total l
  · exact hperm.trans (List.mergeSort_perm l fmtLe).symm
  · intro a b _ _ h1 h2
    exact fmtLe_antisymm a b h1 h2

/-- … nor on the order in which the formats reached the group (Go map iteration order in
    `resolveGroups`, order of the `init` functions): permuted inputs sort to the same list. -/
theorem sortFormats_order_independent (l₁ l₂ : List Fmt) (h : l₁.Perm l₂) : sortFormats l₁ = sortFormats l₂ :=
  any_sort_agrees l₂ (sortFormats l₁) ((List.mergeSort_perm l₁ fmtLe).trans h)
    (List.pairwise_mergeSort fmtLe_trans fmtLe_total l₁)

/-- hypotheses of `any_sort_agrees` are satisfiable; two registration orders, one result -/
example : [⟨"mp4", 50⟩, ⟨"mp3", 100⟩] = sortFormats [⟨"mp3", 100⟩, ⟨"mp4", 50⟩]
    ∧ sortFormats [⟨"mp4", 50⟩, ⟨"mp3", 100⟩] = sortFormats [⟨"mp3", 100⟩, ⟨"mp4", 50⟩] :=
  ⟨any_sort_agrees _ _ (by decide) (by decide), sortFormats_order_independent _ _ (by decide)⟩

/-- whatever other callers did in between, two callers of the same cell observe the same value -/
theorem resolve_same_for_all_callers (compute : K → V) (sched : List Nat) (c : Cfg K V G L) (k : K) :
    (resolve compute (interleave compute sched c).cells k).2 = (resolve compute c.cells k).2 := by
  rw [resolve_val, resolve_val, interleave_cellVal]

/-- Steps of different jobs commute when neither job writes a package-level variable outside Once
    ("shared write-set ⊆ {Once}"): the configurations are EQUAL, not just equivalent. -/
theorem steps_commute (compute : K → V) (i j : Nat) (c : Cfg K V G L) (hij : i ≠ j)
    (hi : ∀ s ∈ (c.job i).prog, s.isWrite = false) (hj : ∀ s ∈ (c.job j).prog, s.isWrite = false) :
    stepJob compute i (stepJob compute j c) = stepJob compute j (stepJob compute i c) := by
  have hji : j ≠ i := fun e => hij e.symm
  have ei : (stepJob compute j c).job i = c.job i := stepJob_job_other compute j i c hij
  have ej : (stepJob compute i c).job j = c.job j := stepJob_job_other compute i j c hji
  have gi : (stepJob compute i c).glob = c.glob := stepJob_glob compute i c hi
  have gj : (stepJob compute j c).glob = c.glob := stepJob_glob compute j c hj
  apply Cfg.ext'
  · rw [stepJob_cells, stepJob_cells, stepJob_cells, stepJob_cells, ei, ej, cellsAfter_comm]
  · rw [stepJob_glob compute i (stepJob compute j c) (by rw [ei]; exact hi),
      stepJob_glob compute j (stepJob compute i c) (by rw [ej]; exact hj), gi, gj]
  · funext n
    by_cases hni : n = i
    · subst hni
      have hl : (stepJob compute n (stepJob compute j c)).job n
          = stepPure (cellVal compute c.cells) c.glob (c.job n) := by
        rw [stepJob_job_self, cellVal_funext, gj, ei]
      have hr : (stepJob compute j (stepJob compute n c)).job n
          = stepPure (cellVal compute c.cells) c.glob (c.job n) := by
        rw [stepJob_job_other compute j n (stepJob compute n c) hij, stepJob_job_self]
      rw [hl, hr]
    · by_cases hnj : n = j
      · subst hnj
        have hl : (stepJob compute i (stepJob compute n c)).job n
            = stepPure (cellVal compute c.cells) c.glob (c.job n) := by
          rw [stepJob_job_other compute i n (stepJob compute n c) hni, stepJob_job_self]
        have hr : (stepJob compute n (stepJob compute i c)).job n
            = stepPure (cellVal compute c.cells) c.glob (c.job n) := by
          rw [stepJob_job_self, cellVal_funext, gi, ej]
        rw [hl, hr]
      · rw [stepJob_job_other compute i n (stepJob compute j c) hni, stepJob_job_other compute j n c hnj,
          stepJob_job_other compute j n (stepJob compute i c) hnj, stepJob_job_other compute i n c hni]

/-- Decoding is a pure function: after ANY schedule (complete or not, any number of other jobs, any
    interleaving) the state of job j is what running `count j sched` of its own steps alone gives — a
    function of its own program and initial state, the immutable tables and the Once values only. -/
theorem interleaving_pure (compute : K → V) (sched : List Nat) (c : Cfg K V G L) (h : NoWrite c) (j : Nat) :
    (interleave compute sched c).job j
      = runSteps (cellVal compute c.cells) c.glob (sched.count j) (c.job j) :=
  interleave_job compute sched c h j

/-- `∀ schedule, result_j (interleave schedule jobs) = result_j (run job_j alone)`, schedule by schedule:
    job j cannot tell the interleaving from the run in which only its own steps are taken. -/
theorem interleaving_eq_sequential (compute : K → V) (sched : List Nat) (c : Cfg K V G L) (h : NoWrite c)
    (j : Nat) :
    (interleave compute sched c).job j = (interleave compute (sched.filter (· == j)) c).job j := by
  rw [interleaving_pure compute sched c h, interleaving_pure compute _ c h, List.count_filter (by simp)]

/-- for a schedule that lets job j finish: its result is `runAlone` — in particular the same for every
    such schedule, every set of other jobs, and whether or not the registry was resolved before -/
theorem interleaving_result_eq_alone (compute : K → V) (sched : List Nat) (c : Cfg K V G L) (h : NoWrite c)
    (j : Nat) (hfin : ((interleave compute sched c).job j).prog = []) :
    ((interleave compute sched c).job j).loc = runAlone (cellVal compute c.cells) c.glob (c.job j) := by
  rw [interleaving_pure compute sched c h] at hfin ⊢
  exact runSteps_of_finished _ _ _ _ hfin

/-- every schedule that gives job j at least `prog.length` turns lets it finish -/
theorem enough_turns_finish (compute : K → V) (sched : List Nat) (c : Cfg K V G L) (h : NoWrite c) (j : Nat)
    (hn : (c.job j).prog.length ≤ sched.count j) : ((interleave compute sched c).job j).prog = [] := by
  rw [interleaving_pure compute sched c h]
  exact runSteps_finished _ _ _ _ hn

/-- the same file decoded many times (same program, same initial state, at two job indices — possibly in
    two different processes/configurations with the same tables): identical results -/
theorem same_job_same_result (compute : K → V) (s₁ s₂ : List Nat) (c₁ c₂ : Cfg K V G L)
    (h₁ : NoWrite c₁) (h₂ : NoWrite c₂) (i j : Nat) (hjob : c₁.job i = c₂.job j) (hg : c₁.glob = c₂.glob)
    (hc : cellVal compute c₁.cells = cellVal compute c₂.cells)
    (f₁ : ((interleave compute s₁ c₁).job i).prog = []) (f₂ : ((interleave compute s₂ c₂).job j).prog = []) :
    ((interleave compute s₁ c₁).job i).loc = ((interleave compute s₂ c₂).job j).loc := by
  rw [interleaving_result_eq_alone compute s₁ c₁ h₁ i f₁, interleaving_result_eq_alone compute s₂ c₂ h₂ j f₂,
    hjob, hg, hc]

/-- readBuf_private / Interp clone / in-args copy: whatever job i does — even a `write` step — the state
    owned by another job j is untouched (it is only ever reachable from j's own steps) -/
theorem job_state_private (compute : K → V) (i j : Nat) (c : Cfg K V G L) (h : j ≠ i) :
    (stepJob compute i c).job j = c.job j :=
  stepJob_job_other compute i j c h

/-- no state leaks through the shared part either: without `write` steps the tables are never changed and
    the Once values are fixed -/
theorem shared_state_fixed (compute : K → V) (sched : List Nat) (c : Cfg K V G L) (h : NoWrite c) :
    (interleave compute sched c).glob = c.glob
    ∧ cellVal compute (interleave compute sched c).cells = cellVal compute c.cells :=
  ⟨interleave_glob compute sched c h, funext (interleave_cellVal compute sched c)⟩

/-! ### the hypothesis is necessary and satisfiable -/

/-- Necessity witness — the seeded defect "ParseOptsFn applies options onto the shared default struct":
    job 0 writes the shared default (a `write` step), job 1 is an ordinary decode that reads it.  Run in
    the order 1-then-0 job 1 prints the default 50; in the order 0-then-1 it prints job 0's option 7.
    So `NoWrite` cannot be dropped from `interleaving_eq_sequential`, and an order permutation exposes it. -/
theorem write_breaks_isolation :
    let c := tcfg [leakyJob 7, goodJob none]
    ((interleave (fun _ => 1) [1, 1, 1, 1, 0, 0, 0] c).job 1).loc = [2, 50, 1]
    ∧ ((interleave (fun _ => 1) [0, 0, 0, 1, 1, 1, 1] c).job 1).loc = [2, 7, 1]
    ∧ ¬ NoWrite c := by
  refine ⟨by decide, by decide, ?_⟩
  intro h
  have := h 0 (.write (fun _ _ => 7)) (by simp [tcfg, mkCfg, leakyJob])
  simp [Step.isWrite] at this

/-- the same three jobs without the defect: hypotheses of the theorems hold for a non-trivial
    configuration (a Once step, a table read, a failing-decode check, private work; options set and unset) -/
theorem noWrite_good : NoWrite (tcfg [goodJob none, goodJob (some 7), goodJob none]) := by
  intro i s hs
  match i with
  | 0 | 1 | 2 =>
    simp [tcfg, mkCfg, goodJob] at hs
    rcases hs with rfl | rfl | rfl | rfl <;> rfl
  | n + 3 => simp [tcfg, mkCfg] at hs

example :
    let c := tcfg [goodJob none, goodJob (some 7), goodJob none]
    -- an interleaving, and the jobs one after the other: every job ends with the same output
    (List.range 3).map (fun j => ((interleave (fun _ => 1) [0, 1, 2, 2, 1, 0, 0, 1, 2, 1, 0, 2] c).job j).loc)
      = (List.range 3).map (fun j => ((interleave (fun _ => 1) [0, 0, 0, 0, 1, 1, 1, 1, 2, 2, 2, 2] c).job j).loc)
    ∧ ((interleave (fun _ => 1) [0, 1, 2, 2, 1, 0, 0, 1, 2, 1, 0, 2] c).job 1).loc = [2, 7, 1] := by
  decide

/-- `steps_commute`, `interleaving_*`: hypotheses satisfiable (two different jobs about to take a Once step
    on the same unresolved cell) -/
example :
    let c := tcfg [goodJob none, goodJob (some 7)]
    (0 : Nat) ≠ 1 ∧ (∀ s ∈ (c.job 0).prog, s.isWrite = false) ∧ (∀ s ∈ (c.job 1).prog, s.isWrite = false)
      ∧ c.cells () = none := by
  refine ⟨by decide, ?_, ?_, rfl⟩
  · exact noWrite_good 0 |> fun h s hs => h s (by simpa [tcfg, mkCfg] using hs)
  · exact noWrite_good 1 |> fun h s hs => h s (by simpa [tcfg, mkCfg] using hs)

end Props.C18
