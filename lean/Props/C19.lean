import FqModel.Reasm
import FqModel.Gopacket
import Proofs.C19Reasm
import Proofs.C19GpDefs
import Proofs.C19GpSkip
import Proofs.C19GpOverlap
import Proofs.C19GpRun
import Proofs.C19GpFlush
import Proofs.C19GpIface
/-!
  C19 — TCP streams and IPv4 datagrams are reassembled exactly.
  Model: FqModel/Reasm.lean; helper lemmas: Proofs/C19Reasm.lean.

  Shape of the argument
    * the REFERENCE reassembler (what the property means) is proved exact for every payload, every multiset of
      segments that are slices of the sent stream (any segmentation, order, duplicates, overlaps):
      `reasm_complete`, `reasm_complete_perm`, `reasm_prefix`, `reasm_perm`, `defrag_complete`;
    * fq's own code (`reassembledSG`) is proved to append exactly the chunks it is handed with skip ∈ {0,-1} and
      to add up the other skips (`sg_accounting`), for EVERY call sequence;
    * gopacket's assembler is third-party code; what fq needs from it is stated as `GopacketInterface` (in-order
      delivery, skips only in the final flush, everything contiguous delivered before the first skip, everything
      queued behind a hole flushed) and `sg_prefix_property` derives the property for fq's report from it;
      `sg_needs_flush_assumption` shows the flush hypothesis cannot be dropped.  The core of the assembler is
      transliterated in FqModel/Gopacket.lean and `GopacketInterface` is PROVED of the transliteration for every
      arrival order, duplication and overlap inside a no-wrap window (`gopacket_check_overlap_spec`,
      `gopacket_skip_only_in_flush`, `gopacket_delivers_in_order`, `gopacket_flush_spec`,
      `gopacket_satisfies_interface(_nosyn)`), giving the end-to-end `fq_reassembly_correct`; with wrap-around it
      fails (`gopacket_seq_wrap_witness`).  The correspondence run replays the recorded input of the real assembler
      through the transliteration call by call, and still checks the interface predicates on the recorded calls.
    * five defects found by the correspondence run are pinned by evaluation (`seq_wrap_witness` for the one that
      remains, in gopacket; `defrag_length_regression`, `fsm_reorder_regression`, `pcapng_shb_section_regression`,
      `pcapng_section_length_regression`, `tcp_header_cut_regression` for those that have been fixed in /repo).
-/
namespace Props.C19
open FqModel.Reasm Proofs.C19

variable {α : Type}

/-! ### reference reassembler: all payloads, segmentations, permutations, duplicates -/

/-- every captured segment carries bytes of the sent stream `s` at its offset -/
abbrev Slices (s : List α) (segs : List (Seg α)) : Prop := ∀ g ∈ segs, IsSlice s g

/-- `reasm_complete` (general form): if every segment is a slice of the sent stream `s` and every byte of `s`
    is in some segment — whatever the segmentation, the order, the duplicates and the overlaps — the
    reference returns exactly `s` and reports nothing skipped. -/
theorem reasm_complete (s : List α) (segs : List (Seg α)) (hs : Slices s segs)
    (hcov : ∀ i, i < s.length → covered segs i = true) : reasmFrom segs 0 = (s, false) := by
  have := reasmFrom_slices s segs 0 s.length hs (Nat.zero_le _) (Nat.le_refl _)
    (fun i _ hi => hcov i hi) (not_covered_length s segs hs)
  rw [this, beyond_false_of_slices s segs hs]
  simp

/-- `reasm_complete` in the form of the design: `segs` is any permutation of (a segmentation of `s` at
    arbitrary cut lengths, followed by arbitrary retransmitted duplicates of its pieces). -/
theorem reasm_complete_perm (s : List α) (cuts : List Nat) (dups segs : List (Seg α))
    (hd : ∀ g ∈ dups, g ∈ segmentation cuts 0 s) (hp : segs.Perm (segmentation cuts 0 s ++ dups)) :
    reasmFrom segs 0 = (s, false) := by
  obtain ⟨h1, h2⟩ := segmentation_spec s cuts 0 s rfl
  apply reasm_complete
  · intro g hg
    rcases List.mem_append.mp (hp.mem_iff.mp hg) with h | h
    · exact h1 g h
    · exact h1 g (hd g h)
  · intro i hi
    rw [covered_perm hp]
    have := h2 i (Nat.zero_le _) (by omega)
    rw [covered_iff] at this ⊢
    obtain ⟨g, hg, hc⟩ := this
    exact ⟨g, List.mem_append_left _ hg, hc⟩

/-- `reasm_prefix` ("nothing is invented"): bytes `[a,b)` of the sent stream are in no captured segment
    (`a < b ≤ |s|`), everything before `a` is captured.  Then the reference stream is exactly `s[:a]`, and the
    loss is signalled iff some non-empty segment beyond the hole was captured. -/
theorem reasm_prefix (s : List α) (segs : List (Seg α)) (a b : Nat) (hab : a < b) (hb : b ≤ s.length)
    (hs : Slices s segs) (hpre : ∀ i, i < a → covered segs i = true)
    (hhole : ∀ i, a ≤ i → i < b → covered segs i = false) :
    (reasmFrom segs 0).1 = s.take a ∧
    ((reasmFrom segs 0).2 = true ↔ ∃ g ∈ segs, g.len ≠ 0 ∧ b ≤ g.off) := by
  have := reasmFrom_slices s segs 0 a hs (Nat.zero_le _) (by omega)
    (fun i _ hi => hpre i hi) (hhole a (Nat.le_refl _) hab)
  rw [this]
  refine ⟨by simp, ?_⟩
  simp only
  rw [beyond_iff]
  constructor
  · rintro ⟨g, hg, hlt, hne⟩
    refine ⟨g, hg, hne, ?_⟩
    -- g reaches beyond a, does not cover a, and cannot start inside the hole
    have ha := (covered_false_iff segs a).mp (hhole a (Nat.le_refl _) hab) g hg
    have hoff : a < g.off := by
      apply Nat.lt_of_not_le
      intro hle
      exact ha ⟨hle, hlt⟩
    apply Nat.le_of_not_lt
    intro hlt2
    exact (covered_false_iff segs g.off).mp (hhole g.off (by omega) hlt2) g hg ⟨Nat.le_refl _, by omega⟩
  · rintro ⟨g, hg, hne, hle⟩
    exact ⟨g, hg, by omega, hne⟩

/-- the same from any starting offset (a capture without SYN starts at the lowest captured byte) -/
theorem reasm_prefix_from (s : List α) (segs : List (Seg α)) (base a : Nat) (hba : base ≤ a) (ha : a ≤ s.length)
    (hs : Slices s segs) (hpre : ∀ i, base ≤ i → i < a → covered segs i = true)
    (hhole : covered segs a = false) :
    reasmFrom segs base = ((s.drop base).take (a - base), beyond segs a) :=
  reasmFrom_slices s segs base a hs hba ha hpre hhole

/-- `reasm_truncated_prefix` (snap length): every captured segment `p.1` is a slice of the sent stream of which
    only the first `p.2` payload bytes are in the file.  Let `a` be the first byte that is in no captured part
    (everything before it is).  Then the reference over the truncated segments returns exactly `s[:a]` — the
    captured part of a truncated segment appears, nothing beyond it is invented — and reports a loss iff some
    captured byte lies beyond `a`; in particular the missing tail of a truncated segment is a loss as soon as
    anything after it was captured. -/
theorem reasm_truncated_prefix (s : List α) (caps : List (Seg α × Nat)) (a : Nat) (ha : a ≤ s.length)
    (hs : ∀ p ∈ caps, IsSlice s p.1)
    (hpre : ∀ i, i < a → ∃ p ∈ caps, p.1.off ≤ i ∧ i < p.1.off + min p.2 p.1.len)
    (hhole : ∀ p ∈ caps, ¬ (p.1.off ≤ a ∧ a < p.1.off + min p.2 p.1.len)) :
    (reasmFrom (caps.map fun p => truncSeg p.2 p.1) 0).1 = s.take a ∧
    ((reasmFrom (caps.map fun p => truncSeg p.2 p.1) 0).2 = true ↔
      ∃ p ∈ caps, min p.2 p.1.len ≠ 0 ∧ a < p.1.off + min p.2 p.1.len) := by
  have hsl : Slices s (caps.map fun p => truncSeg p.2 p.1) := by
    intro g hg
    obtain ⟨p, hp, rfl⟩ := List.mem_map.mp hg
    exact truncSeg_isSlice s p.1 p.2 (hs p hp)
  have hcov : ∀ i, 0 ≤ i → i < a → covered (caps.map fun p => truncSeg p.2 p.1) i = true := by
    intro i _ hi
    obtain ⟨p, hp, hc⟩ := hpre i hi
    rw [covered, List.any_eq_true]
    exact ⟨truncSeg p.2 p.1, List.mem_map.mpr ⟨p, hp, rfl⟩, (coversB_truncSeg p.1 p.2 i).mpr hc⟩
  have hend : covered (caps.map fun p => truncSeg p.2 p.1) a = false := by
    rw [covered_false_iff]
    intro g hg hc
    obtain ⟨p, hp, rfl⟩ := List.mem_map.mp hg
    exact hhole p hp (by simpa [truncSeg] using hc)
  rw [reasmFrom_slices s _ 0 a hsl (Nat.zero_le _) ha hcov hend]
  refine ⟨by simp, ?_⟩
  simp only
  rw [beyond_iff]
  constructor
  · rintro ⟨g, hg, hlt, hne⟩
    obtain ⟨p, hp, rfl⟩ := List.mem_map.mp hg
    exact ⟨p, hp, by simpa [truncSeg] using hne, by simpa [truncSeg] using hlt⟩
  · rintro ⟨p, hp, hne, hlt⟩
    exact ⟨truncSeg p.2 p.1, List.mem_map.mpr ⟨p, hp, rfl⟩, by simpa [truncSeg] using hlt, by simpa [truncSeg] using hne⟩

/-- what is visible of a segment cut by the snap length: nothing unless IP and TCP header are complete, then the
    captured payload bytes and never more than were sent; a cut inside the TCP header (at least one of its bytes captured) is the `tcpHeaderCut` case -/
theorem visible_payload_spec (ipHdr k n : Nat) :
    (k < ipHdr + 20 → visiblePayload ipHdr k n = none) ∧
    (ipHdr + 20 ≤ k → ∃ m, visiblePayload ipHdr k n = some m ∧ m ≤ n ∧ m ≤ k - ipHdr - 20 ∧
      (ipHdr + 20 + n ≤ k → m = n)) ∧
    (tcpHeaderCut ipHdr k = true ↔ ipHdr < k ∧ k < ipHdr + 20) := by
  refine ⟨?_, ?_, ?_⟩
  · intro h; simp [visiblePayload, h]
  · intro h
    refine ⟨min n (k - ipHdr - 20), by simp [visiblePayload]; omega, Nat.min_le_left _ _, Nat.min_le_right _ _, ?_⟩
    intro h2; omega
  · simp [tcpHeaderCut]

/-- the reference does not depend on the order in which the segments were captured (stream part: for
    segments that are slices of one stream; position of the first hole and loss flag: always) -/
theorem reasm_perm (s : List α) (l₁ l₂ : List (Seg α)) (hs : Slices s l₁) (hp : l₁.Perm l₂) (base : Nat)
    (hbase : prefixEnd l₁ base ≤ s.length) : reasmFrom l₁ base = reasmFrom l₂ base := by
  obtain ⟨h1, h2, h3⟩ := prefixEnd_spec l₁ base
  have hs2 : Slices s l₂ := fun g hg => hs g (hp.mem_iff.mpr hg)
  rw [reasmFrom_slices s l₁ base _ hs h1 hbase h2 h3,
    reasmFrom_slices s l₂ base _ hs2 h1 hbase (fun i a b => by rw [← covered_perm hp]; exact h2 i a b)
      (by rw [← covered_perm hp]; exact h3)]
  congr 1
  cases hb1 : beyond l₁ (prefixEnd l₁ base) <;> cases hb2 : beyond l₂ (prefixEnd l₁ base) <;> try rfl
  · obtain ⟨g, hg, hc⟩ := (beyond_iff _ _).mp hb2
    have := (beyond_iff l₁ _).mpr ⟨g, hp.mem_iff.mpr hg, hc⟩
    rw [hb1] at this; cases this
  · obtain ⟨g, hg, hc⟩ := (beyond_iff _ _).mp hb1
    have := (beyond_iff l₂ _).mpr ⟨g, hp.mem_iff.mp hg, hc⟩
    rw [hb2] at this; cases this

/-- `reassembly_time_independent`: capture timestamps play no part.  The reference (stream, loss flag, and the
    datagrams with their order of completion) is a function of the sequence of (offset, payload) segments /
    (key, fragment) packets alone: whatever timestamps `ts₁`, `ts₂` the same packets carry — constant, hours or
    days apart, running backwards, wrapping — the results coincide. -/
theorem reassembly_time_independent {κ τ : Type} [BEq κ] (segs : List (Seg α)) (frs : List (κ × Frag α))
    (ts₁ ts₂ : List τ) (h₁ : segs.length ≤ ts₁.length) (h₂ : segs.length ≤ ts₂.length)
    (g₁ : frs.length ≤ ts₁.length) (g₂ : frs.length ≤ ts₂.length) (base : Nat) (st : FragGroups κ α) :
    reasmFrom ((ts₁.zip segs).map (·.2)) base = reasmFrom ((ts₂.zip segs).map (·.2)) base ∧
    defragRun st ((ts₁.zip frs).map (·.2)) = defragRun st ((ts₂.zip frs).map (·.2)) := by
  rw [List.map_snd_zip h₁, List.map_snd_zip h₂, List.map_snd_zip g₁, List.map_snd_zip g₂]
  exact ⟨rfl, rfl⟩

/-- `defrag_complete`: fragments that are slices of the datagram payload `d` (any cut points, order,
    duplicates), the fragments without more-fragments end at `|d|` and one of them is there, every byte is in
    some fragment ⇒ the reference returns `d`. -/
theorem defrag_complete (d : List α) (frs : List (Frag α))
    (hs : ∀ f ∈ frs, IsSlice d f.seg)
    (hlast : ∃ f ∈ frs, f.more = false)
    (hmore : ∀ f ∈ frs, f.more = false → f.off + f.data.length = d.length)
    (hcov : ∀ i, i < d.length → covered (frs.map Frag.seg) i = true) :
    defragGroup frs = some d := by
  have hs' : Slices d (frs.map Frag.seg) := by
    intro g hg
    obtain ⟨f, hf, rfl⟩ := List.mem_map.mp hg
    exact hs f hf
  have hfull := reasm_complete d (frs.map Frag.seg) hs' hcov
  have hpe : prefixEnd (frs.map Frag.seg) 0 = d.length :=
    prefixEnd_eq _ 0 d.length (Nat.zero_le _) (fun i _ hi => hcov i hi) (not_covered_length d _ hs')
  unfold defragGroup
  cases hfind : frs.find? (fun f => !f.more) with
  | none =>
    obtain ⟨f, hf, hm⟩ := hlast
    have := List.find?_eq_none.mp hfind f hf
    simp [hm] at this
  | some last =>
    have hmem := List.mem_of_find?_eq_some hfind
    have hnm : last.more = false := by
      have := List.find?_some hfind
      simpa using this
    have htot := hmore last hmem hnm
    simp only [htot, hpe, Nat.le_refl, if_true, hfull, List.take_length]

/-! ### fq's accounting, for every call sequence -/

/-- `sg_accounting`: whatever calls the assembler makes, after `ReassembledSG` has run over them each
    direction's Buffer is the concatenation of the chunks of that direction delivered with skip ∈ {0, −1}
    (in call order), and SkippedBytes is the (uint64) sum of the other skips; the other direction's calls do not
    touch it. -/
theorem sg_accounting (cs : List (SGCall α)) (t : Conn α) (s2c : Bool) :
    (dirOf s2c (runSG t cs)).buffer =
      (dirOf s2c t).buffer ++ (((callsOf s2c cs).filter kept).map (·.data)).flatten ∧
    (dirOf s2c (runSG t cs)).skippedBytes % 18446744073709551616 =
      ((dirOf s2c t).skippedBytes +
        (((callsOf s2c cs).filter (fun c => !kept c)).map (fun c => toUInt64 c.skip)).sum) % 18446744073709551616 := by
  rw [dirOf_runSG]
  exact foldl_sgDir (callsOf s2c cs) (dirOf s2c t)

/-- a fresh connection: nothing buffered, nothing skipped -/
theorem sg_accounting_fresh (cs : List (SGCall α)) (ipc ips : List UInt8) (pc ps : List UInt8) (s2c : Bool) :
    (dirOf s2c (runSG (newConn ipc ips pc ps) cs)).buffer = (((callsOf s2c cs).filter kept).map (·.data)).flatten := by
  have := (sg_accounting cs (newConn (α := α) ipc ips pc ps) s2c).1
  rw [this]
  cases s2c <;> simp [dirOf, newConn]

/-! ### the property for fq's report, under the interface assumption about gopacket -/

/-- What fq needs from gopacket's assembler for one direction whose captured segments are `segs` (slices of
    `sent`), starting at `base`: the calls of that direction are `pre ++ post` with
      * `Delivers`: chunks carry the sent bytes in stream order, a skip of k moves k bytes ahead;
      * `FlushOnlyAtEnd`: no skip before the final flush (`pre`), a skip before every flushed chunk (`post`);
      * `exhausts`: before the first skip everything contiguous from `base` has been delivered;
      * `flushes`: the final flush delivers something iff segments behind the first hole were queued;
      * `goInt`, `small`: a skip is a Go `int`, and the skips do not overflow uint64. -/
structure GopacketInterface (sent : List α) (segs : List (Seg α)) (base : Nat) (pre post : List (SGCall α)) : Prop where
  delivers : Delivers sent base ((pre ++ post).map fun c => (c.skip, c.data))
  flushOnly : FlushOnlyAtEnd (pre.map fun c => (c.skip, c.data)) (post.map fun c => (c.skip, c.data))
  exhausts : base + ((pre.map (·.data.length)).sum) = prefixEnd segs base
  flushes : post ≠ [] ↔ beyond segs (prefixEnd segs base) = true
  goInt : ∀ c ∈ post, c.skip < 9223372036854775808
  small : ((post.map fun c => toUInt64 c.skip).sum) < 18446744073709551616

/-- `sg_prefix_property`: under the interface assumption, what fq reports for a direction of a fresh
    connection is the reference result on the captured segments: Buffer = the contiguous sent bytes from
    `base` up to the first missing byte, and SkippedBytes > 0 iff something was captured behind it. -/
theorem sg_prefix_property (sent : List α) (segs : List (Seg α)) (base : Nat) (pre post : List (SGCall α))
    (hs : Slices sent segs) (hlen : prefixEnd segs base ≤ sent.length)
    (hI : GopacketInterface sent segs base pre post) (d : Dir α) (hd : d.buffer = [] ∧ d.skippedBytes = 0) :
    ((pre ++ post).foldl sgDir d).buffer = (reasmFrom segs base).1 ∧
    (0 < ((pre ++ post).foldl sgDir d).skippedBytes % 18446744073709551616 ↔ (reasmFrom segs base).2 = true) := by
  obtain ⟨hb, hsk⟩ := foldl_sgDir (pre ++ post) d
  obtain ⟨k1, k2, k3, k4⟩ := kept_of_flushOnly_pre pre post hI.flushOnly
  obtain ⟨p1, p2, p3⟩ := prefixEnd_spec segs base
  rw [reasmFrom_slices sent segs base _ hs p1 hlen p2 p3]
  constructor
  · rw [hb, hd.1, List.filter_append, k1, k2, List.append_nil, List.nil_append]
    have hdel := hI.delivers
    rw [List.map_append] at hdel
    have := (delivers_pre sent (pre.map fun c => (c.skip, c.data)) base _ hdel hI.flushOnly.1).1
    simp only [List.map_map] at this
    have hsum : (pre.map ((fun c : Chunk α => c.2.length) ∘ fun c => (c.skip, c.data))).sum = (pre.map (·.data.length)).sum := rfl
    have hfl : (pre.map ((fun c : Chunk α => c.2) ∘ fun c => (c.skip, c.data))) = pre.map (·.data) := rfl
    rw [hsum, hfl] at this
    rw [this, ← hI.exhausts]
    congr 1
    omega
  · rw [hsk, hd.2, List.filter_append, k4, k3, List.nil_append, Nat.zero_add, Nat.mod_eq_of_lt hI.small]
    simp only
    rw [← hI.flushes]
    constructor
    · intro hpos hnil; rw [hnil] at hpos; simp at hpos
    · intro hne
      cases post with
      | nil => exact absurd rfl hne
      | cons c rest =>
        have hc := hI.flushOnly.2 (c.skip, c.data) (by simp)
        simp only at hc
        have hlt := hI.goInt c (by simp)
        have : 0 < toUInt64 c.skip := by
          unfold toUInt64
          rw [Int.emod_eq_of_lt (by omega) (by omega)]
          omega
        simp only [List.map_cons, List.sum_cons]
        omega

/-- `sg_needs_flush_assumption` (DESIGN §1.8 #9): the flush-only-at-end hypothesis cannot be dropped.  A call
    sequence that delivers the sent bytes in order and honestly reports the skip (so `Delivers` holds) but
    continues with an unskipped chunk after a skipped one — what a mid-capture flush produces — makes fq glue
    bytes 7,8 onto bytes 0,1: the Buffer is not a prefix of what was sent, nor any contiguous part of it. -/
theorem sg_needs_flush_assumption :
    let sent : List Nat := [0, 1, 2, 3, 4, 5, 6, 7, 8]
    let calls : List (SGCall Nat) :=
      [⟨false, false, false, 0, [0, 1]⟩, ⟨false, false, false, 3, [5, 6]⟩, ⟨false, false, false, 0, [7, 8]⟩]
    Delivers sent 0 (calls.map fun c => (c.skip, c.data)) ∧
    (runSG {} calls).client.buffer = [0, 1, 7, 8] ∧ (runSG {} calls).client.skippedBytes = 3 ∧
    ¬ ([0, 1, 7, 8] <+: sent) ∧ flushDiscipline false (calls.map fun c => (c.skip, true)) = false := by
  refine ⟨?_, by decide, by decide, by decide, by decide⟩
  simp [Delivers]

/-- `sg_prefix_property` for a whole connection: both directions' calls interleaved in any way, a fresh
    connection (as `New` makes it); the calls of direction `s2c` are `pre ++ post`. -/
theorem sg_prefix_property_conn (sent : List α) (segs : List (Seg α)) (base : Nat) (cs pre post : List (SGCall α))
    (s2c : Bool) (hcalls : callsOf s2c cs = pre ++ post)
    (hs : Slices sent segs) (hlen : prefixEnd segs base ≤ sent.length)
    (hI : GopacketInterface sent segs base pre post) (ipc ips pc ps : List UInt8) :
    (dirOf s2c (runSG (newConn ipc ips pc ps) cs)).buffer = (reasmFrom segs base).1 ∧
    (0 < (dirOf s2c (runSG (newConn ipc ips pc ps) cs)).skippedBytes % 18446744073709551616 ↔
      (reasmFrom segs base).2 = true) := by
  rw [dirOf_runSG, hcalls]
  apply sg_prefix_property sent segs base pre post hs hlen hI
  cases s2c <;> simp [dirOf, newConn]

/-! ### sections (pcapng): one flows decoder per section, flushed at the section's end -/

/-- what a section's capture and gopacket's calls look like for one direction of one connection -/
structure SectionDir (α : Type) where
  sent : List α
  segs : List (Seg α)
  base : Nat
  calls : List (SGCall α)       -- all calls of the section's connection, both directions
  s2c : Bool
  pre : List (SGCall α)
  post : List (SGCall α)

/-- `sg_sections_property`: a capture of several sections, each decoded by its own fresh connection table and
    flushed at its own end (`runSections`).  If within every section the calls obey the interface assumption
    relative to THAT section's captured segments (flush-per-section discipline: skips only in the flush that
    ends the section), then every section's report is the reference result on that section's segments —
    whatever the other sections contain, e.g. the other part of a connection that spans the boundary. -/
theorem sg_sections_property (secs : List (SectionDir α))
    (hcalls : ∀ sd ∈ secs, callsOf sd.s2c sd.calls = sd.pre ++ sd.post)
    (hs : ∀ sd ∈ secs, Slices sd.sent sd.segs) (hlen : ∀ sd ∈ secs, prefixEnd sd.segs sd.base ≤ sd.sent.length)
    (hI : ∀ sd ∈ secs, GopacketInterface sd.sent sd.segs sd.base sd.pre sd.post)
    (i : Nat) (hi : i < secs.length) :
    ∃ t, (runSections (secs.map (·.calls)))[i]? = some t ∧
      (dirOf secs[i].s2c t).buffer = (reasmFrom secs[i].segs secs[i].base).1 ∧
      (0 < (dirOf secs[i].s2c t).skippedBytes % 18446744073709551616 ↔
        (reasmFrom secs[i].segs secs[i].base).2 = true) := by
  have hm : secs[i] ∈ secs := List.getElem_mem hi
  refine ⟨runSG {} secs[i].calls, by simp [runSections, hi], ?_⟩
  have := sg_prefix_property_conn secs[i].sent secs[i].segs secs[i].base secs[i].calls secs[i].pre secs[i].post
    secs[i].s2c (hcalls _ hm) (hs _ hm) (hlen _ hm) (hI _ hm) [] [] [] []
  simpa [newConn, be16] using this

/-- sections do not influence each other: the result for a section is a function of its own calls -/
theorem sections_independent (a b : List (List (SGCall α))) :
    runSections (a ++ b) = runSections a ++ runSections b := by
  simp [runSections]

/-- how fq forms sections (pcapng.go after 501642c1): the file's sections, each with its own interface table -/
theorem fq_sectioning (secs : List (List Nat)) (links : List (List String)) (s j : Nat) :
    fqSectioning secs = secs ∧ fqInterfaceLink links s j = (links.getD s [])[j]? := ⟨rfl, rfl⟩

/-- the block loop of `decodeSection` with the length counted AFTER the section header block reads exactly the
    blocks of a section whose section_length is the sum of its (non-empty) blocks — whatever their sizes -/
theorem section_length_exact (bs : List Nat) (hpos : ∀ b ∈ bs, 0 < b) :
    ∀ pos, blocksConsumed pos (pos + bs.sum) bs = bs.length := by
  induction bs with
  | nil => intro pos; rfl
  | cons b bs ih =>
    intro pos
    have hb := hpos b (List.mem_cons_self ..)
    simp only [blocksConsumed, List.sum_cons, List.length_cons]
    have hlt : pos < pos + (b + bs.sum) := by omega
    simp only [hlt, if_true]
    have := ih (fun x hx => hpos x (List.mem_cons_of_mem _ hx)) (pos + b)
    rw [show pos + (b + bs.sum) = pos + b + bs.sum by omega, this]

/-! ### order of `tcp_connections` and `ipv4_reassembled` -/

/-- `conn_order`: the model's connection list (`firstSeen` over the (4-tuple, sender) of every segment that
    reaches the assembler, in capture order)
      * lists every connection that has a packet, exactly once;
      * records as client the sender of the connection's first packet;
      * is a subsequence of the packet list — connections appear in the order of their first packets;
      * only grows at the end when more packets are captured (first appearance order is stable). -/
theorem conn_order {κ δ : Type} [BEq κ] [LawfulBEq κ] (l m : List (κ × δ)) :
    (∀ k, k ∈ (firstSeen l).map (·.1) ↔ k ∈ l.map (·.1)) ∧
    ((firstSeen l).map (·.1)).Nodup ∧
    (∀ k d, (k, d) ∈ firstSeen l → l.find? (fun p => p.1 == k) = some (k, d)) ∧
    (firstSeen l).Sublist l ∧
    firstSeen (l ++ m) = firstSeen l ++ (firstSeen m).filter fun p => !(l.map (·.1)).contains p.1 :=
  ⟨fun k => mem_firstSeen_keys k l, firstSeen_keys_nodup l, fun k d => firstSeen_find k d l, firstSeen_sublist l,
    firstSeen_append l m⟩

/-- `reassembled_order`: the datagrams the reference defragmenter completes over a packet sequence are listed in
    the order in which their completing fragments arrive (the (key, completing fragment) list is a
    subsequence of the input), and more packets only append. -/
theorem reassembled_order {κ : Type} [BEq κ] (l m : List (κ × Frag α)) (st : FragGroups κ α) :
    ((defragRun st l).map fun o => (o.1, o.2.2)).Sublist l ∧
    defragRun st (l ++ m) = defragRun st l ++ defragRun (defragState st l) m :=
  ⟨defragRun_sublist l st, defragRun_append l m st⟩

/-! ### endpoint extraction, dispatch table, metadata: small facts by evaluation -/

/-- `New`: the first packet's source is the client; ports are the big-endian 16 bit transport endpoints; an
    endpoint that is not two bytes long gives port 0; IPv6 flows give 16 byte addresses, copied as they are -/
theorem newConn_endpoints :
    (newConn (α := Nat) [10, 0, 0, 1] [10, 1, 0, 2] [0x04, 0xd2] [0x00, 0x50]).client.ip = [10, 0, 0, 1] ∧
    (newConn (α := Nat) [10, 0, 0, 1] [10, 1, 0, 2] [0x04, 0xd2] [0x00, 0x50]).client.port = 1234 ∧
    (newConn (α := Nat) [10, 0, 0, 1] [10, 1, 0, 2] [0x04, 0xd2] [0x00, 0x50]).server.ip = [10, 1, 0, 2] ∧
    (newConn (α := Nat) [10, 0, 0, 1] [10, 1, 0, 2] [0x04, 0xd2] [0x00, 0x50]).server.port = 80 ∧
    (newConn (α := Nat) [10, 0, 0, 1] [10, 1, 0, 2] [] [1, 2, 3]).client.port = 0 ∧
    (newConn (α := Nat) [10, 0, 0, 1] [10, 1, 0, 2] [] [1, 2, 3]).server.port = 0 ∧
    (∀ (a b : List UInt8) (p q : List UInt8),
      (newConn (α := Nat) a b p q).client.ip = a ∧ (newConn (α := Nat) a b p q).server.ip = b ∧
      (newConn (α := Nat) a b p q).client.buffer = [] ∧ (newConn (α := Nat) a b p q).server.skippedBytes = 0) := by
  refine ⟨by decide, by decide, by decide, by decide, by decide, by decide, ?_⟩
  intro a b p q
  simp [newConn]

/-- the textual address fieldFlows prints (`net.IP.String()`): dotted IPv4; IPv6 with the leftmost longest run
    of at least two zero groups compressed, a single zero group kept, lower case without leading zeros;
    IPv4-mapped IPv6 printed as IPv4 -/
theorem ip_string_examples :
    ipString [10, 1, 0, 174] = "10.1.0.174" ∧
    ipString [0x20, 0x01, 0x0d, 0xb8, 0, 0, 0, 0, 0, 0, 0, 0, 0, 0, 0, 1] = "2001:db8::1" ∧
    ipString [0, 0, 0, 0, 0, 0, 0, 0, 0, 0, 0, 0, 0, 0, 0, 1] = "::1" ∧
    ipString [0, 0, 0, 0, 0, 0, 0, 0, 0, 0, 0, 0, 0, 0, 0, 0] = "::" ∧
    ipString [0x20, 0x01, 0x0d, 0xb8, 0, 0, 0, 0, 0, 1, 0, 0, 0, 0, 0, 1] = "2001:db8::1:0:0:1" ∧
    ipString [0x20, 0x01, 0, 0, 0, 0, 0, 1, 0, 0, 0, 0, 0, 0, 0, 1] = "2001:0:0:1::1" ∧
    ipString [0x20, 0x01, 0x0d, 0xb8, 0, 0, 0, 1, 0, 1, 0, 1, 0, 1, 0, 1] = "2001:db8:0:1:1:1:1:1" ∧
    ipString [0xfd, 0, 0, 0, 0, 0, 0, 0, 0, 0, 0, 0, 0xab, 0xcd, 0, 0] = "fd00::abcd:0" ∧
    ipString [0, 0, 0, 0, 0, 0, 0, 0, 0, 0, 0xff, 0xff, 10, 1, 0, 174] = "10.1.0.174" := by decide

/-- equal ports: the direction is taken from the assembler's flag alone, never from the port numbers -/
theorem sg_direction_by_flag_only (t : Conn α) (c : SGCall α) :
    (c.serverToClient = false → (reassembledSG t c).server = t.server) ∧
    (c.serverToClient = true → (reassembledSG t c).client = t.client) := by
  constructor <;> intro h <;> simp [reassembledSG, h]

/-- a reassembled datagram is recorded whatever it carries: the IP protocol and the fate of the upper-layer decode
    only decide whether a TCP segment goes on to the assembler (the reference `defragGroup` does not see the
    protocol at all) -/
theorem reassembled_recorded_whatever_upper_layer (upperLayerDecodes isTcp : Bool) :
    (onReassembled upperLayerDecodes isTcp).1 = true ∧
    ((onReassembled upperLayerDecodes isTcp).2 = true ↔ upperLayerDecodes = true ∧ isTcp = true) := by
  cases upperLayerDecodes <;> cases isTcp <;> simp [onReassembled]

/-- every link type of the specification is served by the decoder that reads it, and SLL / SLL2 differ -/
theorem link_table_ok :
    (["eth", "raw", "ipv4", "ipv6", "sll", "sll2", "null"].all fun l =>
      match linkSpec l with
      | some (n, d) => linkToDecodeFn n == some d
      | none => false) = true ∧
    linkToDecodeFn 276 ≠ linkToDecodeFn 113 ∧ linkToDecodeFn 2 = none := by decide

/-! ### the defects the correspondence run found, pinned by evaluation (one known, four fixed) -/

/-- known finding `seq-wrap`: gopacket's `Sequence.Difference` is off by one across 2^32, so of an 8 byte
    segment [2^32-2, 6) retransmitted when the stream already stands at 6 only 7 bytes are recognised as
    old: the last byte is appended again.  Away from the wrap all 8 are dropped. -/
theorem seq_wrap_witness :
    seqDifference 0xFFFFFFFE 6 = 7 ∧ overlapDropped 6 0xFFFFFFFE 8 = 7 ∧ overlapDropped 5008 5000 8 = 8 ∧
    -- second shape: a segment one byte ahead across the wrap is taken for contiguous (distance 1 computed as 0)
    seqDifference 0xFFFFFFFF 0 = 0 ∧ seqDifference 77 78 = 1 := by
  decide

/-- fixed finding `tcp-header-cut` (regression): 30 bytes of an IPv4 packet captured = 10 bytes of the TCP header:
    nothing of the segment is visible.  OLD `packet` still handed the zero TCP layer to the assembler and `New`
    made a connection with ports 0; since e2e770fa a segment reaches the assembler iff something of it is visible
    (for every cut point and length). -/
theorem tcp_header_cut_regression :
    tcpHeaderCut 20 30 = true ∧ visiblePayload 20 30 8 = none ∧ reachesAssemblerOld 20 30 8 = true ∧
    (newConn (α := Nat) [10, 0, 0, 1] [10, 1, 0, 2] [] []).client.port = 0 ∧
    (newConn (α := Nat) [10, 0, 0, 1] [10, 1, 0, 2] [] []).server.port = 0 ∧
    reachesAssembler 20 30 8 = false ∧ reachesAssembler 20 43 8 = true ∧ reachesAssembler 40 49 8 = false ∧
    (∀ ipHdr k n, reachesAssembler ipHdr k n = true ↔ ipHdr + 20 ≤ k) := by
  refine ⟨by decide, by decide, by decide, by decide, by decide, by decide, by decide, by decide, ?_⟩
  intro ipHdr k n
  unfold reachesAssembler visiblePayload
  by_cases h : k < ipHdr + 20
  · simp [h]
  · simp only [h, if_false, Option.isSome_some, true_iff]; omega

/-- fixed finding `defrag-length` (regression): the 28 byte payload cut into [0,8) and [8,28), arriving in
    reverse order.  The reference rebuilds it; the OLD test `newIPv4.Length != l` compared 28 with the total
    length 20+8 of the fragment that completed it and rejected (in order, completed by the 20 byte fragment, it
    accepted); the test as fixed in 8dc84a5a (`newIPv4 != ip4`) accepts every fragment that completes a
    datagram and nothing else. -/
theorem defrag_length_regression :
    let d : List Nat := List.range 28
    defragGroup [⟨8, false, d.drop 8⟩, ⟨0, true, d.take 8⟩] = some d ∧
    acceptReassembledOld 28 (20 + 8) = false ∧ acceptReassembledOld 28 (20 + 20) = true ∧
    acceptReassembled true true = true ∧ acceptReassembled true false = false ∧
    (∀ c, acceptReassembled false c = false) := by decide

/-- fixed finding `fsm-reorder` (regression): capture without handshake; FIN+ACK first, then the data segment of
    the same sender.  OLD `Accept` (the answer of TCPSimpleFSM.CheckState alone) let the FIN through and rejected
    the data; `Accept` as fixed in 1ef5f83b never rejects a segment with payload, and still rejects what the
    state machine rejects when it carries none.  In order both rules pass both packets. -/
theorem fsm_reorder_regression :
    fsmRun {} [(false, true, true, false, false), (false, true, false, false, false)] = [true, false] ∧
    acceptRun {} [(false, true, true, false, false, false), (false, true, false, false, false, true)] = [true, true] ∧
    acceptRun {} [(false, true, true, false, false, false), (false, true, false, false, false, false)] = [true, false] ∧
    fsmRun {} [(false, true, false, false, false), (false, true, true, false, false)] = [true, true] ∧
    (∀ t syn ack fin rst dir, (acceptSegment t syn ack fin rst dir true).2 = true) := by
  refine ⟨by decide, by decide, by decide, by decide, ?_⟩
  intro t syn ack fin rst dir
  simp [acceptSegment]

/-! ### `Accept` never rejects data that is still needed (wrap-aware)

  Sequence numbers are compared as RFC 1982 serial numbers: `serialDiff a b` is the representative of `b - a`
  modulo 2^32 in `[-2^31, 2^31)`.  A data segment `[seq, seq+len)` is *entirely delivered* when its end is not after
  `nextSeq` (the next byte the assembler expects) in that sense, and *needed* otherwise.  A rule that drops
  "already delivered retransmissions" in `Accept` by the plain comparison `seq + len ≤ nextSeq` rejects a needed
  segment whenever the segment lies after the 2^32 wrap and `nextSeq` before it (`plain_compare_rejects_needed_at_wrap`)
  — the class of the seeded change this block was added for; the driver compares every recorded answer of the real
  `Accept` with `acceptSegment` (DIVERGE `accept answer differs`) and reports a rejected segment that no accepted one
  covers as PROPFAIL. -/

/-- RFC 1982 signed distance from `a` to `b` modulo 2^32 -/
def serialDiff (a b : Nat) : Int :=
  let d := (b % 4294967296 + 4294967296 - a % 4294967296) % 4294967296
  if d < 2147483648 then (d : Int) else (d : Int) - 4294967296

/-- the segment `[seq, seq+len)` lies entirely within the sequence space delivered so far (wrap-aware) -/
def EntirelyDelivered (nextSeq seq len : Nat) : Prop := serialDiff nextSeq (seq + len) ≤ 0

/-- a data segment that still carries at least one byte the stream does not have (wrap-aware) -/
def SegNeeded (nextSeq seq len : Nat) : Prop := 0 < len ∧ ¬ EntirelyDelivered nextSeq seq len

instance (a b c : Nat) : Decidable (EntirelyDelivered a b c) := by unfold EntirelyDelivered; exact inferInstance
instance (a b c : Nat) : Decidable (SegNeeded a b c) := by unfold SegNeeded; exact inferInstance

/-- the rejection test of the seeded fast path: plain comparison of the segment's end with `nextSeq` -/
def plainFastPathRejects (nextSeq seq len : Nat) : Bool := decide (0 < len) && decide (seq + len ≤ nextSeq)

/-- `Accept` (flowsdecoder.go:40-63, `acceptSegment`) accepts every data segment that is not entirely within the
    already delivered sequence space in wrap-aware terms.  FSM side conditions: NONE — whatever state
    `TCPSimpleFSM` is in (closed, SYN sent, established, close-wait, last-ack, reset), whatever the flags and the
    direction, and whatever `CheckState` answers; in particular once the connection is established.  (The answer
    does not even depend on `nextSeq`: `Accept` has no business judging retransmissions, the assembler trims them.)
    Configuration side condition: `CheckTCPOptions = false`, as format/pcap passes it (pcap.go:91, pcapng.go); the
    option checker branch :51-57 is outside the model. -/
theorem accept_never_rejects_needed_data (t : Fsm) (syn ack fin rst dir : Bool) (nextSeq seq len : Nat)
    (hneed : SegNeeded nextSeq seq len) :
    (acceptSegment t syn ack fin rst dir (decide (0 < len))).2 = true := by
  have h : decide (0 < len) = true := by simpa using hneed.1
  simp [acceptSegment, h]

/-- the same over a whole history of one connection: in `acceptRun`, the answer for every packet that carries
    payload is `true`, whatever came before it (all histories, all FSM states reached) -/
theorem accept_run_never_rejects_data (pkts : List (Bool × Bool × Bool × Bool × Bool × Bool)) :
    ∀ (t : Fsm) (i : Nat) (h : i < pkts.length), (pkts[i]).2.2.2.2.2 = true → (acceptRun t pkts)[i]? = some true := by
  induction pkts with
  | nil => intro t i h; simp at h
  | cons p rest ih =>
    intro t i h hp
    obtain ⟨syn, ack, fin, rst, dir, pay⟩ := p
    cases i with
    | zero =>
      simp only [List.getElem_cons_zero] at hp
      simp [acceptRun, acceptSegment, hp]
    | succ j =>
      simp only [List.getElem_cons_succ] at hp
      simp only [acceptRun, List.getElem?_cons_succ]
      exact ih _ j (by simpa using h) hp

/-- the seeded rule is wrong exactly at the wrap: `nextSeq = 2^32 - 5`, a 10 byte segment at sequence number 0
    (captured before the segment that contains the wrap) is needed, the plain comparison rejects it; a wrap-aware
    comparison does not; away from the wrap both agree on a genuine retransmission -/
theorem plain_compare_rejects_needed_at_wrap :
    SegNeeded 4294967291 0 10 ∧ plainFastPathRejects 4294967291 0 10 = true ∧
    ¬ EntirelyDelivered 4294967291 0 10 ∧
    (EntirelyDelivered 5009 5001 8 ∧ plainFastPathRejects 5009 5001 8 = true) ∧
    -- a retransmission that ends exactly at the wrap while `nextSeq` is already behind it: delivered, and the plain
    -- comparison misses it (harmless direction)
    (EntirelyDelivered 5 4294967286 10 ∧ plainFastPathRejects 5 4294967286 10 = false) := by decide

/-- non-vacuity of `accept_never_rejects_needed_data` at the wrap, in the established state with the FSM saying no
    (a FIN was seen: close-wait, no ACK flag): the needed segment at sequence number 0 is accepted, the same packet
    without payload is not -/
example :
    SegNeeded 4294967291 0 10 ∧
    (acceptSegment ⟨2, false⟩ false true false false false (decide (0 < 10))).2 = true ∧
    (fsmCheck ⟨3, false⟩ false false false false false).2 = false ∧
    (acceptSegment ⟨3, false⟩ false false false false false (decide (0 < 10))).2 = true ∧
    (acceptSegment ⟨3, false⟩ false false false false false (decide (0 < 0))).2 = false := by decide

/-- fixed finding `pcapng-shb-section` (regression): section_length −1, second section with an SLL2 interface after
    a first section with an ethernet interface.  OLD: ONE section for the file, interface id 0 of the second
    section looked up in the accumulated table — ethernet.  Fixed in 501642c1: two sections, own tables. -/
theorem pcapng_shb_section_regression :
    fqSectioningOld false [[1, 2], [3]] = [[1, 2, 3]] ∧
    fqInterfaceLinkOld false [["eth"], ["sll2"]] 1 0 = some "eth" ∧
    fqSectioning [[1, 2], [3]] = [[1, 2], [3]] ∧
    fqInterfaceLink [["eth"], ["sll2"]] 1 0 = some "sll2" := by decide

/-- fixed finding `pcapng-section-length` (regression): blocks of 32, 92 and 100 bytes after a 460 byte section
    header block, section_length 224.  OLD (length counted from the start of the header block: the loop starts
    at position 460 ≥ 224) read none of them; with the 48 byte header the harness normally writes it lost a
    trailing 32 byte block; counted after the header block (501642c1) all blocks are read — `section_length_exact`
    for every section. -/
theorem pcapng_section_length_regression :
    blocksConsumed 460 224 [32, 92, 100] = 0 ∧ sectionEndsEarlyOld 460 100 = true ∧
    blocksConsumed 48 80 [48, 32] = 1 ∧ sectionEndsEarlyOld 48 32 = true ∧ sectionEndsEarlyOld 48 100 = false ∧
    blocksConsumed 0 224 [32, 92, 100] = 3 ∧ blocksConsumed 0 80 [48, 32] = 2 := by decide

/-! ### gopacket's assembler, transliterated (FqModel/Gopacket.lean) -/

section gopacket
open FqModel.Gopacket Proofs.C19Gp

/-- `gopacket_skip_only_in_flush` (first half, unconditional): whatever the state of the half connection and whatever
    the packet — any sequence number, wrap-around included, any overlap — a call that `AssembleWithContext` makes into
    `ReassembledSG` carries skip = 0.  Calls with skip ≠ 0 (−1 for a stream whose start was never seen, > 0 for a
    hole) can therefore only come from `FlushAll`, which fq calls once, after the last packet. -/
theorem gopacket_skip_only_in_flush (s2c : Bool) (h : Half α) (accept : Bool) (t : Pkt α) (c : SGCall α)
    (hc : (assemble s2c h accept t).2 = some c) : c.skip = 0 :=
  assemble_skip s2c h accept t c hc

/-- the same for a whole run: no call made while packets arrive has a skip -/
theorem gopacket_run_no_skip (s2c : Bool) (pkts : List (Bool × Pkt α)) :
    ∀ (h : Half α), ∀ c ∈ (runHalf s2c h pkts).2, c.skip = 0 := by
  induction pkts with
  | nil => intro h c hc; simp [runHalf] at hc
  | cons p rest ih =>
    intro h c hc
    obtain ⟨acc, t⟩ := p
    simp only [runHalf, List.mem_append] at hc
    rcases hc with hc | hc
    · cases hr : (assemble s2c h acc t).2 with
      | none => rw [hr] at hc; simp at hc
      | some c' =>
        rw [hr] at hc
        simp only [List.mem_singleton] at hc
        rw [hc]
        exact assemble_skip s2c h acc t c' hr
    · exact ih _ c hc

/-- `checkOverlap` — the part of the assembler that handles out-of-order, overlapping and retransmitted segments —
    meets its specification inside every window of sequence numbers that does not wrap (`NoWrap`): on a sorted
    queue of pages that are slices of the sent stream it keeps the queue sorted, non-overlapping and content-correct
    and changes the set of queued sequence numbers by exactly the segment's range (added when the segment is
    queued, removed when the segment is delivered), for every overlap pattern. -/
theorem gopacket_check_overlap_spec : CheckOverlapSpec α := checkOverlap_spec

/-- `gopacket_delivers_in_order`: one direction of a connection, sent stream `sent` whose byte 0 has sequence number
    `s0` (= ISN+1), inside a window of sequence numbers that does not wrap (`Win`: `NoWrap lo hi`, ISN ≥ lo,
    s0+|sent|+1 ≤ hi).  The packets (`GoodPkt`: a SYN at the ISN, segments whose payload is the slice of `sent` at their
    sequence number, FIN/RST only on a segment that ends the stream) arrive in ANY order, any number of times, with
    ANY overlaps, each with the answer of fq's `Accept` (a rejected packet is ignored).  Then the calls the
    transliterated assembler makes while the packets arrive all have skip 0 and their data, concatenated, is
    exactly `sent[0, d)`, where — once an accepted SYN was seen — `d` is the first sequence offset that no accepted
    segment covers (`prefixEnd` of the reference over the accepted segments): the sent stream up to the first
    never-filled hole.  Without a SYN nothing is delivered before the flush.
    The statement WITH wrap-around is false: `gopacket_seq_wrap_witness`. -/
theorem gopacket_delivers_in_order {sent : List α} {s0 lo hi : Int} (w : Win sent s0 lo hi) (s2c : Bool)
    (pkts : List (Bool × Pkt α)) (hgood : ∀ x ∈ pkts, GoodPkt sent s0 x.2) :
    ∃ d, d ≤ sent.length ∧
      (∀ c ∈ (traceOf s2c pkts).1, c.skip = 0) ∧
      (((traceOf s2c pkts).1.map (·.data)).flatten = sent.take d) ∧
      (synSeen pkts = true → prefixEnd (segsOf s0 pkts) 0 = d ∧
        (beyond (segsOf s0 pkts) d = true ↔
          ((runHalf s2c {} pkts).1.closed = false ∧ (runHalf s2c {} pkts).1.pages ≠ []))) ∧
      (synSeen pkts = false → (traceOf s2c pkts).1 = []) := by
  obtain ⟨d, hd, st, sk, dat, no⟩ := Proofs.C19Gp.gopacket_delivers_in_order checkOverlap_spec w s2c pkts hgood
  refine ⟨d, hd, sk, dat, ?_, no⟩
  intro hs
  rw [hs] at st
  exact ⟨prefixEnd_of_St pkts hgood st, beyond_of_St pkts hgood st⟩

/-- `gopacket_skip_only_in_flush` (second half) and what the flush delivers: `FlushAll` on a half connection in a
    state the run can reach (not closed, sorted queue of pages that are slices of `sent`, every page strictly behind
    a known `nextSeq`) makes one call per maximal run of contiguous pages; every call has a skip — −1 for the first
    one iff the start of the stream was never seen, the positive gap before the run otherwise —, the chunks carry
    the sent bytes at their places in stream order (`Delivers`), calls are made iff pages are queued, the skips fit
    32 bits and add up to at most |sent|, and the half ends closed. -/
theorem gopacket_flush_spec {sent : List α} {s0 lo hi : Int} (s2c : Bool) (h : Half α)
    (hw : NoWrap lo hi) (hlo : lo ≤ s0 - 1) (hhi : s0 + sent.length + 1 ≤ hi)
    (hc : h.closed = false) (hs : SortedPages h.pages) (hok : PagesOK sent s0 h.pages)
    (hn : h.nextSeq = -1 ∨ (s0 ≤ h.nextSeq ∧ h.nextSeq ≤ s0 + sent.length ∧ ∀ p ∈ h.pages, h.nextSeq < p.seq)) :
    ((flushHalf s2c h).2 = [] ↔ h.pages = []) ∧
    (h.nextSeq ≠ -1 → ∀ c ∈ (flushHalf s2c h).2, 0 < c.skip) ∧
    (h.nextSeq = -1 → ∀ c0 rest, (flushHalf s2c h).2 = c0 :: rest → c0.skip = -1 ∧ ∀ c ∈ rest, 0 < c.skip) ∧
    Delivers sent (Proofs.C19GpFlush.pos0 s0 h) ((flushHalf s2c h).2.map fun c => (c.skip, c.data)) ∧
    (∀ c ∈ (flushHalf s2c h).2, c.skip < 4294967296) ∧
    (((flushHalf s2c h).2.filter (fun c => c.skip > 0)).map (fun c => c.skip.toNat)).sum ≤ sent.length ∧
    (flushHalf s2c h).1.closed = true :=
  ⟨Proofs.C19GpFlush.flush_nil_iff s2c h hw hlo hhi hc hs hok hn,
   Proofs.C19GpFlush.flush_skip_pos s2c h hw hlo hhi hc hs hok hn,
   fun he c0 rest hcs => Proofs.C19GpFlush.flush_skip_first s2c h hw hlo hhi hc hs hok hn he c0 rest hcs,
   Proofs.C19GpFlush.flush_delivers s2c h hw hlo hhi hc hs hok hn,
   Proofs.C19GpFlush.flush_skip_lt s2c h hw hlo hhi hc hs hok hn,
   Proofs.C19GpFlush.flush_skip_sum s2c h hw hlo hhi hc hs hok hn,
   Proofs.C19GpFlush.flush_closed s2c h hw hlo hhi hc hs hok hn⟩

/-- non-vacuity of `gopacket_flush_spec`: a page two bytes behind a known `nextSeq` is flushed with skip 2 -/
example :
    let sent : List Nat := [10, 11, 12, 13, 14, 15]
    let h : Half Nat := { nextSeq := 102, pages := [⟨104, [14, 15], false⟩] }
    NoWrap 99 200 ∧ h.closed = false ∧ SortedPages h.pages ∧ PagesOK sent 100 h.pages ∧
    ((100 : Int) ≤ h.nextSeq) ∧ (∀ p ∈ h.pages, h.nextSeq < p.seq) ∧
    (flushHalf false h).2 = [⟨false, false, false, 2, [14, 15]⟩] := by
  refine ⟨by unfold NoWrap; omega, rfl, by simp [SortedPages], ?_, by decide, by simp, by decide⟩
  intro p hp
  simp only [List.mem_singleton] at hp
  subst hp
  refine ⟨⟨by decide, by simp, by simp, by decide⟩, by simp [StopOK]⟩

/-- non-vacuity of the hypotheses: ISN 99, six bytes, SYN, a segment, an overlapping one out of order, a duplicate, FIN -/
example : Win [10, 11, 12, 13, 14, 15] 100 99 200 ∧
    (∀ x ∈ ([(true, ⟨99, true, false, false, []⟩), (true, ⟨103, false, false, false, [13, 14]⟩),
        (true, ⟨100, false, false, false, [10, 11, 12, 13]⟩), (false, ⟨100, false, false, false, [10]⟩),
        (true, ⟨104, false, true, false, [14, 15]⟩)] : List (Bool × Pkt Nat)), GoodPkt [10, 11, 12, 13, 14, 15] 100 x.2) := by
  refine ⟨⟨by unfold NoWrap; omega, by omega, by simp⟩, ?_⟩
  intro x hx
  simp only [List.mem_cons, List.not_mem_nil, or_false] at hx
  rcases hx with rfl | rfl | rfl | rfl | rfl <;> simp [GoodPkt]


/-- the accepted segments are slices of the sent stream -/
theorem segsOf_slices {sent : List α} {s0 : Int} (pkts : List (Bool × Pkt α))
    (hgood : ∀ x ∈ pkts, GoodPkt sent s0 x.2) : Slices sent (segsOf s0 pkts) := by
  intro g hg
  unfold segsOf at hg
  obtain ⟨x, hx, rfl⟩ := List.mem_map.mp hg
  obtain ⟨hx1, hx2⟩ := List.mem_filter.mp hx
  simp only [Bool.and_eq_true, Bool.not_eq_true', List.isEmpty_eq_false_iff] at hx2
  have hsy : x.2.syn = false := by
    cases hs : x.2.syn with
    | true => exact absurd ((hgood x hx1).1 hs).2 hx2.2
    | false => rfl
  have := ((hgood x hx1).2.1 hsy).2.2
  rw [this]
  exact isSlice_mk' sent _ _ rfl _

/-- `gopacket_satisfies_interface`: the interface assumption of `sg_prefix_property` is a THEOREM about the
    transliterated assembler.  One direction whose SYN is among the accepted packets (base 0), any arrival order,
    duplication and overlap of good packets inside a no-wrap window: the calls made while the packets arrive
    (`pre`) and the calls of the single final `FlushAll` (`post`) satisfy `GopacketInterface` relative to the accepted
    segments — in-order delivery, skips only in the flush, everything contiguous delivered before, everything queued
    behind a hole flushed, skips fit. -/
theorem gopacket_satisfies_interface {sent : List α} {s0 lo hi : Int} (w : Win sent s0 lo hi) (s2c : Bool)
    (pkts : List (Bool × Pkt α)) (hgood : ∀ x ∈ pkts, GoodPkt sent s0 x.2) (hsyn : synSeen pkts = true) :
    GopacketInterface sent (segsOf s0 pkts) 0 (traceOf s2c pkts).1 (traceOf s2c pkts).2 :=
  let h := Proofs.C19GpIface.iface_syn w s2c pkts hgood hsyn
  ⟨h.delivers, h.flushOnly, h.exhausts, h.flushes, h.goInt, h.small⟩

/-- the same for a direction whose SYN is not in the capture (or was rejected): nothing is delivered before the
    flush; the flush's first call (skip −1) is `pre`, the rest `post`, and `base` is the lowest captured stream
    offset (covered, nothing captured below it) — the base the reference uses for a capture without SYN. -/
theorem gopacket_satisfies_interface_nosyn {sent : List α} {s0 lo hi : Int} (w : Win sent s0 lo hi) (s2c : Bool)
    (pkts : List (Bool × Pkt α)) (hgood : ∀ x ∈ pkts, GoodPkt sent s0 x.2) (hsyn : synSeen pkts = false) :
    (traceOf s2c pkts).1 = [] ∧
    (((traceOf s2c pkts).2 = [] ∧ ∀ base, GopacketInterface sent (segsOf s0 pkts) base [] []) ∨
     ∃ base c0 post, (traceOf s2c pkts).2 = c0 :: post ∧ c0.skip = -1 ∧
        covered (segsOf s0 pkts) base = true ∧ (∀ i, i < base → covered (segsOf s0 pkts) i = false) ∧
        GopacketInterface sent (segsOf s0 pkts) base [c0] post) := by
  obtain ⟨h1, h2⟩ := Proofs.C19GpIface.iface_nosyn w s2c pkts hgood hsyn
  refine ⟨h1, ?_⟩
  rcases h2 with ⟨_, h3, h4⟩ | ⟨base, c0, post, e, sk, cv, lo', h⟩
  · exact Or.inl ⟨h3, fun base => let h := h4 base; ⟨h.delivers, h.flushOnly, h.exhausts, h.flushes, h.goInt, h.small⟩⟩
  · exact Or.inr ⟨base, c0, post, e, sk, cv, lo', ⟨h.delivers, h.flushOnly, h.exhausts, h.flushes, h.goInt, h.small⟩⟩

/-- `fq_reassembly_correct` (end to end, no hypothesis about gopacket left): fq's `ReassembledSG` accounting run over
    the calls of the transliterated assembler — packets of one direction with its SYN captured, arriving in any order
    with any duplicates and overlaps, then the single flush — ends with Buffer = the sent stream up to the first
    byte no accepted segment carries (`d = prefixEnd` of the reference), and SkippedBytes > 0 iff some accepted segment
    lies beyond that byte.  Inside the modelled fragment: sequence numbers that do not wrap (`Win`), consistent
    contents, SYN without payload, FIN/RST only at the stream's end (`GoodPkt`), gopacket's default options (no
    buffering limits, no timeout flushes), `Accept` = the recorded answers.  Outside: see FqModel/Gopacket.lean. -/
theorem fq_reassembly_correct {sent : List α} {s0 lo hi : Int} (w : Win sent s0 lo hi) (s2c : Bool)
    (pkts : List (Bool × Pkt α)) (hgood : ∀ x ∈ pkts, GoodPkt sent s0 x.2) (hsyn : synSeen pkts = true)
    (dir : Dir α) (hd : dir.buffer = [] ∧ dir.skippedBytes = 0) :
    ∃ d, d ≤ sent.length ∧ prefixEnd (segsOf s0 pkts) 0 = d ∧
      (((traceOf s2c pkts).1 ++ (traceOf s2c pkts).2).foldl sgDir dir).buffer = sent.take d ∧
      (0 < (((traceOf s2c pkts).1 ++ (traceOf s2c pkts).2).foldl sgDir dir).skippedBytes % 18446744073709551616 ↔
        beyond (segsOf s0 pkts) d = true) := by
  obtain ⟨d, hd', _, _, hp, _⟩ := gopacket_delivers_in_order w s2c pkts hgood
  have hpe := (hp hsyn).1
  have hs := segsOf_slices pkts hgood
  have hI := gopacket_satisfies_interface w s2c pkts hgood hsyn
  have := sg_prefix_property sent (segsOf s0 pkts) 0 _ _ hs (by rw [hpe]; exact hd') hI dir hd
  obtain ⟨p1, p2, p3⟩ := prefixEnd_spec (segsOf s0 pkts) 0
  rw [reasmFrom_slices sent (segsOf s0 pkts) 0 _ hs p1 (by rw [hpe]; exact hd') p2 p3, hpe] at this
  refine ⟨d, hd', hpe, ?_, ?_⟩
  · simpa using this.1
  · simpa using this.2

/-- `fq_reassembly_correct` on a concrete history: SYN, then the tail, a duplicate, the overlapping head out of order,
    a segment behind a hole: fq's buffer is the six contiguous bytes, three skipped -/
example :
    let mk := fun (seq : Int) (d : List Nat) (syn : Bool) => ((true, ⟨seq, syn, false, false, d⟩) : Bool × Pkt Nat)
    let pkts := [mk 99 [] true, mk 103 [13, 14, 15] false, mk 103 [13, 14, 15] false, mk 100 [10, 11, 12, 13] false,
      mk 109 [19] false]
    ((((traceOf false pkts).1 ++ (traceOf false pkts).2).foldl sgDir ({} : Dir Nat)).buffer = [10, 11, 12, 13, 14, 15]) ∧
    ((((traceOf false pkts).1 ++ (traceOf false pkts).2).foldl sgDir ({} : Dir Nat)).skippedBytes = 3) ∧
    synSeen pkts = true := by decide

/-- known finding `seq-wrap`, now as a theorem about the transliterated assembler: the exact statement WITH wrap
    fails.  ISN 2^32−3, 8 bytes sent, the segment captured twice: the retransmission's last byte is delivered again
    (9 bytes for 8 sent); a one-byte hole at sequence number 2^32−1 is glued over (bytes 0,1 then 3,4,5 delivered as
    contiguous, nothing left for the flush).  The same packets 1000 sequence numbers below the wrap are handled
    correctly (8 bytes; the hole is reported by the flush with skip 1). -/
theorem gopacket_seq_wrap_witness :
    let mk := fun (seq : Int) (d : List Nat) (syn : Bool) => ((true, ⟨seq, syn, false, false, d⟩) : Bool × Pkt Nat)
    traceOf false [mk 4294967293 [] true, mk 4294967294 [0, 1, 2, 3, 4, 5, 6, 7] false, mk 4294967294 [0, 1, 2, 3, 4, 5, 6, 7] false]
      = ([⟨false, true, false, 0, []⟩, ⟨false, false, false, 0, [0, 1, 2, 3, 4, 5, 6, 7]⟩, ⟨false, false, false, 0, [7]⟩], []) ∧
    traceOf false [mk 1000 [] true, mk 1001 [0, 1, 2, 3, 4, 5, 6, 7] false, mk 1001 [0, 1, 2, 3, 4, 5, 6, 7] false]
      = ([⟨false, true, false, 0, []⟩, ⟨false, false, false, 0, [0, 1, 2, 3, 4, 5, 6, 7]⟩], []) ∧
    traceOf false [mk 4294967293 [] true, mk 4294967294 [0, 1] false, mk 0 [3, 4, 5] false]
      = ([⟨false, true, false, 0, []⟩, ⟨false, false, false, 0, [0, 1]⟩, ⟨false, false, false, 0, [3, 4, 5]⟩], []) ∧
    traceOf false [mk 1000 [] true, mk 1001 [0, 1] false, mk 1004 [3, 4, 5] false]
      = ([⟨false, true, false, 0, []⟩, ⟨false, false, false, 0, [0, 1]⟩], [⟨false, false, false, 1, [3, 4, 5]⟩]) := by
  decide

/-- non-vacuity: out of order, overlapping and duplicated segments after a SYN, with a hole; and a stream without SYN
    (everything waits for the flush, first chunk skip −1) -/
example :
    let mk := fun (seq : Int) (d : List Nat) (syn : Bool) => ((true, ⟨seq, syn, false, false, d⟩) : Bool × Pkt Nat)
    traceOf false [mk 100 [] true, mk 104 [3, 4, 5] false, mk 103 [2, 3] false, mk 101 [0, 1] false, mk 110 [9, 10] false,
        mk 109 [8, 9, 10, 11] false]
      = ([⟨false, true, false, 0, []⟩, ⟨false, false, false, 0, [0, 1, 2, 3, 4, 5]⟩], [⟨false, false, false, 2, [8, 9, 10, 11]⟩]) ∧
    traceOf false [mk 104 [3, 4, 5] false, mk 101 [0, 1] false, mk 103 [2, 3] false]
      = ([], [⟨false, false, false, -1, [0, 1, 2, 3, 4, 5]⟩]) := by decide

example : NoWrap 99 200 := by unfold NoWrap; omega

end gopacket

/-! ### non-vacuity -/

/-- `reasm_complete`: overlapping, duplicated, permuted slices of a stream cover it -/
example :
    let s : List Nat := [10, 11, 12, 13, 14, 15, 16]
    let segs : List (Seg Nat) := [Seg.mk' 4 [14, 15, 16], Seg.mk' 0 [10, 11, 12], Seg.mk' 2 [12, 13, 14], Seg.mk' 0 [10, 11, 12]]
    (∀ i, i < s.length → covered segs i = true) ∧ reasmFrom segs 0 = (s, false) := by decide

example : IsSlice [10, 11, 12, 13, 14, 15, 16] (Seg.mk' 2 [12, 13, 14]) := by
  refine ⟨rfl, ?_⟩
  intro j hj
  simp only [Seg.mk', List.length_cons, List.length_nil] at hj
  match j, hj with
  | 0, _ => rfl
  | 1, _ => rfl
  | 2, _ => rfl

/-- `reasm_complete_perm`: a segmentation with cuts, a duplicate, permuted -/
example :
    let s : List Nat := [10, 11, 12, 13, 14, 15, 16]
    segmentation [1, 2] 0 s = [Seg.mk' 0 [10, 11], Seg.mk' 2 [12, 13, 14], Seg.mk' 5 [15, 16]] ∧
    reasmFrom [Seg.mk' 5 [15, 16], Seg.mk' 0 [10, 11], Seg.mk' 2 [12, 13, 14], Seg.mk' 0 [10, 11]] 0 = (s, false) := by
  decide

/-- `reasm_truncated_prefix`: 8 byte segment of which 3 bytes were captured, then the next segment whole: the 3
    bytes appear, the loss is signalled; without the later segment it is not -/
example :
    reasmFrom [truncSeg 3 (Seg.mk' 0 [10, 11, 12, 13, 14, 15, 16, 17]), truncSeg 8 (Seg.mk' 8 [18, 19])] 0 = ([10, 11, 12], true) ∧
    reasmFrom [truncSeg 3 (Seg.mk' 0 [10, 11, 12, 13, 14, 15, 16, 17])] 0 = ([10, 11, 12], false) ∧
    visiblePayload 20 43 8 = some 3 ∧ visiblePayload 20 30 8 = none ∧ tcpHeaderCut 20 30 = true := by decide

/-- `reasm_prefix`: hole [3,5) with data behind it, and a hole at the end with nothing behind it -/
example :
    reasmFrom [Seg.mk' 5 [15, 16], Seg.mk' 0 [10, 11, 12]] 0 = ([10, 11, 12], true) ∧
    reasmFrom [Seg.mk' 0 [10, 11, 12]] 0 = ([10, 11, 12], false) ∧
    covered [Seg.mk' 5 [15, 16], Seg.mk' 0 [10, 11, 12]] 3 = false := by decide

/-- `defrag_complete`: three fragments, permuted, one duplicated -/
example :
    defragGroup [⟨16, false, [16, 17, 18]⟩, ⟨0, true, List.range 8⟩, ⟨8, true, (List.range 16).drop 8⟩,
      ⟨0, true, List.range 8⟩] = some (List.range 19) := by decide

/-- `sg_accounting` / `sg_prefix_property`: a trace as gopacket produces it (SYN-less start, in-order chunk,
    then the final flush skipping 3 bytes), both directions interleaved -/
example :
    let calls : List (SGCall Nat) :=
      [⟨false, false, false, -1, [0, 1]⟩, ⟨true, true, false, 0, [100]⟩, ⟨false, false, false, 0, [2]⟩,
       ⟨false, false, true, 3, [6, 7]⟩]
    (runSG {} calls).client.buffer = [0, 1, 2] ∧ (runSG {} calls).client.skippedBytes = 3 ∧
    (runSG {} calls).server.buffer = [100] ∧ (runSG {} calls).server.hasStart = true ∧
    (runSG {} calls).client.hasEnd = false := by decide

/-- the hypotheses of `sg_prefix_property` are satisfiable with a non-empty flush -/
example : GopacketInterface (α := Nat) [0, 1, 2, 3, 4, 5, 6, 7] [Seg.mk' 0 [0, 1, 2], Seg.mk' 6 [6, 7]] 0
    [⟨false, false, false, 0, [0, 1, 2]⟩] [⟨false, false, false, 3, [6, 7]⟩] where
  delivers := by simp [Delivers]
  flushOnly := by constructor <;> simp
  exhausts := by decide
  flushes := by decide
  goInt := by simp
  small := by decide

end Props.C19
