import FqModel.CtxStack
import Proofs.C20Seq
import Proofs.C20Spec
import Proofs.C20Ctx
import Proofs.C20Conc
import Proofs.C20Read
import Proofs.C20Copy
import FqModel.CtxReadSeeker
import Proofs.C20Rs
/-!
  C20 — an interrupt cancels exactly the innermost running evaluation, safely.

  Property theorems about the model of internal/ctxstack (FqModel/CtxStack.lean); helper lemmas in
  Proofs/C20Seq.lean (sequential refinement) and Proofs/C20Conc.lean (two-thread machine).

  The statement, split:
   (a) for EVERY sequence of push / finish (in any order, repeated) / interrupt / stop, of any length
       and nesting depth, what a client can observe of the real stack machine (current code,
       `Variant.fixed`) is what the abstract specification `Spec` says — `seq_refines_spec`,
       `seq_refines_spec_trace` (after every operation), `model_state_is_spec` (the whole abstract state);
       the machine never hits a Go runtime panic — `seq_no_panic`;
   (b) the specification says what the property says: an interrupt cancels the innermost running
       evaluation and touches nothing else — `interrupt_only_innermost`, `innermost_is_innermost`;
       finished evaluations are never touched again — `finished_never_touched`, `finish_idempotent`;
       stop cancels everything — `stop_cancels_all`;
   (c) output written through a CtxWriter after cancellation is suppressed — `writer_suppressed`;
       and that holds for every output path that ends in `Write` calls, in particular for a copy that
       is cancelled while it runs: `io.Copy`/`io.CopyBuffer`/`bitiox.CopyBits` into a CtxWriter lets
       exactly the chunks delivered before the cancellation through — `copy_stops_at_cancel`,
       `copy_eq_writes`, `copy_never_cancelled`; a `ReadFrom` fast path that checks the context once
       contradicts it — `copy_fastpath_witness`;
   (d) why the two fixes are needed — `stale_pop_witness` (the pop closure before commit c3499288
       violates the specification on two sequential histories), `unlocked_witness` (without the mutex
       of commit 243f567c a schedule exists on which the goroutine indexes past a truncated slice);
   (e) every interleaving of the locked two-thread machine is equivalent to a sequential run —
       `locked_linearizable`; it cannot deadlock — `locked_no_deadlock` (Proofs/C20Conc.lean).
   (f) an interrupt ends a call blocked in the (context-aware) reader of the innermost evaluation, the
       only other exit is data — `interrupt_unblocks_reader`, `blocked_exits`; a reader used without
       the ctxreadseeker wrapper stays blocked — `plain_reader_only_data`, `plain_reader_stays_blocked`.
  The Go scheduler and memory model are outside the logic (the mutex is modelled as an atomic
  test-and-set, every shared access as one atomic step); the race detector run of the harness is the
  runtime monitor for that part.
-/
namespace Props.C20
open FqModel.CtxStack Proofs.C20

/-! ### (a) refinement, for all operation sequences -/

/-- the abstract state of the machine after any operation sequence is the specification's state:
    same parent links, same set of running evaluations, same directly-cancelled set, same stopped flag -/
theorem model_state_is_spec (ops : List Op) : abs (run .fixed ops) = Spec.run ops :=
  (run_sim ops).2

/-- the core theorem: observable behaviour (Err() ≠ nil of every context ever pushed, panics) of the
    stack machine equals the specification's, for ALL sequences incl. out-of-order finishes -/
theorem seq_refines_spec (ops : List Op) : (run .fixed ops).obs = (Spec.run ops).obs := by
  rw [obs_abs (run_sim ops).1, model_state_is_spec]

/-- … and so after every single operation on the way -/
theorem seq_refines_spec_trace (ops : List Op) : trace .fixed .init ops = Spec.trace .init ops :=
  trace_sim ops St.init inv_init

/-- no index out of range, slice bounds out of range, nil func or nil pointer, ever -/
theorem seq_no_panic (ops : List Op) : (run .fixed ops).rtPanic = false :=
  (run_sim ops).1.noPanic

/-! ### (b) what the specification (hence the machine) guarantees -/

/-- calling the cancel closure of the same evaluation twice is the same as calling it once
    (whole machine state, not only the observation) -/
theorem finish_idempotent (ops : List Op) (i : Nat) :
    run .fixed (ops ++ [.finish i, .finish i]) = run .fixed (ops ++ [.finish i]) := by
  have h := (run_sim ops).1
  have h1 := (step_sim h (.finish i)).1
  rw [run_append, run_append]
  simp only [List.foldl_cons, List.foldl_nil]
  rw [step_finish_eq h1, step_finish_eq h]
  exact finish_noop (step_finish_eq h i ▸ h1) i (not_running_after_finish h i)

/-- … and at any later time: the closure of an evaluation that is no longer running (it finished,
    or an enclosing evaluation finished) leaves the machine exactly as it is — it cannot cancel or
    pop evaluations started since (this is what commit c3499288 repaired) -/
theorem finish_of_finished_is_noop (ops : List Op) (i : Nat)
    (h : (Spec.run ops).running.getD i false = false) :
    run .fixed (ops ++ [.finish i]) = run .fixed ops := by
  have hi := (run_sim ops).1
  rw [run_append]
  simp only [List.foldl_cons, List.foldl_nil]
  rw [step_finish_eq hi]
  apply finish_noop hi
  rw [← map_not_getD]
  rw [← model_state_is_spec ops] at h
  exact h

/-- an interrupt leaves the stack, the flags and the parent links alone (the interrupted evaluation
    stays on the stack until its own cancel closure runs) and sets exactly one cancel bit: that of the
    specification's innermost running evaluation; none when nothing runs or after Stop -/
theorem interrupt_only_innermost (ops : List Op) :
    let m := run .fixed ops
    let m' := step .fixed m .interrupt
    m'.cancelFns = m.cancelFns ∧ m'.cancelled = m.cancelled ∧ m'.cells = m.cells ∧ m'.pops = m.pops ∧
    m'.ctxs.parent = m.ctxs.parent ∧
    m'.ctxs.self = (if (Spec.run ops).stopped then m.ctxs.self
                    else match (Spec.run ops).innermost with
                      | some i => m.ctxs.self.set i true
                      | none => m.ctxs.self) := by
  intro m m'
  have h : SInv m := (run_sim ops).1
  have hfix : m' = interrupt m := step_interrupt_eq h
  obtain ⟨f1, f2, f3, f4, f5, _⟩ := interrupt_frame h
  rw [hfix]
  refine ⟨f1, f2, f3, f4, f5, ?_⟩
  have h2 : abs (interrupt m) = (abs m).step .interrupt := (interrupt_sim h).2
  rw [show abs m = Spec.run ops from model_state_is_spec ops, spec_interrupt] at h2
  have hc : (Spec.run ops).cancelled = m.ctxs.self := by
    rw [← model_state_is_spec ops]; rfl
  show (abs (interrupt m)).cancelled = _
  rw [h2]
  cases hst : (Spec.run ops).stopped
  · cases hin : (Spec.run ops).innermost <;> simp [hc]
  · simp [hc]


/-- `Spec.innermost` means what it says: running, and nothing started later is running -/
theorem innermost_is_innermost (s : Spec) (i : Nat) :
    s.innermost = some i ↔
      (s.running.getD i false = true ∧ ∀ j, i < j → s.running.getD j false = false) :=
  innermost_iff s i

/-- in terms of `Err()`: after an interrupt the contexts with `Err() ≠ nil` are those from before plus
    exactly what cancelling the innermost evaluation's context ALONE cancels (itself and the contexts
    derived from it); in particular every evaluation started before the innermost one — all enclosing
    REPL levels — keeps its context, and the innermost one is cancelled -/
theorem interrupt_keeps_enclosing (ops : List Op) (i : Nat)
    (hs : (Spec.run ops).stopped = false) (hin : (Spec.run ops).innermost = some i) :
    let m := run .fixed ops
    let m' := step .fixed m .interrupt
    m'.ctxs.errs = List.zipWith (· || ·) m.ctxs.errs (only m.ctxs.parent i).errs ∧
    (∀ j, j < i → m'.ctxs.err j = m.ctxs.err j) ∧ m'.ctxs.err i = true := by
  intro m m'
  have h : SInv m := (run_sim ops).1
  obtain ⟨_, _, _, _, hp, hself⟩ := interrupt_only_innermost ops
  simp only [hs, Bool.false_eq_true, if_false, hin] at hself
  have hc : m'.ctxs = m.ctxs.cancel i := by
    show m'.ctxs = ⟨m.ctxs.parent, m.ctxs.self.set i true⟩
    rw [← hp, ← hself]
  have hl : m.ctxs.self.length = m.ctxs.parent.length := by rw [h.slen, h.plen]
  have herrs := errs_cancel m.ctxs i hl
  have hil : i < m.cells.length := by
    have := ((innermost_iff _ i).mp hin).1
    rw [← model_state_is_spec ops] at this
    have h2 : (abs m).running.getD i false = R m.cells i := map_not_getD m.cells i
    exact R_lt (h2 ▸ this)
  refine ⟨by rw [hc]; exact herrs, ?_, ?_⟩
  · intro j hj
    unfold Ctxs.err
    rw [hc, herrs, getD_zipWith_or]
    · have := only_before m.ctxs.parent i j hj
      unfold Ctxs.err at this
      rw [this]; simp
    · unfold Ctxs.errs only
      rw [errsAux_length, errsAux_length]; simp [hl]
  · rw [hc]
    apply err_of_self
    · simp [Ctxs.cancel, List.getElem?_set, h.slen, hil]
    · show i < m.ctxs.parent.length
      rw [h.plen]; exact hil

/-- evaluations that already finished (or were ended by an enclosing one) are unaffected by whatever
    happens later: they stay finished and their cancel bit is not written again -/
theorem finished_never_touched (ops : List Op) (op : Op) (j : Nat)
    (hj : j < (Spec.run ops).running.length) (hr : (Spec.run ops).running.getD j false = false) :
    let m := run .fixed ops
    let m' := step .fixed m op
    (abs m').running.getD j false = false ∧ m'.ctxs.self.getD j false = m.ctxs.self.getD j false := by
  intro m m'
  have h1 : abs m' = (Spec.run ops).step op := by
    have := model_state_is_spec (ops ++ [op])
    rw [run_append] at this
    simp only [List.foldl_cons, List.foldl_nil] at this
    rw [this]; simp [Spec.run, List.foldl_append]
  have h0 : abs m = Spec.run ops := model_state_is_spec ops
  obtain ⟨a, b⟩ := not_running_untouched (Spec.run ops) op j hj hr
  refine ⟨by rw [h1]; exact a, ?_⟩
  show (abs m').cancelled.getD j false = (abs m).cancelled.getD j false
  rw [h1, h0]; exact b

/-- stopping the interpreter cancels everything: after Stop every context ever pushed has Err() ≠ nil -/
theorem stop_cancels_all (ops : List Op) (j : Nat) (hj : j < (run .fixed ops).ctxs.size) :
    (run .fixed (ops ++ [.stop])).ctxs.err j = true := by
  have hm := model_state_is_spec (ops ++ [.stop])
  have h0 := model_state_is_spec ops
  have hinv := specInv_run ops
  have hstep : Spec.run (ops ++ [.stop]) = (Spec.run ops).step .stop := by
    simp [Spec.run, List.foldl_append]
  have hjr : j < (Spec.run ops).running.length := by
    rw [← hinv.lp, ← h0]; exact hj
  have hall := stop_all (Spec.run ops) hinv j hjr
  rw [← hstep, ← hm] at hall
  apply err_of_self _ j hall
  show j < (abs (run .fixed (ops ++ [.stop]))).parent.length
  rw [hm, hstep]
  simp only [Spec.step]
  rw [hinv.lp]; exact hjr

/-! ### (c) iox.CtxWriter -/

/-- a write through a CtxWriter whose context is cancelled never reaches the sink and reports 0 bytes,
    whatever it wraps -/
theorem writer_suppressed (c : Ctxs) (i : Nat) (w : Writer) (p sink : List UInt8) (h : c.err i = true) :
    (Writer.ctx (some i) w).write c p sink = (sink, 0) := by
  simp [Writer.write, Writer.passes, h]

/-- … and so for every writer that has such a CtxWriter anywhere in its chain (nested `_eval`) -/
theorem writer_suppressed_nested (c : Ctxs) (i : Nat) (h : c.err i = true) (w : Writer)
    (outer : List (Option Nat)) : (outer.foldr Writer.ctx (Writer.ctx (some i) w)).passes c = false := by
  induction outer with
  | nil => simp [Writer.passes, h]
  | cons o rest ih =>
    cases o with
    | none => simpa [Writer.passes] using ih
    | some k => simp [Writer.passes, ih]

/-- a live chain lets the bytes through unchanged -/
theorem writer_passes_live (c : Ctxs) (i : Nat) (p sink : List UInt8) (h : c.err i = false) :
    (Writer.ctx (some i) .sink).write c p sink = (sink ++ p, p.length) := by
  simp [Writer.write, Writer.passes, h]

/-! ### (c') a copy into a CtxWriter that is cancelled while it runs

  `cB` / `cA` = the contexts before / after the cancellation, which lands after the source has
  delivered `k` chunks; any chunking, any cancellation point, any writer chain. -/

/-- copying ≡ handing the chunks to `Write` one by one (ignoring the errors): the same bytes reach
    the sink, for every chunking and every cancellation point (`hmono`: contexts are not revived) -/
theorem copy_eq_writes (cB cA : Ctxs) (w : Writer) (chunks : List (List UInt8)) (ca : Option Nat)
    (sink : List UInt8) (hmono : w.passes cB = false → w.passes cA = false) :
    (w.copyFrom cB cA chunks ca sink).sink = writeAll cB cA w ca 0 chunks sink :=
  copyLoop_eq_writeAll cB cA w ca hmono chunks 0 _

/-- the bytes that reach the sink are exactly the concatenation of the chunks delivered before the
    cancellation, and `written` counts exactly them: nothing of chunk `k` or later. (The real copy
    may be cancelled while `Write` of chunk `k` is already past its check — then chunk `k`, "the chunk
    in flight", arrives too; the driver's predicate allows it, the model places the cancellation
    between two writes.) -/
theorem copy_stops_at_cancel (cB cA : Ctxs) (w : Writer) (chunks : List (List UInt8)) (k : Nat)
    (sink : List UInt8) (hB : w.passes cB = true) (hA : w.passes cA = false) :
    (w.copyFrom cB cA chunks (some k) sink).sink = sink ++ (chunks.take k).flatten ∧
    (w.copyFrom cB cA chunks (some k) sink).written = ((chunks.take k).flatten).length := by
  have := copyLoop_take cB cA w k hB hA chunks 0 ⟨sink, 0, false⟩
  simpa [Writer.copyFrom] using this

/-- … instantiated: the CtxWriter of evaluation `i` (anywhere in a chain of nested `_eval` writers whose
    other contexts stay live), context `i` cancelled by the interrupt -/
theorem copy_stops_at_cancel_ctx (c : Ctxs) (i : Nat) (chunks : List (List UInt8)) (k : Nat)
    (sink : List UInt8) (hB : c.err i = false) (hA : (c.cancel i).err i = true) :
    ((Writer.ctx (some i) .sink).copyFrom c (c.cancel i) chunks (some k) sink).sink =
      sink ++ (chunks.take k).flatten :=
  (copy_stops_at_cancel c (c.cancel i) _ chunks k sink (by simp [Writer.passes, hB])
    (by simp [Writer.passes, hA])).1

/-- never cancelled: every byte arrives, in order, no error -/
theorem copy_never_cancelled (cB cA : Ctxs) (w : Writer) (chunks : List (List UInt8)) (sink : List UInt8)
    (hB : w.passes cB = true) :
    w.copyFrom cB cA chunks none sink = ⟨sink ++ chunks.flatten, chunks.flatten.length, false⟩ := by
  have := copyLoop_all cB cA w hB chunks 0 ⟨sink, 0, false⟩
  simpa [Writer.copyFrom] using this

/-- the driver's length-only evaluation of the copy loop is the byte-level model's `written`/`err` -/
theorem copy_len_abstraction (cB cA : Ctxs) (w : Writer) (chunks : List (List UInt8)) (ca : Option Nat)
    (sink : List UInt8) :
    ((w.copyFrom cB cA chunks ca sink).written, (w.copyFrom cB cA chunks ca sink).err) =
      copyLen (fun j => w.passes (ctxAt cB cA ca j)) 0 (chunks.map List.length) 0 ∧
    (w.copyFrom cB cA chunks ca sink).sink.length = sink.length + (w.copyFrom cB cA chunks ca sink).written := by
  have := copyLoop_len cB cA w ca chunks 0 ⟨sink, 0, false⟩ rfl
  simpa [Writer.copyFrom] using this

/-- a `ReadFrom` fast path that consults the context once (the seeded change) lets the chunks after the
    cancellation through: it is not the modelled writer -/
theorem copy_fastpath_witness :
    let cB := Ctxs.empty.withCancel none
    let cA := cB.cancel 0
    let w := Writer.ctx (some 0) .sink
    (w.copyFrom cB cA [[1], [2], [3]] (some 1) []).sink = [1] ∧
    (w.copyFromFast cB cA [[1], [2], [3]] (some 1) []).sink = [1, 2, 3] := by decide

/-- copy_stops_at_cancel / copy_eq_writes: the hypotheses hold for the CtxWriter of a cancelled inner
    evaluation wrapped around the CtxWriter of a live outer one; chunks of different sizes incl. an
    empty read; the cancellation after 2 chunks -/
example :
    let cB := (Ctxs.empty.withCancel none).withCancel (some 0)
    let cA := cB.cancel 1
    let w := Writer.ctx (some 1) (Writer.ctx (some 0) .sink)
    w.passes cB = true ∧ w.passes cA = false ∧ (w.passes cB = false → w.passes cA = false) ∧
    (w.copyFrom cB cA [[1, 2], [], [3], [4, 5], [6]] (some 2) [9]) = ⟨[9, 1, 2], 2, true⟩ ∧
    writeAll cB cA w (some 2) 0 [[1, 2], [], [3], [4, 5], [6]] [9] = [9, 1, 2] := by decide

/-- copy_stops_at_cancel_ctx: a live context whose cancellation is visible -/
example : (Ctxs.empty.withCancel none).err 0 = false ∧ ((Ctxs.empty.withCancel none).cancel 0).err 0 = true := by
  decide

/-! ### (d) why the fixes are needed -/

def histA : List Op := [.push none, .push none, .push none, .finish 0, .push none, .finish 2, .interrupt]
def histB : List Op := [.push none, .push none, .finish 0, .push none, .push none, .finish 1]

/-- the pop closure as it was before commit c3499288 violates the specification:
    A: push A,B,C; finish A; push D; finish C; interrupt — D must be cancelled and is not (the reslice
       `s.cancelFns[0:2]` made the stale entry of B the top of the stack);
    B: push A,B; finish A; push D,E; finish B — E must stay live and is cancelled and popped.
    The current code agrees with the specification on both. -/
theorem stale_pop_witness :
    (run .oldPop histA).obs.errs = [true, true, true, false] ∧ (Spec.run histA).obs.errs = [true, true, true, true] ∧
    (run .oldPop histB).obs.errs = [true, true, false, true] ∧ (Spec.run histB).obs.errs = [true, true, false, false] ∧
    (run .fixed histA).obs = (Spec.run histA).obs ∧ (run .fixed histB).obs = (Spec.run histB).obs := by
  decide

/-- so the refinement theorem is false of the old pop closure -/
theorem old_pop_does_not_refine : ¬ ∀ ops, (run .oldPop ops).obs = (Spec.run ops).obs := by
  intro h
  have := h histA
  revert this
  decide

def witnessProg : List Op := [.push none, .interrupt, .finish 0]

/-- evaluator: Push completely (8 steps) and the interrupt arrives; goroutine: trigger returns, select,
    (no) lock, `len > 0`, `len-1 = 0`; evaluator: the cancel closure up to and including the truncation
    `s.cancelFns = s.cancelFns[0:0]`; goroutine: `s.cancelFns[0]` -/
def witnessSched : List Tid := rep .eval 8 ++ rep .trig 5 ++ rep .eval 9 ++ rep .trig 1

/-- without the mutex (code before commit 243f567c) this schedule makes the goroutine index a slice
    that was truncated under its feet: Go panics with "index out of range [0] with length 0" in a
    goroutine nobody can recover. With the mutex the same schedule is harmless: the evaluator's
    steps wait for the goroutine's critical section. -/
theorem unlocked_witness :
    (crun .original witnessSched (.init witnessProg)).sh.rtPanic = true ∧
    (crun .original (witnessSched.take 22) (.init witnessProg)).tpc = .load (some 0) ∧
    (crun .original (witnessSched.take 22) (.init witnessProg)).sh.cancelFns.len = 0 ∧
    (crun .current witnessSched (.init witnessProg)).sh.rtPanic = false := by
  decide


/-! ### (e) the locked two-thread machine -/

/-- Every interleaving of the current code's two-thread machine (mutex, one atomic step per access
    to the shared slice headers / elements / flags) is equivalent to a sequential run:
    for every program `prog` of the evaluator thread in which Stop (if any) comes last, and every
    schedule, there is a sequence `lin` such that
      * no Go runtime panic has happened,
      * the shared state — with the critical section that is in progress, if any, run to its end —
        is exactly `run .fixed lin`; when both threads are between operations it is the shared state itself,
      * `lin` is the evaluator's operations executed so far, in program order (followed by the one it
        has fetched but not yet linearized and the rest of the program: together the whole program),
        with interrupts inserted, each at the moment the goroutine took the mutex for it,
      * and not more interrupts than have arrived.
    Together with `seq_refines_spec` every reachable state of the concurrent machine therefore
    satisfies the specification for some such order. -/
theorem locked_linearizable (prog : List Op) (hs : StopLast prog) (sched : List Tid) :
    let c := crun .current sched (.init prog)
    c.sh.rtPanic = false ∧
    ∃ (lin : List Op) (cur : Nat),
      absC c = run .fixed lin ∧
      (c.epc = .idle → tIn c.tpc = false → c.sh = run .fixed lin) ∧
      evalOps lin ++ inflight c.epc cur ++ evalOps c.prog = evalOps prog ∧
      ints lin + c.pending + tok c + ints c.prog ≤ ints prog := by
  intro c
  have hg := gi_run sched (G.init prog) (gi_init prog hs)
  have ha := acc_run prog sched (G.init prog) (gi_init prog hs) (acc_init prog)
  have hc : (grun sched (G.init prog)).c = c := grun_c sched (G.init prog)
  have hnp := gi_np hg
  rw [hc] at hnp
  refine ⟨hnp, (grun sched (G.init prog)).lin, (grun sched (G.init prog)).cur, ?_, ?_, ?_, ?_⟩
  · rw [← hc]; exact hg.ab
  · intro hidle htin
    have := hg.ab
    rw [hc, absC_eq c hnp, hidle, finT_out _ htin] at this
    exact this
  · have := ha.ord; rw [hc] at this; exact this
  · have := ha.cnt; rw [hc] at this; exact this

/-- the locked machine cannot deadlock: whenever the evaluator still has work, some thread can move -/
theorem locked_no_deadlock (prog : List Op) (hs : StopLast prog) (sched : List Tid) :
    let c := crun .current sched (.init prog)
    (c.prog ≠ [] ∨ c.epc ≠ .idle) → (cstep .current .eval c).isSome = true ∨ (cstep .current .trig c).isSome = true := by
  intro c hwork
  have hg := gi_run sched (G.init prog) (gi_init prog hs)
  have hc : (grun sched (G.init prog)).c = c := grun_c sched (G.init prog)
  have hnp := gi_np hg
  have hmi := hg.mi
  rw [hc] at hnp hmi
  rw [cstep_eq _ c hnp, cstep_eq _ c hnp]
  exact progress c hmi hwork

/-! ### (f) an evaluation blocked in a read of its input -/

/-- An interrupt gets a blocked reader out: in every reachable state of the machine with readers
    (any mix of stack operations, interrupts, reads and data arrivals), if the interpreter has not
    been stopped and a call is blocked on a context-aware reader (`ctxreadseeker`, what `open` uses)
    bound to the context `c` of the evaluation on top of the stack — the evaluation that is
    executing the read — then one interrupt ends the blocked state with the cancellation result,
    `c` has Err() ≠ nil, and every older (enclosing) context keeps its Err(). -/
theorem interrupt_unblocks_reader (ops : List ROp) (c : Nat) :
    let s := rrun ops
    s.st.stopped = false → s.blocked = some ⟨c, .ctxAware⟩ → top s.st = some c →
    let s' := rstep s (.ev .interrupt)
    s'.blocked = none ∧ s'.results = s.results ++ [.cancelled] ∧ s'.st.ctxs.err c = true ∧
    ∀ j, j < c → s'.st.ctxs.err j = s.st.ctxs.err j := by
  intro s hs hb ht s'
  have hinv : SInv s.st := rrun_inv ops
  obtain ⟨herr, hkeep⟩ := interrupt_top hinv hs c ht
  have hs' : s' = wake { s with st := step .fixed s.st .interrupt } := rfl
  have hw : s' = { s with st := step .fixed s.st .interrupt, blocked := none, results := s.results ++ [.cancelled] } := by
    rw [hs']; unfold wake; simp only [hb]
    rw [if_pos ⟨trivial, herr⟩]
  rw [hw]
  exact ⟨rfl, rfl, herr, hkeep⟩

/-- the blocked state has only these exits: the underlying call returns, or — for a context-aware
    reader only — an interrupt -/
theorem blocked_exits (s : RSt) (b : Blocked) (op : ROp) (hb : s.blocked = some b)
    (hn : (rstep s op).blocked = none) : op = .data ∨ (op = .ev .interrupt ∧ b.kind = .ctxAware) := by
  cases op with
  | data => exact Or.inl rfl
  | read k c => simp [rstep, hb] at hn
  | ev o =>
    cases o with
    | interrupt =>
      right; refine ⟨rfl, ?_⟩
      simp only [rstep, wake, hb] at hn
      split at hn
      · rename_i h; exact h.1
      · simp [hb] at hn
    | push p => simp [rstep, hb] at hn
    | finish i => simp [rstep, hb] at hn
    | stop => simp [rstep, hb] at hn

/-- a reader used without the context wrapper stays blocked whatever is cancelled: only data gets it out -/
theorem plain_reader_only_data (s : RSt) (c : Nat) (op : ROp) (hb : s.blocked = some ⟨c, .plain⟩)
    (hop : op ≠ .data) : (rstep s op).blocked = some ⟨c, .plain⟩ := by
  cases op with
  | data => exact absurd rfl hop
  | read k c' => simp [rstep, hb]
  | ev o =>
    cases o with
    | interrupt => simp [rstep, wake, hb]
    | push p => simp [rstep, hb]
    | finish i => simp [rstep, hb]
    | stop => simp [rstep, hb]

/-- the witness for seeded change S2-C20-2 (`io.ReadAll(f)` instead of
    `io.ReadAll(ctxreadseeker.New(ctx, …))` for non-seekable input): evaluation 0 encloses evaluation 1,
    which blocks reading its input; the interrupt cancels context 1 and leaves 0 alone in both cases,
    but the plain reader is still blocked afterwards (fq hangs until the producer writes or closes),
    the context-aware one has returned the cancellation -/
theorem plain_reader_stays_blocked :
    let pre : List ROp := [.ev (.push none), .ev (.push (some 0))]
    (rrun (pre ++ [.read .plain 1, .ev .interrupt])).blocked = some ⟨1, .plain⟩ ∧
    (rrun (pre ++ [.read .plain 1, .ev .interrupt])).st.obs.errs = [false, true] ∧
    (rrun (pre ++ [.read .ctxAware 1, .ev .interrupt])).blocked = none ∧
    (rrun (pre ++ [.read .ctxAware 1, .ev .interrupt])).results = [.cancelled] ∧
    (rrun (pre ++ [.read .ctxAware 1, .ev .interrupt])).st.obs.errs = [false, true] := by
  decide

/-! ### non-vacuity: the hypotheses of the theorems above are satisfiable by non-trivial values -/

/-- a history with nesting, an out-of-order finish and an interrupt: 3 evaluations, #1 and #2 ended by
    finishing #1, #3 started afterwards and interrupted -/
def exOps : List Op := [.push none, .push (some 0), .push (some 1), .finish 1, .push (some 0), .interrupt]

/-- finish_of_finished_is_noop: evaluation 2 is not running (ended by its enclosing evaluation 1)
    while evaluation 3, started later, is — the situation of histories A and B -/
example : (Spec.run exOps).running.getD 2 false = false ∧ (Spec.run exOps).running.getD 3 false = true := by decide

/-- interrupt_keeps_enclosing: not stopped, innermost = 3, with an enclosing evaluation 0 that is its parent -/
example : (Spec.run exOps).stopped = false ∧ (Spec.run exOps).innermost = some 3 ∧
    (Spec.run exOps).parent = [none, some 0, some 1, some 0] := by decide

/-- … and its conclusion on that value: only 3 changes, 0 (enclosing, parent of 3) stays live -/
example : (run .fixed exOps).obs.errs = [false, true, true, true] ∧
    (run .fixed (exOps.take 5)).obs.errs = [false, true, true, false] := by decide

/-- finished_never_touched: j = 1 is a finished evaluation of a 4-evaluation history -/
example : 1 < (Spec.run exOps).running.length ∧ (Spec.run exOps).running.getD 1 false = false := by decide

/-- stop_cancels_all: contexts exist and one of them (0) is still live before the stop -/
example : 0 < (run .fixed exOps).ctxs.size ∧ (run .fixed exOps).ctxs.err 0 = false ∧
    (run .fixed (exOps ++ [.stop])).obs.errs = [true, true, true, true] := by decide

/-- writer_suppressed: a cancelled context whose CtxWriter wraps the CtxWriter of a live parent -/
example : (run .fixed exOps).ctxs.err 3 = true ∧ (run .fixed exOps).ctxs.err 0 = false ∧
    (Writer.ctx (some 3) (Writer.ctx (some 0) .sink)).write (run .fixed exOps).ctxs [120] [1, 2] = ([1, 2], 0) ∧
    (Writer.ctx (some 0) .sink).write (run .fixed exOps).ctxs [120] [1, 2] = ([1, 2, 120], 1) := by decide

/-- innermost_is_innermost: both directions are inhabited -/
example : (Spec.run exOps).innermost = some 3 ∧ (Spec.run [.push none, .finish 0]).innermost = none := by decide


/-- locked_linearizable / locked_no_deadlock: a program with nesting, an arriving interrupt, an
    out-of-order finish and a final Stop satisfies `StopLast`; on the schedule of `unlocked_witness`
    extended to completion the locked machine ends in the sequential state of one linearization -/
example : StopLast [.push none, .push (some 0), .interrupt, .finish 0, .finish 1, .stop] :=
  stopLast_of_b _ (by decide)

/-- the schedule of `unlocked_witness`, run on to quiescence -/
def fullSched : List Tid := witnessSched ++ rep .trig 6 ++ rep .eval 12 ++ rep .trig 6

-- on it the locked machine ends between operations in exactly the sequential state of the
-- linearization push; finish 0; interrupt (the evaluator's critical sections went first)
set_option maxRecDepth 10000 in
example :
    let c := crun .current fullSched (.init witnessProg)
    c.epc = .idle ∧ c.tpc = .wait ∧ c.prog = [] ∧ c.pending = 0 ∧
    c.sh = run .fixed [.push none, .finish 0, .interrupt] := by
  decide

/-- interrupt_unblocks_reader: its three hypotheses hold together in a reachable state (not stopped,
    a context-aware read of the innermost evaluation 1 is blocked, 1 is on top of the stack), with an
    enclosing evaluation 0 that must keep its context -/
example :
    let s := rrun [.ev (.push none), .ev (.push (some 0)), .read .ctxAware 1]
    s.st.stopped = false ∧ s.blocked = some ⟨1, .ctxAware⟩ ∧ top s.st = some 1 := by decide

/-- blocked_exits: both exits occur -/
example :
    (rrun [.ev (.push none), .read .ctxAware 0, .data]).results = [.data] ∧
    (rrun [.ev (.push none), .read .ctxAware 0, .ev .interrupt]).results = [.cancelled] ∧
    -- a read on an already cancelled context does not block at all (callWait's first select)
    (rrun [.ev (.push none), .ev .interrupt, .read .ctxAware 0]).blocked = none := by decide

/-! ### (g) "safely" for the input side: which goroutine may touch the underlying reader of a
    ctxreadseeker, and when (FqModel/CtxReadSeeker.lean — small-step model of
    internal/ctxreadseeker/ctxreadseeker.go: caller goroutine, loop goroutine, fnCh, waitCh, ctx.Done).
    A schedule is any list of actions that are enabled one after the other: all interleavings of all
    sequences of Read/Seek/Close calls with cancellations at any moment, unbounded. -/
section ctxreadseeker

/-- underlying_ops_exclusive: in EVERY state reachable by ANY schedule of the code as it is —
    at most one operation (Read/Seek/Close) on the underlying reader is in progress and none ever began
    while another was in progress; no operation is ever issued by the caller's goroutine (all belong to
    the loop goroutine); the Close on cancellation happens at most once, and no operation begins after it
    began; the underlying Close is called at most once more than Reader.Close was called.
    (A state "during" a schedule is the end state of a prefix, which is itself a schedule.) -/
theorem underlying_ops_exclusive (closer : Bool) (sched : List FqModel.CtxRS.Act) (s : FqModel.CtxRS.St) (es : List FqModel.CtxRS.Ev)
    (h : FqModel.CtxRS.run .fixed sched (FqModel.CtxRS.init closer) = some (s, es)) :
    s.mon.busy ≤ 1 ∧ s.mon.overlap = false ∧ s.callerOps = 0 ∧ s.cclose ≤ 1 ∧ s.late = false ∧
    s.mon.closes ≤ s.mon.callsClose + 1 := by
  have i := Proofs.C20Rs.run_inv (Proofs.C20Rs.inv_init closer) h
  have hb := i.busy
  have hc := i.ccl
  have hcl := i.closes
  refine ⟨?_, i.ov, i.cops, ?_, i.late, ?_⟩
  · rw [hb]; cases s.loop <;> simp [Proofs.C20Rs.loopBusy]
  · cases hl : s.loop <;> simp [hl, Proofs.C20Rs.loopCl] at hc <;> omega
  · cases hl : s.loop <;> simp [hl, Proofs.C20Rs.loopCl] at hc <;> omega

/-- the same on what can be OBSERVED (the events the underlying reader and the caller see, which is what
    the harness records from the real code): the event sequence of every schedule passes the monitor
    `Mon.ok` that the driver evaluates on the implementation's recorded events. -/
theorem underlying_ops_exclusive_trace (closer : Bool) (sched : List FqModel.CtxRS.Act) (s : FqModel.CtxRS.St) (es : List FqModel.CtxRS.Ev)
    (h : FqModel.CtxRS.run .fixed sched (FqModel.CtxRS.init closer) = some (s, es)) : (FqModel.CtxRS.monOf es).ok = true := by
  have i := Proofs.C20Rs.run_inv (Proofs.C20Rs.inv_init closer) h
  have hm : s.mon = FqModel.CtxRS.monOf es := Proofs.C20Rs.run_mon h
  have hcl := (underlying_ops_exclusive closer sched s es h).2.2.2.2.2
  rw [← hm]
  simp [FqModel.CtxRS.Mon.ok, i.ov, i.bad, hcl]

/-- the monitor in the model's state is the monitor over the emitted events, for every variant -/
theorem monitor_is_trace_monitor (v : FqModel.CtxRS.Variant) (closer : Bool) (sched : List FqModel.CtxRS.Act) (s : FqModel.CtxRS.St) (es : List FqModel.CtxRS.Ev)
    (h : FqModel.CtxRS.run v sched (FqModel.CtxRS.init closer) = some (s, es)) : s.mon = FqModel.CtxRS.monOf es := Proofs.C20Rs.run_mon h

/-- cancel_returns_promptly: a caller waiting in either select of callWait on a cancelled context can
    return the context error by a step of its own — whatever the loop goroutine is doing (in particular
    while the underlying Read is still blocked), without touching the underlying reader. -/
theorem cancel_returns_promptly (s : FqModel.CtxRS.St) (hc : s.cancelled = true) :
    (s.caller = .sel2 → FqModel.CtxRS.step .fixed s .cSel2Cancel = some ({ s with caller := .ret false }, none)) ∧
    (∀ k, s.caller = .sel1 k → FqModel.CtxRS.step .fixed s .cSel1Cancel = some ({ s with caller := .ret false }, none)) := by
  constructor
  · intro h; simp [FqModel.CtxRS.step, h, hc, FqModel.CtxRS.silent]
  · intro k h; simp [FqModel.CtxRS.step, h, hc, FqModel.CtxRS.silent]

/-- seeded_close_overlaps_read: the variant that closes from callWait on cancellation reaches a state with
    the underlying Close (on the caller's goroutine) in progress while the Read on the loop goroutine
    has not returned. -/
theorem seeded_close_overlaps_read :
    ∃ s es, FqModel.CtxRS.run .callerClose [.call .read, .send, .opBegin, .cancel, .cSel2Cancel, .cClBegin] (FqModel.CtxRS.init true) = some (s, es) ∧
      s.mon.busy = 2 ∧ s.mon.overlap = true ∧ s.callerOps = 1 ∧ (FqModel.CtxRS.monOf es).ok = false := by
  refine ⟨_, _, rfl, ?_⟩
  decide

/-- the same schedule up to the cancellation is a schedule of the code as it is, where the caller returns
    and the reader stays with the loop goroutine -/
example : ∃ s es, FqModel.CtxRS.run .fixed [.call .read, .send, .opBegin, .cancel, .cSel2Cancel, .ret, .opEnd] (FqModel.CtxRS.init true) = some (s, es) ∧
    s.mon.busy = 0 ∧ s.loop = .send ∧ es = [.call .read, .b .read, .cancel, .ret false, .e .read] :=
  ⟨_, _, rfl, by decide⟩

/-- underlying_ops_exclusive is not vacuous: a long schedule with a cancelled call, a Close by the loop -/
example : ∃ s es, FqModel.CtxRS.run .fixed [.call .read, .send, .opBegin, .opEnd, .recv, .ret, .call .close, .send, .opBegin,
    .opEnd, .recv, .ret, .cancel, .lCancel, .lClBegin, .lClEnd, .call .seek, .cSel1Cancel, .ret] (FqModel.CtxRS.init true) = some (s, es) ∧
    s.mon.closes = 2 ∧ s.loop = .exited :=
  ⟨_, _, rfl, by decide⟩

/-- cancel_returns_promptly: the hypotheses hold in a reachable state with the underlying Read in progress -/
example : ∃ s es, FqModel.CtxRS.run .fixed [.call .read, .send, .opBegin, .cancel] (FqModel.CtxRS.init true) = some (s, es) ∧
    s.cancelled = true ∧ s.caller = .sel2 ∧ s.loop = .inOp .read := ⟨_, _, rfl, by decide⟩

end ctxreadseeker

end Props.C20
