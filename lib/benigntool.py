#!/usr/bin/env python3
"""Harmless-change tooling (the false-alarm side of seeded-change testing).

  benigntool.py install <candidate dir> <B-id> <Cxx>   confirm a candidate harmless change in a scratch worktree (applies,
                                                       builds, full suite passes) and store it as /verif/seeded/<B-id>/
  benigntool.py run <B-id> [tier]                      apply it in a scratch worktree and run the property's check against it
                                                       (VERIF_REPO); expected outcome: exit 0 and no VIOLATION line
  benigntool.py runall [tier] [Cxx ...]                every seeded/B-*; writes seeded/BENIGN_RESULTS.json

A change stored here keeps the property true (argued in its meta.json, and the unedited suite passes with it); a check
that alarms on one raises a false alarm and has to be corrected (DESIGN.md §29).
"""
import json, os, re, shutil, sys, time, hashlib, concurrent.futures as cf
sys.path.insert(0, os.path.dirname(os.path.abspath(__file__)))
import seedtool
from seedtool import sh, mkwt, rmwt, VERIF


def install(cand, bid, pid):
    res = {"candidate": cand, "id": bid, "property": pid}
    wt = mkwt("b" + bid)
    try:
        patch = os.path.join(cand, "patch.diff")
        rc, o = sh(["git", "-C", wt, "apply", patch])
        res["applies"] = rc == 0
        if rc != 0:
            res["error"] = o[-400:]
            return res
        rc, o = sh("go build ./...", cwd=wt)
        res["builds"] = rc == 0
        if rc != 0:
            res["error"] = o[-400:]
            return res
        rc, o = sh("go test -vet=off -count=1 -timeout 90m ./... 2>&1 | grep -v 'no test files'", cwd=wt, timeout=7200)
        failed = [x for x in re.findall(r"^FAIL[ \t]+(\S+)", o, re.M) if "/" in x]
        still = []
        for pkg in failed:
            ok = False
            for _ in range(2):
                rc2, o2 = sh(f"go test -vet=off -count=1 -timeout 60m {pkg}", cwd=wt, timeout=4000)
                if rc2 == 0:
                    ok = True
                    break
            if not ok:
                still.append(pkg)
                res["suite_tail"] = o2[-600:]
        res["suite_first_run_failed_pkgs"] = failed
        res["suite_passes"] = not still and "panic:" not in o
        res["ok"] = res["suite_passes"]
        if res["ok"]:
            d = os.path.join(VERIF, "seeded", bid)
            os.makedirs(d, exist_ok=True)
            shutil.copy(patch, d)
            try:
                m = json.load(open(os.path.join(cand, "meta.json")))
            except Exception:
                m = {}
            m["property"] = pid
            m["harmless"] = True
            m["origin"] = ("independent sub-agent given only the property text and a scratch worktree of /repo (nothing "
                           "from /verif), asked for a realistic change that keeps the property true")
            m["what_i_ran"] = ("lib/benigntool.py install (fresh scratch worktree of /repo HEAD): patch applies, go build ./... ok, "
                               "full suite `go test -vet=off -count=1 ./...` passes with the change (first-run failing packages "
                               f"re-run alone because of timing flakes under load: {failed})")
            json.dump(m, open(os.path.join(d, "meta.json"), "w"), indent=1)
    finally:
        rmwt(wt)
    return res


def run(bid, tier="quick"):
    d = os.path.join(VERIF, "seeded", bid)
    meta = json.load(open(os.path.join(d, "meta.json")))
    pid = meta["property"]
    wt = mkwt("r" + bid)
    out = {"id": bid, "property": pid, "tier": tier}
    try:
        rc, o = sh(["git", "-C", wt, "apply", os.path.join(d, "patch.diff")])
        if rc != 0:
            out["error"] = "patch does not apply: " + o[-300:]
            return out
        t = time.time()
        rc, o = sh([os.path.join(VERIF, "check"), pid, "--tier", tier], cwd=VERIF,
                   env=dict(os.environ, VERIF_REPO=wt), timeout=7200)
        vio = [l for l in o.splitlines() if l.startswith("VIOLATION")]
        out.update(exit=rc, silent=(rc == 0 and not vio), wall_s=round(time.time() - t))
        if not out["silent"]:
            out["violation"] = vio[:1]
            detail = ""
            m = re.search(r"replay=(\S+)", vio[0]) if vio else None
            if m and os.path.exists(m.group(1)):
                rp = json.load(open(m.group(1)))
                detail = (rp.get("verdict") or "; ".join(rp.get("broken", [])[:3]) or json.dumps(rp.get("divergences", [])[:1]))[:600]
            out["detail"] = detail
            out["output_tail"] = o[-1500:]
    finally:
        rmwt(wt)
        shutil.rmtree(os.path.join(VERIF, ".build", "alt_" + hashlib.sha1(wt.encode()).hexdigest()[:8]), ignore_errors=True)
    return out


if __name__ == "__main__":
    cmd = sys.argv[1]
    if cmd == "install":
        print(json.dumps(install(sys.argv[2], sys.argv[3], sys.argv[4]), indent=1))
    elif cmd == "run":
        print(json.dumps(run(sys.argv[2], *(sys.argv[3:4])), indent=1))
    elif cmd == "runall":
        tier = sys.argv[2] if len(sys.argv) > 2 else "quick"
        only = set(sys.argv[3:])
        by = {}
        for bid in sorted(os.listdir(os.path.join(VERIF, "seeded"))):
            if bid.startswith(("B-", "B4-")) and os.path.isdir(os.path.join(VERIF, "seeded", bid)):
                pid = json.load(open(os.path.join(VERIF, "seeded", bid, "meta.json")))["property"]
                if not only or pid in only:
                    by.setdefault(pid, []).append(bid)
        resf = os.path.join(VERIF, "seeded", "BENIGN_RESULTS.json")
        results = json.load(open(resf)) if os.path.exists(resf) else {}

        def work(pid):
            import subprocess
            out = {}
            for bid in by[pid]:
                out[bid] = run(bid, tier)
                print(json.dumps(out[bid])[:400], flush=True)
            subprocess.run([os.path.join(VERIF, "check"), pid, "--tier", "quick"], cwd=VERIF,
                           stdout=subprocess.DEVNULL, stderr=subprocess.DEVNULL)   # restore Gen files from /repo
            return out
        with cf.ThreadPoolExecutor(max_workers=int(os.environ.get("SEED_JOBS", "4"))) as ex:
            for out in ex.map(work, sorted(by)):
                for bid, r in out.items():
                    prev = results.get(bid)
                    if prev is not None:
                        r["history"] = (prev.get("history") or []) + [{"silent": prev.get("silent"), "detail": (prev.get("detail") or "")[:200]}]
                    results[bid] = r
                json.dump(results, open(resf, "w"), indent=1, sort_keys=True)
        print("done")
