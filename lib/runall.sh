#!/bin/bash
# run every check of MANIFEST.json sequentially (tier from $1, default quick) and validate the evidence files
cd "$(dirname "$0")/.."
tier=${1:-quick}
for p in $(python3 -c "import json;print(' '.join(c['property_id'] for c in json.load(open('MANIFEST.json'))['checks']))"); do
  s=$(date +%s)
  out=$(./check $p --tier $tier 2>&1); rc=$?
  e=$(date +%s)
  v=$(echo "$out" | grep -c '^VIOLATION')
  k=$(echo "$out" | grep -c '^KNOWN-FINDING')
  ok=$(python3-vt -c "import json,jsonschema,sys; jsonschema.validate(json.load(open('evidence/$p.json')), json.load(open('/root/.vp/EVIDENCE.schema.json'))); print('evidence-valid')" 2>&1 | tail -1)
  echo "$p exit=$rc violations=$v known=$k wall=$((e-s))s $ok"
done
