"""Orchestration for ./check: regenerate facts, re-check proofs, rebuild harness from
/repo's working tree, run correspondence, decide, write evidence (DESIGN.md §1.1)."""
import concurrent.futures as cf
import hashlib, json, os, re, shutil, subprocess, sys, time

VERIF = os.path.dirname(os.path.dirname(os.path.abspath(__file__)))
REPO = os.environ.get("VERIF_REPO", "/repo")
LEAN = os.path.join(VERIF, "lean")
ALT = REPO != "/repo"   # developer mode: VERIF_REPO=/tmp/worktree ./check Cxx  (seeded-change testing without touching /repo)
BUILD = os.path.join(VERIF, ".build", "alt_" + hashlib.sha1(REPO.encode()).hexdigest()[:8]) if ALT else os.path.join(VERIF, ".build")
OUTDIR = BUILD if ALT else VERIF   # evidence/ and replays/ of an alt-repo run never overwrite the real ones
ALLOWED_AXIOMS = {"propext", "Classical.choice", "Quot.sound"}
FORBIDDEN = re.compile(r"\b(sorry|admit|native_decide|implemented_by|bv_decide)\b|^\s*axiom\s|\bunsafe\s|maxHeartbeats\s+0\b", re.M)

GOENV = dict(os.environ, GOFLAGS="-mod=mod", GOPROXY="off", GOSUMDB="off", GOTOOLCHAIN="local",
             CGO_ENABLED=os.environ.get("CGO_ENABLED", "1"))


def log(*a):
    print(*a, file=sys.stderr, flush=True)


def sh(cmd, cwd=None, env=None, timeout=None, stdin=None, stdout=subprocess.PIPE):
    t = time.time()
    p = subprocess.run(cmd, cwd=cwd, env=env, timeout=timeout, stdin=stdin, stdout=stdout,
                       stderr=subprocess.STDOUT, text=True)
    return p.returncode, (p.stdout or ""), time.time() - t


def load_cfg(pid):
    with open(os.path.join(VERIF, "lib", "props", pid + ".json")) as f:
        return json.load(f)


# ---------------------------------------------------------------- overlay / harness build

def make_overlay():
    """Map files under /verif/harness to virtual paths inside /repo. Adds files only."""
    rep = {}
    h = os.path.join(VERIF, "harness")
    def add(src, dst):
        if os.path.exists(dst):
            raise SystemExit(f"overlay would replace an existing repo file: {dst}")
        rep[dst] = src
    for fn in sorted(os.listdir(os.path.join(h, "lib"))):
        if fn.endswith(".go"):
            add(os.path.join(h, "lib", fn), os.path.join(REPO, "internal/verifharness/hlib", fn))
    cmd = os.path.join(h, "cmd")
    for name in sorted(os.listdir(cmd)):
        d = os.path.join(cmd, name)
        if not os.path.isdir(d):
            continue
        for fn in sorted(os.listdir(d)):
            if fn.endswith(".go"):
                add(os.path.join(d, fn), os.path.join(REPO, "internal/verifharness", name, fn))
    inpkg = os.path.join(h, "inpkg")
    for root, _, files in os.walk(inpkg):
        for fn in sorted(files):
            if fn.endswith(".go"):
                rel = os.path.relpath(os.path.join(root, fn), inpkg)
                add(os.path.join(root, fn), os.path.join(REPO, rel))
    os.makedirs(BUILD, exist_ok=True)
    path = os.path.join(BUILD, "overlay.json")
    tmp = path + f".{os.getpid()}"
    with open(tmp, "w") as f:
        json.dump({"Replace": rep}, f, indent=1)
    os.replace(tmp, path)
    return path


def build_harness(name, go_flags=()):
    ov = make_overlay()
    suffix = "_race" if "-race" in go_flags else ""
    out = os.path.join(BUILD, f"h_{name}{suffix}")
    cmd = ["go", "build", "-tags", "verif", "-overlay", ov, *go_flags, "-o", out, f"./internal/verifharness/{name}"]
    rc, o, dt = sh(cmd, cwd=REPO, env=GOENV, timeout=1800)
    return rc == 0, out, o, dt


# ---------------------------------------------------------------- facts / lean

def run_extractors(cfg):
    """Regenerate FqModel/Gen/*.lean from /repo's working tree. Returns list of (name, ok, msg)."""
    res = []
    for ex in cfg.get("extract", []):
        out = os.path.join(LEAN, ex["out"])
        os.makedirs(os.path.dirname(out), exist_ok=True)
        # stdout is the Lean file; diagnostics of the extractor go to stderr and must never end up in it
        t0 = time.time()
        p = subprocess.run(["go", "run", "./" + ex["cmd"], REPO, *ex.get("args", [])],
                           cwd=os.path.join(VERIF, "extract"), env=GOENV, timeout=900,
                           stdout=subprocess.PIPE, stderr=subprocess.PIPE, text=True)
        rc, o, dt = p.returncode, (p.stdout or ""), time.time() - t0
        if rc != 0:
            res.append((ex["cmd"], False, ((p.stderr or "") + o)[-2000:]))
            continue
        old = open(out).read() if os.path.exists(out) else None
        if old != o:
            with open(out, "w") as f:
                f.write(o)
        note = (" ; extractor notes: " + " | ".join((p.stderr or "").strip().splitlines()[:6])) if (p.stderr or "").strip() else ""
        res.append((ex["cmd"], True, f"{len(o)} bytes, {'changed' if old != o else 'unchanged'}, {dt:.1f}s{note}"))
    return res


def strip_comments(s):
    s = re.sub(r"/-.*?-/", "", s, flags=re.S)
    s = re.sub(r'"(\\.|[^"\\])*"', '""', s)   # strings before line comments: "--flag" is not a comment
    s = re.sub(r"--.*", "", s)
    return s


def import_closure(roots):
    """Project-local modules (files under lean/) transitively imported by the given modules."""
    seen, todo = set(), list(roots)
    while todo:
        m = todo.pop()
        if m in seen:
            continue
        path = os.path.join(LEAN, m.replace(".", "/") + ".lean")
        if not os.path.exists(path):
            continue
        seen.add(m)
        for line in open(path):
            mm = re.match(r"\s*(?:public\s+)?import\s+(?:all\s+)?([\w.]+)", line)
            if mm:
                todo.append(mm.group(1))
    return seen


def forbidden_tokens(cfg, roots):
    """grep sorry/admit/axiom/native_decide/… (outside comments and strings) in every project file the
    property's theorems and drivers depend on."""
    hits = []
    allow_bv = set(cfg.get("allow_bv_decide_in", []))
    for m in sorted(import_closure(roots)):
        rel = m.replace(".", "/") + ".lean"
        for mm in FORBIDDEN.finditer(strip_comments(open(os.path.join(LEAN, rel)).read())):
            tok = mm.group(0).strip()
            if tok == "bv_decide" and rel in allow_bv:
                continue
            hits.append(f"{rel}: {tok}")
    return hits


def theorem_names(module):
    """Fully qualified theorem names declared in lean/<module path>.lean."""
    path = os.path.join(LEAN, module.replace(".", "/") + ".lean")
    names, ns = [], []
    for line in strip_comments(open(path).read()).splitlines():
        m = re.match(r"\s*namespace\s+(\S+)", line)
        if m:
            ns.append(m.group(1)); continue
        m = re.match(r"\s*end\s+(\S+)", line)
        if m and ns and ns[-1] == m.group(1):
            ns.pop(); continue
        m = re.match(r"\s*(?:@\[[^\]]*\]\s*)?(?:private\s+|protected\s+)?theorem\s+([^\s:({\[]+)", line)
        if m:
            names.append(".".join(ns + [m.group(1)]))
    return names


def lean_check(pid, cfg, thorough):
    """lake build + axiom audit. Returns dict."""
    r = {"ok": True, "obligations": 0, "discharged": 0, "axioms": {}, "broken": [], "log": "", "wall_s": 0.0}
    t0 = time.time()
    mods = cfg.get("lean_props", [])
    drivers = sorted({run["driver"] for run in cfg.get("runs", []) if run.get("driver")})
    # drivers first and separately: a broken proof must not stop the correspondence run
    r["drivers_ok"] = True
    if drivers:
        rc, o, _ = sh(["lake", "build", *drivers], cwd=LEAN, timeout=3600)
        if rc != 0:
            r["drivers_ok"] = False
            r["ok"] = False
            r["broken"].append("driver build failed: " + "; ".join(re.findall(r"error: (.*)", o)[:5]))
            r["log"] += o[-4000:]
    if mods:
        rc, o, _ = sh(["lake", "build", *mods], cwd=LEAN, timeout=3600)
        if rc != 0:
            r["ok"] = False
            errs = re.findall(r"error: (\S+\.lean:\d+:\d+: .*)", o)
            r["broken"].append("lake build failed: " + " | ".join(errs[:8]))
            r["log"] += o[-6000:]
    hits = forbidden_tokens(cfg, list(mods) + [("Drv." + d[4:].upper()) if d.startswith("drv_") else d for d in drivers])
    if hits:
        r["ok"] = False
        r["broken"].append("forbidden tokens: " + ", ".join(hits[:10]))
    # axiom audit
    names = []
    for m in mods:
        try:
            names += theorem_names(m)
        except FileNotFoundError:
            r["ok"] = False
            r["broken"].append(f"missing module {m}")
    r["obligations"] = len(names)
    if names and not any(b.startswith("lake build failed") for b in r["broken"]):
        os.makedirs(os.path.join(LEAN, "Audit"), exist_ok=True)
        ap = os.path.join(LEAN, "Audit", pid + ".lean")
        with open(ap, "w") as f:
            for m in mods:
                f.write(f"import {m}\n")
            for n in names:
                f.write(f"#print axioms {n}\n")
        rc, o, _ = sh(["lake", "env", "lean", ap], cwd=LEAN, timeout=1800)
        allowed = ALLOWED_AXIOMS | set(cfg.get("allowed_extra_axioms", []))
        seen = set()
        for m in re.finditer(r"'([^']+)' (does not depend on any axioms|depends on axioms: \[([^\]]*)\])", o, re.S):
            name, axs = m.group(1), m.group(3)
            axl = [a.strip() for a in re.split(r",\s*", axs.replace("\n", " "))] if axs else []
            seen.add(name)
            r["axioms"][name] = axl
            extra = [a for a in axl if a not in allowed and not
                     (re.search(r"bv_decide\.ax", a) and cfg.get("allow_bv_decide_in"))]
            if extra:
                r["ok"] = False
                r["broken"].append(f"{name}: disallowed axioms {extra}")
            else:
                r["discharged"] += 1
        for n in names:
            if n not in seen:
                r["ok"] = False
                r["broken"].append(f"{n}: not found by audit ({o.strip()[-300:]})")
    if thorough and r["ok"] and mods:
        rc, o, _ = sh(["lake", "env", "leanchecker", *mods], cwd=LEAN, timeout=3600)
        r["leanchecker"] = "ok" if rc == 0 else "FAILED: " + o[-500:]
        if rc != 0:
            r["ok"] = False
            r["broken"].append("leanchecker failed")
    r["wall_s"] = time.time() - t0
    return r


# ---------------------------------------------------------------- correspondence runs

def run_pair(pid, run, tier, seed, shard, replay=None):
    """Run one harness (+ driver) shard. Returns dict with verdict tallies."""
    name = run["harness"]
    # one directory per check process: two checks of the same property may run at the same time
    d = os.path.join(BUILD, "run", pid, f"p{os.getpid()}", f"{run.get('name', name)}_{shard}")
    shutil.rmtree(d, ignore_errors=True)
    os.makedirs(d)
    ops = os.path.join(d, "ops.txt")
    suffix = "_race" if "-race" in run.get("go_flags", []) else ""
    hbin = os.path.join(BUILD, f"h_{name}{suffix}")
    cmd = [hbin, "-tier", tier, "-seed", str(seed), "-out", ops, *run.get("args", [])]
    if replay:
        cmd[1:1] = ["-replay", replay]
    to = run.get("timeout_" + tier, 600 if tier == "quick" else 3000)
    env = dict(GOENV, VERIF_DIR=VERIF, VERIF_REPO=REPO, VERIF_WORK=d, **run.get("env", {}))
    res = {"run": run.get("name", name), "shard": shard, "seed": seed, "ops": ops, "cases": 0, "ok": 0, "propfail": [],
           "known": [], "diverge": [], "badop": [], "stats": {}, "samples": [], "harness_error": None, "wall_s": 0}
    t0 = time.time()
    try:
        rc, o, _ = sh(cmd, cwd=d, env=env, timeout=to)
    except subprocess.TimeoutExpired:
        res["harness_error"] = f"harness timeout after {to}s"
        return res
    with open(os.path.join(d, "harness.log"), "w") as f:
        f.write(o)
    if rc != 0:
        res["harness_error"] = f"harness exit {rc}: {o[-1500:]}"
    if not os.path.exists(ops):
        res["harness_error"] = (res["harness_error"] or "") + " (no ops file)"
        return res
    verdicts = None
    if run.get("driver"):
        dbin = os.path.join(LEAN, ".lake/build/bin", run["driver"])
        vp = os.path.join(d, "verdicts.txt")
        if not os.path.exists(dbin):
            res["harness_error"] = f"driver {run['driver']} not built"
            return res
        with open(ops) as fi, open(vp, "w") as fo:
            p = subprocess.run([dbin], stdin=fi, stdout=fo, stderr=subprocess.PIPE, text=True, timeout=to)
        if p.returncode != 0:
            res["harness_error"] = f"driver exit {p.returncode}: {p.stderr[-800:]}"
        verdicts = open(vp)
    def tally(kind_line, op):
        kl = kind_line.rstrip("\n")
        main = kl.split(" ;DIVERGE", 1)[0]
        if " ;DIVERGE" in kl:
            res["diverge"].append((op, kl))
        if main == "OK" or main.startswith("OK "):
            res["ok"] += 1
        elif main.startswith("PROPFAIL"):
            res["propfail"].append((op, kl))
        elif main.startswith("KNOWN"):
            res["known"].append((op, kl))
        elif main.startswith("DIVERGE"):
            res["diverge"].append((op, kl))
        else:
            res["badop"].append((op, kl))
    with open(ops, errors="replace") as f:
        for line in f:
            if line.startswith("#stat "):
                _, k, v = line.split(None, 2)
                res["stats"][k] = res["stats"].get(k, 0) + int(v)
            elif line.startswith("#sample "):
                res["samples"].append(line[8:].rstrip("\n"))
            elif line.startswith("#") or not line.strip():
                continue
            elif line.startswith("!"):
                # harness-decided verdict: `!KIND text`
                res["cases"] += 1
                tally(line[1:], line[1:].rstrip("\n"))
            else:
                res["cases"] += 1
                if verdicts is not None:
                    v = verdicts.readline()
                    if not v:
                        res["badop"].append((line.rstrip("\n")[:300], "driver produced no verdict"))
                        continue
                    tally(v, line.rstrip("\n"))
                else:
                    res["badop"].append((line.rstrip("\n")[:300], "case line but no driver configured"))
    res["wall_s"] = time.time() - t0
    return res


def known_findings():
    p = os.path.join(VERIF, "known_findings.json")
    if not os.path.exists(p):
        return []
    return json.load(open(p))


def write_replay(pid, kind, payload):
    d = os.path.join(OUTDIR, "replays", pid)
    os.makedirs(d, exist_ok=True)
    body = json.dumps(dict(property=pid, kind=kind, **payload), indent=1, sort_keys=True)
    path = os.path.join(d, hashlib.sha1(body.encode()).hexdigest()[:12] + ".json")
    with open(path, "w") as f:
        f.write(body + "\n")
    return path


def main(argv):
    import argparse
    ap = argparse.ArgumentParser()
    ap.add_argument("pid")
    ap.add_argument("--tier", default=os.environ.get("VERIF_TIER") or "quick", choices=["quick", "thorough"])
    ap.add_argument("--replay")
    ap.add_argument("--skip-lean", action="store_true", help="developer shortcut; never used by registered commands")
    a = ap.parse_args(argv)
    pid, tier = a.pid, a.tier
    seed = int(os.environ.get("VERIF_SEED") or 1)
    cfg = load_cfg(pid)
    t0 = time.time()
    thorough = tier == "thorough"

    replay_ops = None
    if a.replay:
        rp = json.load(open(a.replay))
        if not rp.get("ops"):
            log(f"replay {a.replay} names a broken obligation, not an input: {rp.get('broken')}")
        else:
            replay_ops = os.path.join(BUILD, f"replay_{pid}.ops")
            os.makedirs(BUILD, exist_ok=True)
            with open(replay_ops, "w") as f:
                f.write("\n".join(rp["ops"]) + "\n")

    # 1. facts
    ex = run_extractors(cfg)
    broken = [f"extractor {n} failed: {m}" for n, ok, m in ex if not ok]
    for n, ok, m in ex:
        log(f"[{pid}] extract {n}: {'ok' if ok else 'FAILED'} {m if ok else ''}")

    # 2. proofs
    if a.skip_lean:
        lean = {"ok": True, "obligations": 0, "discharged": 0, "axioms": {}, "broken": [], "wall_s": 0, "drivers_ok": True}
    else:
        lean = lean_check(pid, cfg, thorough)
    log(f"[{pid}] lean: ok={lean['ok']} obligations={lean['obligations']} discharged={lean['discharged']} ({lean['wall_s']:.1f}s)")
    broken += lean["broken"]

    # 3. harness
    results = []
    built = set()
    for run in cfg.get("runs", []):
        key = (run["harness"], tuple(run.get("go_flags", [])))
        if key in built:
            continue
        if run.get("tier_only") and run["tier_only"] != tier:
            continue
        ok, out, o, dt = build_harness(run["harness"], run.get("go_flags", []))
        log(f"[{pid}] harness {run['harness']} build: {'ok' if ok else 'FAILED'} ({dt:.1f}s)")
        if not ok:
            broken.append(f"harness {run['harness']} does not build against /repo: {o[-1500:]}")
        built.add(key)

    # drop run directories of check processes that no longer exist
    rdir = os.path.join(BUILD, "run", pid)
    if os.path.isdir(rdir):
        for n in os.listdir(rdir):
            alive = n.startswith("p") and n[1:].isdigit() and os.path.exists(f"/proc/{n[1:]}")
            if not alive:
                shutil.rmtree(os.path.join(rdir, n), ignore_errors=True)

    # 4. correspondence: corpus first, then generated shards
    jobs = []
    for run in cfg.get("runs", []):
        if run.get("tier_only") and run["tier_only"] != tier:
            continue
        if any(b.startswith(f"harness {run['harness']} ") for b in broken):
            continue
        if replay_ops:
            jobs.append((run, seed, "replay", replay_ops))
            continue
        cdir = os.path.join(VERIF, "corpus", pid)
        if os.path.isdir(cdir) and not run.get("no_corpus"):
            for fn in sorted(os.listdir(cdir)):
                if fn.endswith(".ops") and (fn.startswith(run.get("name", run["harness"]) + ".") or len(cfg["runs"]) == 1):
                    jobs.append((run, seed, "corpus_" + fn, os.path.join(cdir, fn)))
        shards = run.get("shards_" + tier, 1)
        for s in range(shards):
            jobs.append((run, seed + 1000003 * s, str(s), None))
    maxw = int(os.environ.get("VERIF_JOBS") or 8)
    def safe_pair(run, sd, shard, rp):
        # an internal error of the machinery must not look like a verdict: retry once (after rebuilding the
        # harness, e.g. if its binary vanished), then report it as a harness error
        for attempt in (1, 2):
            try:
                return run_pair(pid, run, tier, sd, shard, rp)
            except Exception as e:  # noqa
                err = f"{type(e).__name__}: {e}"
                log(f"[{pid}] run {run.get('name', run['harness'])}[{shard}] internal error (attempt {attempt}): {err}")
                if attempt == 1:
                    build_harness(run["harness"], run.get("go_flags", []))
        return {"run": run.get("name", run["harness"]), "shard": shard, "seed": sd, "ops": "", "cases": 0, "ok": 0,
                "propfail": [], "known": [], "diverge": [], "badop": [], "stats": {}, "samples": [],
                "harness_error": "internal error: " + err, "wall_s": 0}
    with cf.ThreadPoolExecutor(max_workers=maxw) as pool:
        futs = [pool.submit(safe_pair, run, sd, shard, rp) for run, sd, shard, rp in jobs]
        for f in futs:
            results.append(f.result())

    # 5. decide
    kf = [k for k in known_findings() if k["property"] == pid]
    known_keys = {k["key"]: k for k in kf if k["status"] == "known"}
    fails, unknown_known, diverges, badops, herrs = [], [], [], [], []
    seen_known = {}
    tot = {"cases": 0, "ok": 0}
    stats, samples = {}, []
    for r in results:
        tot["cases"] += r["cases"]; tot["ok"] += r["ok"]
        for k, v in r["stats"].items():
            stats[k] = stats.get(k, 0) + v
        samples += r["samples"][:3]
        fails += [(r, op, v) for op, v in r["propfail"]]
        for op, v in r["known"]:
            key = v.split()[1] if len(v.split()) > 1 else "?"
            if key in known_keys:
                seen_known.setdefault(key, []).append(op)
            else:
                unknown_known.append((r, op, v))
        diverges += [(r, op, v) for op, v in r["diverge"]]
        badops += [(r, op, v) for op, v in r["badop"]]
        if r["harness_error"]:
            herrs.append(f"{r['run']}[{r['shard']}]: {r['harness_error']}")
        log(f"[{pid}] run {r['run']}[{r['shard']}] seed={r['seed']}: cases={r['cases']} ok={r['ok']} propfail={len(r['propfail'])} "
            f"known={len(r['known'])} diverge={len(r['diverge'])} bad={len(r['badop'])} ({r['wall_s']:.1f}s)"
            + (f" ERROR {r['harness_error'][:300]}" if r["harness_error"] else ""))

    violations = 0
    exit_code = 0
    all_fail = fails + unknown_known
    if all_fail:
        r, op, v = min(all_fail, key=lambda x: len(x[1]))
        path = write_replay(pid, "impl-violates-property", {
            "ops": [op.split("\t")[0]], "observation": op.split("\t")[1] if "\t" in op else "", "verdict": v,
            "run": r["run"], "seed": r["seed"], "tier": tier, "count": len(all_fail),
            "broken": broken[:5], "replay_cmd": f"./check {pid} --replay <this file>"})
        print(f"VIOLATION property={pid} replay={path}")
        violations = len(all_fail)
        exit_code = 1
    elif broken or diverges or badops or herrs:
        what = {"broken": broken[:10],
                "divergences": [{"op": op[:2000], "verdict": v[:2000], "run": r["run"], "seed": r["seed"]} for r, op, v in diverges[:5]],
                "badops": [{"op": op[:500], "verdict": v[:500]} for r, op, v in badops[:5]],
                "harness_errors": herrs[:5], "tier": tier, "seed": seed,
                "note": "a proof obligation or the model/implementation correspondence no longer checks; "
                        "the search over this run's generated cases found no input falsifying the property statement"}
        if diverges:
            r, op, v = min(diverges, key=lambda x: len(x[1]))
            what["ops"] = [op.split("\t")[0]]
        path = write_replay(pid, "proof-broken" if broken else "model-impl-divergence", what)
        print(f"VIOLATION property={pid} replay={path} no-failing-input-found")
        violations = 1
        exit_code = 1
    for k in kf:
        if k["status"] == "known":
            n = len(seen_known.get(k["key"], []))
            print(f"KNOWN-FINDING: property={pid} {k['key']}: {k['what']} (observed on {n} cases this run)")

    # 6. evidence
    if not a.replay:
        dn = stats.get("distinct_nontrivial", 0)
        cov = {
            "evaluations": tot["cases"],
            "distinct_nontrivial": dn,
            "rule": cfg.get("rule", ""),
            "samples": samples[:8] or [f"(no sample lines emitted) first run: {results[0]['ops'] if results else '-'}"],
            "traces_validated_against_impl": tot["ok"],
            "obligations": lean["obligations"],
            "discharged": lean["discharged"],
            "checker_cmd": f"cd /verif/lean && lake build {' '.join(cfg.get('lean_props', []))} && lake env lean Audit/{pid}.lean  (#print axioms on every theorem of the Props modules)"
                           + ("; lake env leanchecker" if thorough else ""),
            "trusted_base": cfg.get("trusted_base", []),
            "explanation": cfg.get("explanation", ""),
            "axioms_per_theorem": lean["axioms"],
            "theorems": sorted(lean["axioms"].keys()),
            "facts_regenerated": [f"{n}: {m}" for n, ok, m in ex],
            "harness_stats": stats,
            "known_findings_observed": {k: len(v) for k, v in seen_known.items()},
            "divergences": len(diverges), "propfail": len(fails), "badops": len(badops),
            "exhaustive": bool(stats.get("exhaustive_small_domain")),
        }
        if "leanchecker" in lean:
            cov["leanchecker"] = lean["leanchecker"]
        ev = {"property_id": pid, "tier": tier, "seed": seed, "level": cfg["level"], "coverage": cov,
              "assumptions": cfg.get("assumptions", []), "wall_s": round(time.time() - t0, 2), "violations": violations}
        os.makedirs(os.path.join(OUTDIR, "evidence"), exist_ok=True)
        with open(os.path.join(OUTDIR, "evidence", pid + ".json"), "w") as f:
            json.dump(ev, f, indent=1, sort_keys=True)
            f.write("\n")
    log(f"[{pid}] {tier} done in {time.time() - t0:.1f}s exit={exit_code}")
    return exit_code
