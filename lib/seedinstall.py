#!/usr/bin/env python3
"""seedinstall.py <candidate dir> <Cxx> <seed id>: verify a candidate (seedtool.verify), install it as
/verif/seeded/<seed id>/ and run the property's quick check against it; results are merged into
seeded/RESULTS.json and seeded/RESULTS_round6_first_run.json (first run only)."""
import json, os, shutil, sys, fcntl
sys.path.insert(0, os.path.dirname(os.path.abspath(__file__)))
import seedtool
cand, pid, sid = sys.argv[1:4]
V = seedtool.VERIF
res = seedtool.verify(cand, pid)
print(json.dumps(res, indent=1), flush=True)
if not res.get("ok"):
    sys.exit(1)
d = os.path.join(V, "seeded", sid)
os.makedirs(d, exist_ok=True)
for f in os.listdir(cand):
    shutil.copy(os.path.join(cand, f), os.path.join(d, f))
meta = json.load(open(os.path.join(d, "meta.json")))
meta["property"] = pid
meta["origin"] = "independent fault-seeding sub-agent given only the property text and a scratch worktree of /repo (nothing from /verif), round 6"
meta["what_i_ran"] = ("lib/seedtool.py verify (fresh scratch worktree of /repo HEAD): patch applies, go build ./... ok, demo `%s` passes on the unchanged tree and fails with the change, full suite passes with the change (first-run failing packages re-run alone: %s)" % (res.get("demo_cmd"), res.get("suite_first_run_failed_pkgs")))
meta["verified"] = True
json.dump(meta, open(os.path.join(d, "meta.json"), "w"), indent=1)
r = seedtool.run_seed(sid, "quick", [pid])
out = r.get("results", {}).get(pid) or {"error": r.get("error")}
print(sid, pid, json.dumps(out)[:600], flush=True)
lock = open(os.path.join(V, ".build", "seedinstall.lock"), "w")
fcntl.flock(lock, fcntl.LOCK_EX)
for name in ("RESULTS.json", "RESULTS_round6_first_run.json"):
    p = os.path.join(V, "seeded", name)
    allr = json.load(open(p)) if os.path.exists(p) else {}
    if name.startswith("RESULTS_round6") and sid in allr and pid in allr[sid]:
        continue
    allr.setdefault(sid, {})[pid] = dict(out, tier="quick")
    json.dump(allr, open(p, "w"), indent=1, sort_keys=True)
