#!/usr/bin/env python3
"""Run every seeded change against the check(s) of its property, properties in parallel, seeds of one
property sequentially (they share that property's regenerated Gen files); afterwards re-run the check on
/repo so that Gen files are restored. usage: seedrun_all.py [tier] [Cxx ...]"""
import json, os, subprocess, sys, concurrent.futures as cf
sys.path.insert(0, os.path.dirname(os.path.abspath(__file__)))
import seedtool
V = seedtool.VERIF
tier = sys.argv[1] if len(sys.argv) > 1 else "quick"
only = set(sys.argv[2:])
by = {}
for sid in sorted(os.listdir(os.path.join(V, "seeded"))):
    d = os.path.join(V, "seeded", sid)
    if not os.path.isdir(d) or sid.startswith(("B-", "B4-")) or not sid.startswith(os.environ.get("SEED_PREFIX", "")):
        continue
    meta = json.load(open(os.path.join(d, "meta.json")))
    for pid in meta.get("checks") or [meta["property"]]:
        if only and pid not in only:
            continue
        by.setdefault(pid, []).append(sid)
resf = os.path.join(V, "seeded", "RESULTS.json")
results = json.load(open(resf)) if os.path.exists(resf) else {}
def work(pid):
    out = {}
    for sid in by[pid]:
        r = seedtool.run_seed(sid, tier, [pid])
        out[sid] = r.get("results", {}).get(pid) or {"error": r.get("error")}
        print(pid, sid, json.dumps(out[sid])[:300], flush=True)
    subprocess.run([os.path.join(V, "check"), pid, "--tier", "quick"], cwd=V, stdout=subprocess.DEVNULL, stderr=subprocess.DEVNULL)
    return pid, out
with cf.ThreadPoolExecutor(max_workers=int(os.environ.get("SEED_JOBS", "4"))) as ex:
    for pid, out in ex.map(work, sorted(by)):
        for sid, r in out.items():
            prev = results.get(sid, {}).get(pid)
            cur = dict(r, tier=tier)
            if prev is not None:
                # keep the history: a change that was missed at first and is caught after strengthening stays visible
                cur["history"] = (prev.get("history") or []) + [{"detected": prev.get("detected"), "how": prev.get("how")}]
            results.setdefault(sid, {})[pid] = cur
        json.dump(results, open(resf, "w"), indent=1, sort_keys=True)
print("done")
