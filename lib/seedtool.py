#!/usr/bin/env python3
"""Seeded-change tooling.

  seedtool.py verify <candidate dir> <Cxx>     confirm a candidate (patch.diff + demo) in a scratch worktree:
                                               applies cleanly, builds, full suite passes, demo fails with it and
                                               passes without it; prints a JSON summary
  seedtool.py run <seeded id> [tier]           apply /verif/seeded/<id>/patch.diff in a scratch worktree and run the
                                               check(s) of its property against it (VERIF_REPO); report detection
  seedtool.py runall [tier]                    all of /verif/seeded/*; writes /verif/seeded/RESULTS.json

Scratch worktrees live under /tmp/seedwt_* and are removed afterwards.
"""
import json, os, re, shutil, subprocess, sys, time

VERIF = os.path.dirname(os.path.dirname(os.path.abspath(__file__)))
ENV = dict(os.environ, GOFLAGS="-mod=mod", GOPROXY="off", GOSUMDB="off", GOTOOLCHAIN="local")


def sh(cmd, cwd=None, env=ENV, timeout=3000):
    p = subprocess.run(cmd, cwd=cwd, env=env, shell=isinstance(cmd, str), stdout=subprocess.PIPE,
                       stderr=subprocess.STDOUT, text=True, timeout=timeout)
    return p.returncode, p.stdout


def mkwt(tag):
    wt = f"/tmp/seedwt_{tag}_{os.getpid()}"
    sh(["git", "-C", "/repo", "worktree", "remove", "--force", wt])
    rc, o = sh(["git", "-C", "/repo", "worktree", "add", "--detach", wt, "HEAD"])
    if rc != 0:
        raise SystemExit(o)
    return wt


def rmwt(wt):
    sh(["git", "-C", "/repo", "worktree", "remove", "--force", wt])
    shutil.rmtree(wt, ignore_errors=True)
    sh(["git", "-C", "/repo", "worktree", "prune"])


def place_demo(cand, wt):
    """demo_cmd.txt is free text. Heuristics: *_test.go files go to the first repo directory named in the text;
    the command is the first `go test …` (or `sh …`/`bash …`) found. Returns (command, placed files)."""
    txt = open(os.path.join(cand, "demo_cmd.txt")).read()
    txt = re.sub(r"<repo>|\$REPO|/tmp/mut/wt\d?_C\d+", wt, txt)
    files = [f for f in os.listdir(cand) if f not in ("patch.diff", "meta.json", "demo_cmd.txt")]
    dirs = []
    for d in re.findall(r"((?:pkg|internal|format|cmd)/[\w/\-.]+)", txt):
        d = d.rstrip("/.")
        if d.endswith(".go") or d.endswith(".sh"):
            d = os.path.dirname(d)
        if os.path.isdir(os.path.join(wt, d)) and d not in dirs:
            dirs.append(d)
    first = txt.strip().splitlines()[0].strip().strip("`").rstrip("/") if txt.strip() else ""
    if first.startswith("./"):
        first = first[2:]
    if first and " " not in first and os.path.isdir(os.path.join(wt, first)):
        dirs = [first] + [d for d in dirs if d != first]   # round 5 convention: line 1 = directory of the demo file
    placed = []
    for f in files:
        dest = None
        if f.endswith("_test.go"):
            mm = re.search(r"^package\s+(\w+?)(?:_test)?\s*$", open(os.path.join(cand, f)).read(), re.M)
            pkg = mm.group(1) if mm else None
            for d in dirs:
                if os.path.basename(d) == pkg:
                    dest = d
                    break
            if dest is None and dirs:
                dest = dirs[0]
        if dest:
            shutil.copy(os.path.join(cand, f), os.path.join(wt, dest, f))
            placed.append(os.path.join(dest, f))
        else:
            shutil.copy(os.path.join(cand, f), os.path.join(wt, f))
            placed.append(f)
    m = re.search(r"(go test [^\n(`]*)", txt) or re.search(r"((?:sh|bash)\s+\S+\.sh[^\n(`]*)", txt)
    cmd = m.group(1).strip() if m else None
    if "zz_demo.sh" in files and not re.search(r"go test ", txt):
        cmd = "sh zz_demo.sh"
    return cmd, placed


def verify(cand, pid):
    res = {"candidate": cand, "property": pid}
    wt = mkwt("v" + pid)
    try:
        rc, o = sh(["git", "-C", wt, "apply", "--check", os.path.join(cand, "patch.diff")])
        res["applies"] = rc == 0
        if rc != 0:
            res["error"] = o[-500:]
            return res
        cmd, placed = place_demo(cand, wt)
        res["demo_cmd"] = cmd
        if not cmd:
            res["error"] = "no demo command found in demo_cmd.txt"
            return res
        rc, o = sh(cmd, cwd=wt, timeout=900)
        res["demo_passes_unchanged"] = rc == 0
        res["demo_unchanged_tail"] = o[-300:]
        sh(["git", "-C", wt, "apply", os.path.join(cand, "patch.diff")])
        rc, o = sh("go build ./...", cwd=wt)
        res["builds"] = rc == 0
        rc, o = sh(cmd, cwd=wt, timeout=900)
        res["demo_fails_with_change"] = rc != 0
        res["demo_changed_tail"] = o[-600:]
        # full suite without the demo files
        for p in placed:
            try:
                os.remove(os.path.join(wt, p))
            except FileNotFoundError:
                pass
        t = time.time()
        rc, o = sh("go test -vet=off -count=1 -timeout 90m ./... 2>&1 | grep -v 'no test files'", cwd=wt, timeout=7200)
        failed = [x for x in re.findall(r"^FAIL[ \t]+(\S+)", o, re.M) if "/" in x]
        res["suite_first_run_failed_pkgs"] = failed
        still = []
        for pkg in failed:   # timing-sensitive tests (completion) flake on a loaded machine: re-run the package alone, twice
            ok = False
            for _ in range(2):
                rc2, o2 = sh(f"go test -vet=off -count=1 -timeout 60m {pkg}", cwd=wt, timeout=4000)
                if rc2 == 0:
                    ok = True
                    break
            if not ok:
                still.append(pkg)
                res["suite_tail"] = o2[-800:]
        res["suite_passes"] = not still and "panic:" not in o
        res["suite_s"] = round(time.time() - t)
        res["ok"] = all(res.get(k) for k in ("applies", "builds", "demo_passes_unchanged", "demo_fails_with_change", "suite_passes"))
    finally:
        rmwt(wt)
    return res


def run_seed(sid, tier="quick", props=None):
    d = os.path.join(VERIF, "seeded", sid)
    meta = json.load(open(os.path.join(d, "meta.json")))
    pids = props or meta.get("checks") or [meta["property"]]
    wt = mkwt("r" + sid)
    out = {"seed": sid, "property": meta["property"], "results": {}}
    try:
        rc, o = sh(["git", "-C", wt, "apply", os.path.join(d, "patch.diff")])
        if rc != 0:
            out["error"] = "patch does not apply: " + o[-300:]
            return out
        for pid in pids:
            t = time.time()
            rc, o = sh([os.path.join(VERIF, "check"), pid, "--tier", tier], cwd=VERIF,
                       env=dict(os.environ, VERIF_REPO=wt), timeout=7200)
            vio = [l for l in o.splitlines() if l.startswith("VIOLATION")]
            how = "missed"
            if vio:
                how = "no-failing-input-found" if "no-failing-input-found" in vio[0] else "failing-input"
            detail = ""
            m = re.search(r"replay=(\S+)", vio[0]) if vio else None
            if m and os.path.exists(m.group(1)):
                rp = json.load(open(m.group(1)))
                detail = (rp.get("verdict") or "; ".join(rp.get("broken", [])[:2]) or
                          json.dumps(rp.get("divergences", [])[:1]))[:400]
            out["results"][pid] = {"exit": rc, "detected": bool(vio), "how": how, "detail": detail,
                                   "wall_s": round(time.time() - t)}
            if not vio:
                out["results"][pid]["output_tail"] = o[-1500:]
    finally:
        rmwt(wt)
        # this worktree's alt build dir is large: drop it
        import hashlib
        shutil.rmtree(os.path.join(VERIF, ".build", "alt_" + hashlib.sha1(wt.encode()).hexdigest()[:8]), ignore_errors=True)
    return out


if __name__ == "__main__":
    cmd = sys.argv[1]
    if cmd == "verify":
        print(json.dumps(verify(sys.argv[2], sys.argv[3]), indent=1))
    elif cmd == "run":
        print(json.dumps(run_seed(sys.argv[2], *(sys.argv[3:4])), indent=1))
    elif cmd == "runall":
        tier = sys.argv[2] if len(sys.argv) > 2 else "quick"
        allr = []
        for sid in sorted(os.listdir(os.path.join(VERIF, "seeded"))):
            if os.path.isdir(os.path.join(VERIF, "seeded", sid)):
                r = run_seed(sid, tier)
                print(json.dumps(r))
                allr.append(r)
        json.dump(allr, open(os.path.join(VERIF, "seeded", "RESULTS.json"), "w"), indent=1)
