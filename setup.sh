#!/bin/bash
# Build everything from files on disk only (offline). Run once after a fresh restore.
set -e
cd "$(dirname "$0")"
export GOFLAGS=-mod=mod GOPROXY=off GOSUMDB=off GOTOOLCHAIN=local
(cd lean && lake build 2>&1 | tail -3)
python3 - <<'PY'
import sys, os, json, glob
sys.path.insert(0, "lib")
import runner
names = set()
for p in sorted(glob.glob("lib/props/*.json")):
    c = json.load(open(p))
    if not c.get("manifest"):
        continue
    pid = os.path.basename(p)[:-5]
    for ex in runner.run_extractors(c):
        print("extract", pid, ex[0], ex[1])
    drivers = sorted({r["driver"] for r in c.get("runs", []) if r.get("driver")})
    if drivers:
        rc, o, dt = runner.sh(["lake", "build", *drivers, *c.get("lean_props", [])], cwd=runner.LEAN)
        print("lake", pid, drivers, "ok" if rc == 0 else o[-2000:])
    for r in c.get("runs", []):
        k = (r["harness"], tuple(r.get("go_flags", [])))
        if k in names:
            continue
        names.add(k)
        ok, out, o, dt = runner.build_harness(r["harness"], r.get("go_flags", []))
        print("harness", r["harness"], "ok" if ok else o[-2000:], f"{dt:.1f}s")
PY
